#!/usr/bin/env python3
"""Regenerates Appendix E of DESIGN.md (the rules serving each property) from `bin/cloverlint -rules-md`."""
import subprocess
p = '/verif/DESIGN.md'
s = open(p).read()
md = subprocess.check_output(['/verif/bin/cloverlint', '-rules-md']).decode()
hdr = "## Appendix E. Rules serving each property (generated: `bin/cloverlint -rules-md`)\n\n"
intro = ("This list is generated from `checker/props.go`, the table the checks themselves run from, so it is always the "
         "current one; §3 and §4 describe the rules in prose and may lag behind it for the rules added late.\n\n")
i = s.index("## Appendix E.") if "## Appendix E." in s else len(s.rstrip('\n')) + 2
s = (s[:i] if "## Appendix E." in s else s.rstrip('\n') + "\n\n") + hdr + intro + md
open(p, 'w').write(s)
print("appendix E regenerated")
