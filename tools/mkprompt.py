#!/usr/bin/env python3
# mkprompt.py seed|hunt|refactor <PID> <worktree> [extra sentence...]: fill a prompt template with the text of one
# property (properties.jsonl) and the worktree path. The sub-agent is given nothing else from /verif.
import json, sys, os
kind, pid, wt = sys.argv[1:4]
extra = " ".join(sys.argv[4:])
tpl = open(os.path.join(os.path.dirname(__file__), kind + "_prompt_template.txt")).read()
prop = None
for l in open("/verif/properties.jsonl"):
    j = json.loads(l)
    if j["id"] == pid:
        prop = j
out = tpl.replace("{WORKTREE}", wt).replace("{WTNAME}", os.path.basename(wt)).replace("{PID}", pid)
out = out.replace("{PROPERTY_JSON}", json.dumps(prop, indent=1) if prop else "(none)")
if extra:
    out += "\n\nADDITIONAL DIRECTION: " + extra + "\n"
print(out)
