#!/bin/sh
# baseline.sh [dir]: run clover's test suite in dir (default /repo) and compare with the 84 stable tests of BASELINE.json
DIR="${1:-/repo}"
export GOFLAGS=-mod=mod GOPROXY=off GOSUMDB=off GOTOOLCHAIN=local GOWORK=off
OUT=$(mktemp)
# the suite's temporary directories go to a private place, so that concurrent runs do not remove each other's
T=$(mktemp -d /tmp/vbase-tmp.XXXXXX)
(cd "$DIR" && TMPDIR="$T" go test -json -vet=off -count=1 -timeout 25m ./... ) > "$OUT" 2>&1
python3 - "$OUT" <<'PY'
import json,sys
base=json.load(open('/root/.vp/BASELINE.json'))
stable=set(base['stable_pass'])
res={}
for l in open(sys.argv[1]):
    try: e=json.loads(l)
    except Exception: continue
    if e.get('Test') and e.get('Action') in('pass','fail'):
        res[e['Package']+'::'+e['Test']]=e['Action']
missing=[t for t in sorted(stable) if res.get(t)!='pass']
extra_fail=[t for t,a in sorted(res.items()) if a=='fail' and t not in set(base['always_fail'])]
print('stable passing: %d/%d'%(len(stable)-len(missing),len(stable)))
for t in missing: print('  NOT PASSING:',t,res.get(t))
for t in extra_fail:
    if t not in missing: print('  NEW FAIL (not in baseline):',t)
sys.exit(1 if missing else 0)
PY
rc=$?
rm -f "$OUT"; rm -rf "$T"
exit $rc
