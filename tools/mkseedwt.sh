#!/bin/sh
# mkseedwt.sh <name>: create a scratch git worktree of /repo HEAD under /tmp/<name>
set -e
git -C /repo worktree add --detach "/tmp/$1" HEAD >/dev/null 2>&1
echo "/tmp/$1"
