#!/bin/sh
# try_refactors.sh [set]: apply each stored behaviour-preserving refactoring (refactors/<set>/r*.diff, made against
# the commit named in refactors/<set>/BASE) to a scratch worktree and list the alarms the checks raise that the
# unpatched BASE does not raise (BASE may predate later fix: commits): all are false alarms.
cd /verif
export GOFLAGS=-mod=mod GOPROXY=off GOSUMDB=off GOTOOLCHAIN=local GOWORK=off
alarms() {
  bin/cloverlint -property all -tier quick -repo "$1" -verif /verif -no-evidence 2>&1 | grep -E "^(VIOLATED|UNDECIDED|CHECKER)" | sed -E 's/^(VIOLATED|UNDECIDED) C[0-9]+: //' | sed -E 's/ at [^ ]+:[0-9]+:[0-9]+:.*//' | sort -u
}
for set in ${1:-a b c d e}; do
  base=$(cat refactors/$set/BASE)
  W=/tmp/vref-$$-base
  git -C /repo worktree add --detach "$W" "$base" >/dev/null 2>&1
  alarms "$W" > /tmp/vref-$$-base.txt
  git -C /repo worktree remove --force "$W" >/dev/null 2>&1; rm -rf "$W"
  for d in refactors/$set/r*.diff; do
    n=$set/$(basename $d .diff)
    W=/tmp/vref-$$-$(basename $d .diff)
    git -C /repo worktree add --detach "$W" "$base" >/dev/null 2>&1
    if (cd $W && git apply /verif/$d >/dev/null 2>&1) && (cd $W && go build ./... >/dev/null 2>&1); then
      # compare without the function component of the key (a refactoring may rename the function a base defect is in)
      sed -E 's#^([A-Z0-9]+)/.*/([^/]*)$#\1/*/\2#; s/ \#[0-9]+$//' /tmp/vref-$$-base.txt | sort -u > /tmp/vref-$$-basen.txt
      out=$(alarms "$W" | while IFS= read -r l; do n=$(printf '%s\n' "$l" | sed -E 's#^([A-Z0-9]+)/.*/([^/]*)$#\1/*/\2#; s/ \#[0-9]+$//'); grep -qxF -- "$n" /tmp/vref-$$-basen.txt || printf '%s\n' "$l"; done)
      if [ -z "$out" ]; then echo "$n: clean"; else echo "$n: FALSE ALARMS"; echo "$out" | cut -c1-260 | sed 's/^/    /'; fi
    else
      echo "$n: does not apply/build (skipped)"
    fi
    git -C /repo worktree remove --force "$W" >/dev/null 2>&1; rm -rf "$W"
  done
  rm -f /tmp/vref-$$-base.txt /tmp/vref-$$-basen.txt
done
