#!/bin/sh
# try_refactors.sh [set]: apply each stored behaviour-preserving refactoring (refactors/<set>/r*.diff, made against
# the commit named in refactors/<set>/BASE) to a scratch worktree and list the alarms the checks raise: all are false alarms.
cd /verif
export GOFLAGS=-mod=mod GOPROXY=off GOSUMDB=off GOTOOLCHAIN=local GOWORK=off
for set in ${1:-a b}; do
  base=$(cat refactors/$set/BASE)
  for d in refactors/$set/r*.diff; do
    n=$set/$(basename $d .diff)
    W=/tmp/vref-$$-$(basename $d .diff)
    git -C /repo worktree add --detach "$W" "$base" >/dev/null 2>&1
    if (cd $W && git apply /verif/$d >/dev/null 2>&1) && (cd $W && go build ./... >/dev/null 2>&1); then
      out=$(bin/cloverlint -property all -tier quick -repo "$W" -verif /verif -no-evidence 2>&1 | grep -E "^(VIOLATED|UNDECIDED|CHECKER)" | sed -E 's/^(VIOLATED|UNDECIDED) C[0-9]+: //' | sort -u)
      [ "$base" = b392ce1 ] && out=$(echo "$out" | grep -v "^PLAN8/")
      if [ -z "$out" ]; then echo "$n: clean"; else echo "$n: FALSE ALARMS"; echo "$out" | cut -c1-260 | sed 's/^/    /'; fi
    else
      echo "$n: does not apply/build (skipped)"
    fi
    git -C /repo worktree remove --force "$W" >/dev/null 2>&1; rm -rf "$W"
  done
done
