#!/bin/sh
# try_refactors.sh: apply each stored behaviour-preserving refactoring to a scratch worktree and list the alarms the checks raise (all are false alarms)
cd /verif
export GOFLAGS=-mod=mod GOPROXY=off GOSUMDB=off GOTOOLCHAIN=local GOWORK=off
for d in refactors/r*.diff; do
  n=$(basename $d .diff)
  W=/tmp/vref-$$-$n
  git -C /repo worktree add --detach "$W" "${REFACTOR_BASE:-b392ce1}" >/dev/null 2>&1
  if (cd $W && git apply --3way /verif/$d >/dev/null 2>&1 || git apply /verif/$d >/dev/null 2>&1) && (cd $W && go build ./... >/dev/null 2>&1); then
    out=$(bin/cloverlint -property all -tier quick -repo "$W" -verif /verif -no-evidence 2>&1 | grep -E "^(VIOLATED|UNDECIDED|CHECKER)" | sed -E 's/^(VIOLATED|UNDECIDED) C[0-9]+: //' | grep -v "^PLAN8/" | sort -u)
    if [ -z "$out" ]; then echo "$n: clean"; else echo "$n: FALSE ALARMS"; echo "$out" | cut -c1-260 | sed 's/^/    /'; fi
  else
    echo "$n: does not apply/build on the current tree (skipped)"
  fi
  git -C /repo worktree remove --force "$W" >/dev/null 2>&1; rm -rf "$W"
done
