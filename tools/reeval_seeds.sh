#!/bin/sh
# reeval_seeds.sh [jobs]: re-run every stored seeded change against the current checker (in parallel) and refresh meta.json
cd /verif
ls -d seeded/*/ | xargs -P "${1:-5}" -n 1 tools/reeval_one.sh | sort
