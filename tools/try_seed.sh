#!/bin/sh
# try_seed.sh <seed-dir containing patch.diff seed_demo_test.go meta.json> [keep]
# Confirms a seeded change in a fresh scratch worktree (builds, baseline passes, demo fails with / passes without)
# and reports which checks fire on it. Never touches /repo's working tree.
SEED=$(cd "$1" && pwd)
export GOFLAGS=-mod=mod GOPROXY=off GOSUMDB=off GOTOOLCHAIN=local GOWORK=off
W=/tmp/vseed-$$
# the commit the patch applies to: /repo HEAD, or - when later fix: commits rewrote the same lines and the
# seed could not be re-applied mechanically - the newest commit it still applies to (recorded as "base")
BASE=HEAD
if ! git -C /repo apply --check "$SEED/patch.diff" >/dev/null 2>&1; then
  for cmt in $(git -C /repo log --format=%h -n 60); do
    TW=/tmp/vseed-base-$$
    git -C /repo worktree add --detach "$TW" "$cmt" >/dev/null 2>&1
    if (cd "$TW" && git apply --check "$SEED/patch.diff" >/dev/null 2>&1); then BASE=$cmt; fi
    git -C /repo worktree remove --force "$TW" >/dev/null 2>&1; rm -rf "$TW"
    [ "$BASE" != HEAD ] && break
  done
  echo "base=$BASE (the patch no longer applies to HEAD)"
fi
git -C /repo worktree add --detach "$W" "$BASE" >/dev/null 2>&1 || { echo "cannot create worktree"; exit 2; }
T=$(mktemp -d /tmp/vseed-tmp.XXXXXX)
cleanup() { git -C /repo worktree remove --force "$W" >/dev/null 2>&1; rm -rf "$W" "$T" 2>/dev/null; }
trap cleanup EXIT
place=$(head -1 "$SEED/seed_demo_test.go" | sed -n 's,^// place in: *,,p' | awk '{print $1}' | tr -d '\r')
[ -z "$place" ] && place=.
case "$place" in "<root>"|"(root)"|root|/) place=.;; esac
[ -d "/repo/$place" ] || place=.
demo_name=$(grep -o 'func Test[A-Za-z0-9_]*' "$SEED/seed_demo_test.go" | head -1 | sed 's/func //')
echo "place=$place demo=$demo_name"
( cd "$W" && git apply "$SEED/patch.diff" ) || { echo "RESULT patch does not apply"; exit 1; }
( cd "$W" && go build ./... ) || { echo "RESULT patched tree does not build"; exit 1; }
/verif/tools/baseline.sh "$W" | tail -3
cp "$SEED/seed_demo_test.go" "$W/$place/seed_demo_test.go"
( cd "$W/$place" && TMPDIR="$T" go test -vet=off -count=1 -run "^${demo_name}\$" . >/tmp/vseed-with.$$ 2>&1 ); with=$?
( cd "$W" && git apply -R "$SEED/patch.diff" )
( cd "$W/$place" && TMPDIR="$T" go test -vet=off -count=1 -run "^${demo_name}\$" . >/tmp/vseed-without.$$ 2>&1 ); without=$?
echo "demo with patch: exit $with (expect !=0); without patch: exit $without (expect 0)"
[ $with -eq 0 ] && tail -5 /tmp/vseed-with.$$
[ $without -ne 0 ] && tail -15 /tmp/vseed-without.$$
rm -f /tmp/vseed-with.$$ /tmp/vseed-without.$$ "$W/$place/seed_demo_test.go"
( cd "$W" && git apply "$SEED/patch.diff" )
echo "--- checks on the patched tree:"
if [ "$BASE" = HEAD ]; then
  /verif/bin/cloverlint -property all -tier quick -repo "$W" -verif /verif -no-evidence 2>&1 | grep -E "^(VIOLATED|UNDECIDED|C[0-9]+ VIOLATED|CHECKER)" | sed "s,$W/,,g" | cut -c1-400
else
  # an older base lacks later fixes: report only what the unpatched base does not already raise
  /verif/bin/cloverlint -property all -tier quick -repo "$W" -verif /verif -no-evidence 2>&1 | grep -E "^(VIOLATED|UNDECIDED|CHECKER)" | sed "s,$W/,,g" | sed -E 's/ at [^ ]+:[0-9]+:[0-9]+:.*//' | sort -u > /tmp/vseed-p.$$
  ( cd "$W" && git apply -R "$SEED/patch.diff" )
  /verif/bin/cloverlint -property all -tier quick -repo "$W" -verif /verif -no-evidence 2>&1 | grep -E "^(VIOLATED|UNDECIDED|CHECKER)" | sed "s,$W/,,g" | sed -E 's/ at [^ ]+:[0-9]+:[0-9]+:.*//' | sort -u > /tmp/vseed-b.$$
  grep -vxF -f /tmp/vseed-b.$$ /tmp/vseed-p.$$ | sed 's,$,/ (on base),' | cut -c1-400
  rm -f /tmp/vseed-p.$$ /tmp/vseed-b.$$
fi
echo "--- end"
