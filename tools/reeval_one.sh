#!/bin/sh
# reeval_one.sh <seed-dir>: re-run one stored seeded change against the current checker and refresh its meta.json
cd /verif
d="$1"; n=$(basename "$d")
OUT=$(tools/try_seed.sh "$d" 2>&1)
python3 - "$d/meta.json" <<PY
import json,sys,re
out = """$OUT"""
m=json.load(open(sys.argv[1]))
caught=sorted(set(re.findall(r'^(?:VIOLATED|UNDECIDED) (C\d+): (\S+?)/', out, re.M)))
m.setdefault("confirmed_by_me",{})["checks_that_fire"]=[{"property":p,"rule":r} for p,r in caught]
dm=re.search(r'demo with patch.*', out); bl=re.search(r'stable passing: \S+', out)
if dm: m["confirmed_by_me"]["demo"]=dm.group(0)
if bl: m["confirmed_by_me"]["baseline"]=bl.group(0)
bs=re.search(r'^base=(\S+)', out, re.M)
if bs: m["confirmed_by_me"]["base"]=bs.group(1)+" (newest /repo commit the patch applies to: later fix: commits rewrote the same lines; the checks were run on that base with the patch, minus what they raise on the base alone)"
else: m["confirmed_by_me"].pop("base", None)
json.dump(m,open(sys.argv[1],'w'),indent=1)
own=m.get("property","?")
print("%-8s own=%s %s  caught by: %s  [%s | %s]"%("$n", own, "OWN-PROPERTY-FIRES" if any(p==own for p,_ in caught) else ("other-only" if caught else "MISSED"), ", ".join("%s/%s"%x for x in caught) or "-", dm.group(0)[:60] if dm else "no demo line", bl.group(0) if bl else "no baseline"))
PY
