#!/bin/sh
# rebase_seed.sh <name> [note]: re-apply a stored seed on /repo HEAD with a 3-way merge (after a fix: commit touched
# the same lines), regenerate patch.diff, and note it in meta.json. Reports CONFLICT when it needs a hand.
S=/verif/seeded/$1
W=/tmp/rb-$1
export GOFLAGS=-mod=mod GOPROXY=off GOSUMDB=off GOTOOLCHAIN=local GOWORK=off
git -C /repo worktree add --detach "$W" HEAD >/dev/null 2>&1
if (cd "$W" && git apply --3way "$S/patch.diff" >/dev/null 2>&1) && ! grep -rq '^<<<<<<< ' "$W" --include=*.go 2>/dev/null; then
  (cd "$W" && git diff HEAD > "$S/patch.diff.new")
  if (cd "$W" && go build ./... >/dev/null 2>&1); then
    mv "$S/patch.diff.new" "$S/patch.diff"
    python3 - "$S/meta.json" "$(git -C /repo log -1 --format=%h)" <<'PY'
import json,sys
m=json.load(open(sys.argv[1]))
m['rebased']=(m.get('rebased','')+" Re-applied (git apply --3way, no conflict) on /repo %s after fix: commits touched the same lines; confirmed again."%sys.argv[2]).strip()
json.dump(m,open(sys.argv[1],'w'),indent=1)
PY
    echo "$1: rebased"
  else
    rm -f "$S/patch.diff.new"; echo "$1: BUILD FAILS after 3-way"
  fi
else
  echo "$1: CONFLICT"
fi
git -C /repo worktree remove --force "$W" >/dev/null 2>&1; rm -rf "$W"
