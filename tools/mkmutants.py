#!/usr/bin/env python3
"""Generates the checker's self-test mutants as unified diffs against /repo's current tree.

Each mutant breaks exactly one rule instance. selftest.sh applies each diff to a scratch
copy of the *current* /repo, requires that the copy still builds, runs the named rule on it
and requires a violated/undecided obligation whose key contains `expect`.
A diff that no longer applies is reported as skipped, never as a failure of clover.
Reverts of the fix: commits are generated as mutants too (the defect must be reported again).
"""
import difflib, json, os, subprocess, sys

REPO = sys.argv[1] if len(sys.argv) > 1 else '/repo'
OUT = os.path.join(os.path.dirname(os.path.abspath(__file__)), '..', 'selftest', 'mutants')
os.makedirs(OUT, exist_ok=True)

M = []  # (name, rule, expect, [(file, old, new), ...])

def m(name, rule, expect, *edits):
    M.append((name, rule, expect, edits))

# ---- TX
m('tx1-no-rollback', 'TX1', 'DB.DeleteById/Begin', ('db.go', '''func (db *DB) DeleteById(collection string, id string) error {
	tx, err := db.store.Begin(true)
	if err != nil {
		return err
	}
	defer tx.Rollback()
''', '''func (db *DB) DeleteById(collection string, id string) error {
	tx, err := db.store.Begin(true)
	if err != nil {
		return err
	}
'''))
m('tx2-return-nil-instead-of-commit', 'TX2', 'DB.DropIndex/return nil', ('db.go', '''	if err := db.saveCollectionMetadata(collection, meta, txn); err != nil {
		return err
	}
	return txn.Commit()
}''', '''	if err := db.saveCollectionMetadata(collection, meta, txn); err != nil {
		return err
	}
	return nil
}'''))
m('tx2-commit-not-last', 'TX2', 'DB.DropIndex/commit-is-last', ('db.go', '''	if err := idx.Drop(); err != nil {
		return err
	}

	if err := db.saveCollectionMetadata(collection, meta, txn); err != nil {
		return err
	}
	return txn.Commit()''', '''	if err := idx.Drop(); err != nil {
		return err
	}

	if err := txn.Commit(); err != nil {
		return err
	}
	return db.saveCollectionMetadata(collection, meta, txn)'''))
m('tx3-two-transactions', 'TX3', 'DB.Save/write-transactions', ('db.go', '''	return db.ReplaceById(collectionName, doc.ObjectId(), doc)
}''', '''	if err := db.DeleteById(collectionName, doc.ObjectId()); err != nil {
		return err
	}
	return db.Insert(collectionName, doc)
}'''))
m('tx4-read-op-commits', 'TX4', 'DB.FindById', ('db.go', '''func (db *DB) FindById(collection string, id string) (*d.Document, error) {
	tx, err := db.store.Begin(false)''', '''func (db *DB) FindById(collection string, id string) (*d.Document, error) {
	tx, err := db.store.Begin(true)'''), ('db.go', '''	return getDocumentById(collection, id, tx)
}''', '''	doc, err := getDocumentById(collection, id, tx)
	if err == nil {
		if err = tx.Set([]byte("stat:lastRead"), []byte(id)); err == nil {
			err = tx.Commit()
		}
	}
	return doc, err
}'''))
# ---- ERR
m('err1-dropped-metadata-write', 'ERR1', 'DB.createIndex/DB.saveCollectionMetadata', ('db.go', '''	if err := db.saveCollectionMetadata(collection, meta, tx); err != nil {
		return err
	}

	return tx.Commit()
}''', '''	db.saveCollectionMetadata(collection, meta, tx)

	return tx.Commit()
}'''))
m('err2-item-error-swallowed', 'ERR2', 'iteratePrefix', ('db.go', '''		item, err := cursor.Item()
		if err != nil {
			return err
		}

		if !bytes.HasPrefix(item.Key, prefix) {''', '''		item, err := cursor.Item()
		if err != nil {
			return nil
		}

		if !bytes.HasPrefix(item.Key, prefix) {'''))
m('err3-stop-not-translated', 'ERR3', 'index.rangeIndex.Iterate/', ('index/range_index.go', '''		_, docId := extractDocId(key)
		if err := onValue(string(docId)); err != nil {
			if errors.Is(err, internal.ErrStopIteration) {
				return nil
			}
			return err
		}''', '''		_, docId := extractDocId(key)
		if err := onValue(string(docId)); err != nil {
			return err
		}'''))
m('err3-error-continues-loop', 'ERR3', 'sortNode.Finish/', ('plan.go', '''			if err := nd.CallNext(doc); err != nil {
				if errors.Is(err, internal.ErrStopIteration) {
					return nil
				}
				return err
			}''', '''			if err := nd.CallNext(doc); err != nil {
				if errors.Is(err, internal.ErrStopIteration) {
					return nil
				}
				continue
			}'''))
# ---- KEY
m('key2-catalog-prefix-collides', 'KEY2', 'bound', ('db.go', '''	return "coll:"
}''', '''	return "c:"
}'''))
m('key3-reader-uses-other-layout', 'KEY3', 'read-is-written', ('db.go', '''	value, err := tx.Get([]byte(getDocumentKey(collectionName, id)))
	if value == nil || err != nil {''', '''	value, err := tx.Get([]byte("c:" + collectionName + ";doc:" + id))
	if value == nil || err != nil {'''))
m('key4-rank-from-other-value', 'KEY4', 'index.rangeIndex', ('index/range_index.go', '''	prefix := idx.getKeyPrefixForType(internal.TypeId(v))
	return internal.OrderedCode(prefix, v)''', '''	prefix := idx.getKeyPrefixForType(internal.TypeId(idx.field))
	return internal.OrderedCode(prefix, v)'''))
m('key1-doc-prefix-unterminated', 'KEY1', 'iteratePrefix', ('plan.go', '''	prefix := []byte(getDocumentKeyPrefix(nd.collection))''', '''	prefix := []byte("c:" + nd.collection)'''))
# ---- VIS / NIL / OPS / PANIC
m('vis1-wrong-result-type', 'VIS1', 'IndexSelectVisitor.VisitUnaryCriteria', ('visit.go', '''	if info != nil {
		return []*index.Info{info}
	}
	return []*index.Info{}''', '''	if info != nil {
		return []*index.Info{info}
	}
	return []index.Info{}'''))
m('nil1-deref-before-check', 'NIL1', 'DB.getCollectionSize/DB.getCollectionMeta', ('db.go', '''	meta, err := db.getCollectionMeta(collection, tx)
	if err != nil {
		return -1, err
	}
	return meta.Size, nil''', '''	meta, err := db.getCollectionMeta(collection, tx)
	return meta.Size, err'''))
m('ops1-unhandled-operator', 'OPS1', 'op NeqOp/handled', ('query/criteria.go', '''func (f *field) Neq(value interface{}) Criteria {
	return f.Eq(value).Not()
}''', '''func (f *field) Neq(value interface{}) Criteria {
	return newCriteria(NeqOp, f.name, value)
}'''))
m('ops2-builder-type-mismatch', 'OPS2', 'op LikeOp', ('query/criteria.go', '''	return newCriteria(LikeOp, f.name, pattern)''', '''	return newCriteria(LikeOp, f.name, []byte(pattern))'''))
m('ops3-neq-not-eq', 'OPS3', 'field.Neq', ('query/criteria.go', '''	return f.Eq(value).Not()''', '''	return f.Gt(value).Not()'''))
m('panic1-new-panic', 'PANIC1', 'index.CreateIndex/panic', ('index/index.go', '''			tx:        tx,
		}
	}
	return nil
}''', '''			tx:        tx,
		}
	}
	panic("unknown index type")
}'''))
m('ops4-and-evaluated-as-or', 'OPS4', 'And(', ('query/criteria.go', '''	if c.OpType == LogicalAnd {
		return c.C1.Satisfy(doc) && c.C2.Satisfy(doc)
	}''', '''	if c.OpType == LogicalAnd {
		return c.C1.Satisfy(doc) || c.C2.Satisfy(doc)
	}'''))
m('ops4-gt-includes-equal', 'OPS4', 'GtOp with compare = 0', ('query/criteria.go', '''	case GtOp:
		return res > 0''', '''	case GtOp:
		return res >= 0'''))
m('ops4-not-identity', 'OPS4', 'Not(', ('query/criteria.go', '''	return !c.C.Satisfy(doc)''', '''	return c.C.Satisfy(doc)'''))
m('ops4-or-builder-builds-and', 'OPS4', 'builder or', ('query/criteria.go', '''func or(c1, c2 Criteria) Criteria {
	return &BinaryCriteria{
		OpType: LogicalOr,''', '''func or(c1, c2 Criteria) Criteria {
	return &BinaryCriteria{
		OpType: LogicalAnd,'''))
m('sort1-absent-after-present', 'SORT1', 'one sort option', ('plan.go', '''		res := internal.Compare(first.Get(opt.Field), second.Get(opt.Field))
		if res != 0 {''', '''		res := internal.Compare(first.Get(opt.Field), second.Get(opt.Field))
		if !first.Has(opt.Field) && second.Has(opt.Field) {
			return opt.Direction
		}
		if res != 0 {'''))
m('sort1-second-key-ignores-direction', 'SORT1', 'sort option', ('plan.go', '''		if res != 0 {
			return res * opt.Direction
		}''', '''		if res != 0 {
			return res
		}'''))
m('sort2-zero-is-descending', 'SORT2', 'direction 0', ('query/query.go', '''		if opt.Direction >= 0 {''', '''		if opt.Direction > 0 {'''))
m('win1-limit-off-by-one', 'WIN1', 'Callback', ('plan.go', '''	if nd.limit < 0 || (nd.limit >= 0 && nd.consumed < nd.limit) {
		nd.consumed++
		return nd.CallNext(doc)
	}
	return internal.ErrStopIteration''', '''	if nd.limit < 0 || (nd.limit >= 0 && nd.consumed < nd.limit) {
		nd.consumed++
		return nd.CallNext(doc)
	}
	nd.consumed++
	return nd.CallNext(doc)'''))
m('win1-skipped-document-forwarded', 'WIN1', 'Callback', ('plan.go', '''	if nd.skipped < nd.skip {
		nd.skipped++
		return nil
	}''', '''	if nd.skipped < nd.skip {
		nd.skipped++
		return nd.CallNext(doc)
	}'''))
# ---- IDX / ID
m('idx1-save-without-index-add', 'IDX1', 'DB.UpdateById/save', ('db.go', '''	if err := db.addDocToIndexes(tx, indexes, updatedDoc); err != nil {
		return err
	}

	if err := saveDocument(updatedDoc, []byte(docKey), tx); err != nil {''', '''	if err := saveDocument(updatedDoc, []byte(docKey), tx); err != nil {'''))
m('idx1-delete-without-index-remove', 'IDX1', 'DB.DeleteById/delete', ('db.go', '''	if err := db.getDocAndDeleteFromIndexes(tx, indexes, collection, id); err != nil {
		return err
	}

''', '''	_ = indexes

'''))
m('idx2-updater-before-old-entries', 'IDX2', 'DB.UpdateById/', ('db.go', '''	if err := db.deleteDocFromIndexes(indexes, doc); err != nil {
		return err
	}

	updatedDoc := updater(doc)
''', '''	updatedDoc := updater(doc)
	if err := db.deleteDocFromIndexes(indexes, doc); err != nil {
		return err
	}

'''))
m('idx3-counter-without-writeback', 'IDX3', 'DB.DeleteById/Size', ('db.go', '''	meta.Size--
	if err := db.saveCollectionMetadata(collection, meta, tx); err != nil {
		return err
	}
	return tx.Commit()''', '''	meta.Size--
	return tx.Commit()'''))
m('idx5-drop-collection-keeps-documents', 'IDX5', 'DB.DropCollection/bulk delete', ('db.go', '''	if err := db.deleteAll(tx, name); err != nil {
		return err
	}

	if err := tx.Delete([]byte(getCollectionKey(name))); err != nil {''', '''	if ok, err := db.hasCollection(name, tx); err != nil || !ok {
		return ErrCollectionNotExist
	}

	if err := tx.Delete([]byte(getCollectionKey(name))); err != nil {'''))
m('id2-no-duplicate-probe', 'ID2', 'DB.insertDocs/probe', ('db.go', '''		if value != nil {
			return ErrDuplicateKey
		}
''', '''		_ = value
'''))
m('id2-no-validate', 'ID2', 'saveDocument/validate', ('db.go', '''	if err := d.Validate(doc); err != nil {
		return err
	}

	data, err := d.Encode(doc)''', '''	data, err := d.Encode(doc)'''))
m('id3-id-overwritten', 'ID3', 'DB.insertDocs/assign _id', ('db.go', '''		if !doc.Has(d.ObjectIdField) || doc.Get(d.ObjectIdField) == "" {
			objectId := NewObjectId()''', '''		if !doc.Has(d.ObjectIdField) || doc.Get(d.ObjectIdField) == "" || len(docs) > 64 {
			objectId := NewObjectId()'''))
# ---- PLAN
m('plan1-index-path-unfiltered', 'PLAN1', 'iterNode.iterateIndex$1/emit', ('plan.go', '''		if nd.filter == nil || nd.filter.Satisfy(doc) {
			return nd.CallNext(doc)
		}
		return nil
	}

	err := nd.idxQuery.Run(iterFunc)''', '''		return nd.CallNext(doc)
	}

	err := nd.idxQuery.Run(iterFunc)'''))
m('plan1-node-without-filter', 'PLAN1', 'tryToSelectIndex/new iterNode', ('plan.go', '''		return &iterNode{
			idxQuery:   idxQuery,
			filter:     q.Criteria(),
			collection: q.Collection(),
		}, outputSorted''', '''		return &iterNode{
			idxQuery:   idxQuery,
			collection: q.Collection(),
		}, outputSorted'''))
m('plan4-window-before-sort', 'PLAN4', 'buildQueryPlan/SetNext', ('plan.go', '''	if len(q.SortOptions()) > 0 && !isOutputSorted {
		nd := &sortNode{opts: q.SortOptions()}
		prevNode.SetNext(nd)
		prevNode = nd
	}

	//log.Println("output sorted: ", len(q.SortOptions()) > 0 && !isOutputSorted)

	if q.GetSkip() > 0 || q.GetLimit() >= 0 {
		nd := &skipLimitNode{skipped: 0, consumed: 0, skip: q.GetSkip(), limit: q.GetLimit()}
		prevNode.SetNext(nd)
		prevNode = nd
	}
''', '''	if q.GetSkip() > 0 || q.GetLimit() >= 0 {
		nd := &skipLimitNode{skipped: 0, consumed: 0, skip: q.GetSkip(), limit: q.GetLimit()}
		prevNode.SetNext(nd)
		prevNode = nd
	}

	if len(q.SortOptions()) > 0 && !isOutputSorted {
		nd := &sortNode{opts: q.SortOptions()}
		prevNode.SetNext(nd)
		prevNode = nd
	}
'''))
m('plan5-options-not-normalised', 'PLAN5', 'query.Query.Sort/sortOpts', ('query/query.go', '''	} else {
		opts = normalizeSortOptions(opts)
	}
''', '''	}
'''))
m('plan6-range-row-too-narrow', 'PLAN6', 'unaryCriteriaToRange/row LtEqOp', ('visit.go', '''	case query.LtEqOp:
		return &index.Range{
			Start:         nil,
			End:           c.Value,
			StartIncluded: false,
			EndIncluded:   true,
		}''', '''	case query.LtEqOp:
		return &index.Range{
			Start:         nil,
			End:           c.Value,
			StartIncluded: false,
			EndIncluded:   false,
		}'''))
m('plan6-wrong-complement', 'PLAN6', 'removeNotCriteria/row LtOp', ('visit.go', '''	case query.LtOp:
		return &query.UnaryCriteria{
			OpType: query.GtEqOp,''', '''	case query.LtOp:
		return &query.UnaryCriteria{
			OpType: query.GtOp,'''))
# ---- CMP / COD / ADP
m('cmp1-rank-table-swapped', 'CMP1', 'order', ('internal/compare.go', '''	"map":    3,
	"slice":  4,''', '''	"map":    4,
	"slice":  3,'''))
m('cmp3-missing-slice-case', 'CMP3', 'Compare([]interface{}, []interface{})', ('internal/compare.go', '''	v1Slice, isSlice := v1.([]interface{})
	if isSlice {
		return compareSlices(v1Slice, v2.([]interface{}))
	}

''', ''''''))
m('cmp5-non-canonical-int', 'CMP5', 'kind Int', ('internal/encoding.go', '''		return rValue.Int(), nil''', '''		return int(rValue.Int()), nil'''))
m('cmp5-set-mutates-on-error', 'CMP5', 'Document.Set', ('document/document.go', '''	normalizedValue, err := internal.Normalize(value)
	if err == nil {
		if doc.fields == nil { // the zero Document is an empty document
			doc.fields = make(map[string]interface{})
		}
		m, _, fieldName := lookupField(name, doc.fields, true)
		m[fieldName] = normalizedValue
	}''', '''	normalizedValue, err := internal.Normalize(value)
	if doc.fields == nil { // the zero Document is an empty document
		doc.fields = make(map[string]interface{})
	}
	m, _, fieldName := lookupField(name, doc.fields, true)
	if err == nil {
		m[fieldName] = normalizedValue
	}'''))
m('cod2-compact-ints', 'COD2', 'internal.Encode', ('internal/encoding.go', '''func Encode(v map[string]interface{}) ([]byte, error) {
	return msgpack.Marshal(replaceTimes(v))
}''', '''func Encode(v map[string]interface{}) ([]byte, error) {
	enc := msgpack.GetEncoder()
	defer msgpack.PutEncoder(enc)
	var buf strings.Builder
	enc.Reset(&buf)
	enc.UseCompactInts(true)
	err := enc.Encode(replaceTimes(v))
	return []byte(buf.String()), err
}'''))
m('adp1-not-found-is-error', 'ADP1', 'store/badger.badgerTx.Get', ('store/badger/badger.go', '''	item, err := tx.Txn.Get(key)
	if errors.Is(err, badger.ErrKeyNotFound) {
		return nil, nil
	}

	if err != nil {''', '''	item, err := tx.Txn.Get(key)
	if err != nil {'''))
m('adp3-backend-call-outside-adapter', 'ADP3', 'index.rangeIndex.Iterate', ('index/range_index.go', '''	opts := badger.DefaultIteratorOptions
	opts.Reverse = reverse
''', '''	opts := badger.DefaultOptions("").WithInMemory(reverse)
	_ = opts
'''))
# ---- IMM / GUARD
m('imm1-builder-mutates-receiver', 'IMM1', 'query.Query.Limit', ('query/query.go', '''	newQuery := q.copy()
	newQuery.limit = n
	return newQuery''', '''	q.limit = n
	return q'''))
m('imm2-global-cache', 'IMM2', 'global', ('db.go', '''	m := &collectionMetadata{}
	err = json.Unmarshal(value, m)
	return m, err
}''', '''	m := &collectionMetadata{}
	err = json.Unmarshal(value, m)
	metaCache[collection] = m
	return m, err
}

var metaCache = map[string]*collectionMetadata{}'''))
m('imm2-handle-field-written', 'IMM2', 'store DB', ('db.go', '''func (db *DB) Close() error {
	if atomic.CompareAndSwapUint32(&db.closed, 0, 1) {
		return db.store.Close()
	}
	return nil
}''', '''func (db *DB) Close() error {
	if atomic.CompareAndSwapUint32(&db.closed, 0, 1) {
		s := db.store
		db.store = nil
		return s.Close()
	}
	return nil
}'''))
m('guard1-no-catalog-lookup', 'GUARD1', 'DB.FindById', ('db.go', '''	ok, err := db.hasCollection(collection, tx)
	if err != nil {
		return nil, err
	}

	if !ok {
		return nil, ErrCollectionNotExist
	}

	return getDocumentById(collection, id, tx)''', '''	return getDocumentById(collection, id, tx)'''))

# ---- rules added in the second half of the build (one mutant each at least)
m('rng4-far-bound-inclusive-dropped', 'RNG4', 'stop condition', ('index/range_index.go',
  '''(endCmp > 0 || (endCmp == 0 && !vRange.EndIncluded))''', '''(endCmp >= 0)'''))
m('rng4-reverse-uses-wrong-flag', 'RNG4', 'stop condition', ('index/range_index.go',
  '''(startCmp < 0 || (startCmp == 0 && !vRange.StartIncluded))''', '''(startCmp < 0 || (startCmp == 0 && !vRange.EndIncluded))'''))
m('rng4-near-bound-skip-removed', 'RNG4', 'stop condition', ('index/range_index.go',
  '''		if vRange.Start != nil && !vRange.StartIncluded { // skip all values equals to range.start''', '''		if false && vRange.Start != nil && !vRange.StartIncluded { // skip all values equals to range.start'''))
m('rng3-isempty-too-eager', 'RNG3', 'Range.', ('index/range.go',
  '''	return (res > 0) || (res == 0 && !r.StartIncluded && !r.EndIncluded)''', '''	return (res > 0) || (res == 0 && !(r.StartIncluded && r.EndIncluded))'''))
m('rng3-intersect-drops-shared-start', 'RNG3', 'Range.Intersect', ('index/range.go',
  '''		intersection.StartIncluded = intersection.StartIncluded && r2.StartIncluded''', '''		intersection.StartIncluded = false'''))
m('win2-skip-off-by-one', 'WIN2', 'window', ('plan.go',
  '''	if nd.skipped < nd.skip {''', '''	if nd.skipped <= nd.skip {'''))
m('sort3-keep-first-only', 'SORT3', 'buffers every document', ('plan.go',
  '''	nd.docs = append(nd.docs, doc)
	return nil''', '''	if len(nd.docs) == 0 || len(nd.opts) > 1 {
		nd.docs = append(nd.docs, doc)
	}
	return nil'''))
m('plan10-findfirst-point-lookup', 'PLAN10', 'DB.FindFirst', ('db.go',
  '''func (db *DB) FindFirst(q *query.Query) (*d.Document, error) {
''', '''func (db *DB) FindFirst(q *query.Query) (*d.Document, error) {
	if u, ok := q.Criteria().(*query.UnaryCriteria); ok && u.Field == d.ObjectIdField {
		if id, isString := u.Value.(string); isString {
			return db.FindById(q.Collection(), id)
		}
	}
'''))
m('err4-success-before-error-test', 'ERR4', 'DB.DeleteById', ('db.go',
  '''	value, err := tx.Get(docKey)
	if err != nil {
		return err
	}

	if value == nil { // no such document: nothing to delete
		return nil
	}
''', '''	value, err := tx.Get(docKey)
	if value == nil { // no such document: nothing to delete
		return nil
	}

	if err != nil {
		return err
	}
'''))
m('adp9-no-last-on-overrun', 'ADP9', 'boltCursor.Seek', ('store/bbolt/bbolt.go',
  '''	if key == nil {
		key, value := c.Cursor.Last()''', '''	if key == nil && len(seek) == 0 {
		key, value := c.Cursor.Last()'''))
m('adp10-empty-target-forwarded', 'ADP10', 'empty target', ('store/badger/badger.go',
  '''	cursor.exhausted = cursor.reverse && len(key) == 0
	if !cursor.exhausted {
		cursor.it.Seek(key)
	}''', '''	cursor.exhausted = false
	cursor.it.Seek(key)'''))
m('key7-decode-by-last-separator', 'KEY7', 'DB.ListCollections', ('db.go',
  '''		collectionName := string(bytes.TrimPrefix(item.Key, prefix))''', '''		collectionName := string(item.Key[bytes.LastIndexByte(item.Key, ':')+1:])'''))
m('key8-raw-string-in-index-key', 'KEY8', 'value part', ('index/range_index.go',
  '''func (idx *rangeIndex) getKey(v interface{}) ([]byte, error) {
''', '''func (idx *rangeIndex) getKey(v interface{}) ([]byte, error) {
	if s, isString := v.(string); isString && len(s) < 8 {
		return append(idx.getKeyPrefixForType(internal.TypeId(v)), s...), nil
	}
'''))
m('ovf1-skip-plus-limit', 'OVF1', 'skipLimitNode.Callback', ('plan.go',
  '''	if nd.limit < 0 || (nd.limit >= 0 && nd.consumed < nd.limit) {''', '''	if nd.limit < 0 || (nd.limit >= 0 && nd.skipped+nd.consumed < nd.skip+nd.limit) {'''))
m('id4-accept-by-length', 'ID4', 'isValidObjectId', ('document/document.go',
  '''	objectId, err := uuid.FromString(id)''', '''	if len(id) == 36 && id[8] == '-' {
		return true
	}
	objectId, err := uuid.FromString(id)'''))
m('write1-skip-unchanged', 'WRITE1', 'DB.UpdateById', ('db.go',
  '''	if err := saveDocument(updatedDoc, []byte(docKey), tx); err != nil {
		return err
	}

	// see replaceDocs''', '''	if updatedDoc != doc {
		if err := saveDocument(updatedDoc, []byte(docKey), tx); err != nil {
			return err
		}
	}

	// see replaceDocs'''))
m('norm2-operator-rewritten', 'NORM2', 'VisitUnaryCriteria', ('visit.go',
  '''	return &query.UnaryCriteria{
		Field:  c.Field,
		OpType: c.OpType,
		Value:  normValue,
	}''', '''	op := c.OpType
	if op == query.GtEqOp && normValue == nil {
		op = query.EqOp
	}
	return &query.UnaryCriteria{
		Field:  c.Field,
		OpType: op,
		Value:  normValue,
	}'''))

m('nil3-import-null-element', 'NIL3', 'DB.ImportCollection', ('json.go',
  '''		if doc == nil { // a null element
			return errors.New("invalid document: null")
		}
''', ''''''))
m('key11-second-unixnano-site', 'KEY11', 'time key from UnixNano #2', ('internal/code.go',
   """	actualVal := getEncodeValue(value)
	if includeType {""", """	actualVal := getEncodeValue(value)
	if t, isTime := value.(time.Time); isTime {
		actualVal = uint64(t.UnixNano() / 1000) // microseconds are enough
	}
	if includeType {"""))
m('cod4-second-json-site', 'COD4', 'document values re-encoded through encoding/json #2', ('internal/encoding.go',
   """	if renamed, isMap := renameValue(m, rv.Type()).(map[string]interface{}); isMap {
		return renamed
	}
	return m""", """	if renamed, isMap := renameValue(m, rv.Type()).(map[string]interface{}); isMap {
		return renamed
	}
	if b, err := json.Marshal(m); err == nil { // deep copy
		var c map[string]interface{}
		if json.Unmarshal(b, &c) == nil {
			return c
		}
	}
	return m"""))
m('guard2-create-before-probe', 'GUARD2', 'DB.CreateCollectionByQuery', ('db.go',
  '''	if !ok {
		return ErrCollectionNotExist
	}

	if err := db.createCollection(tx, name); err != nil {
		return err
	}

	docs := make([]*d.Document, 0)''', '''	_ = ok

	if err := db.createCollection(tx, name); err != nil {
		return err
	}

	docs := make([]*d.Document, 0)'''))
FULL = {'key11-second-unixnano-site': 'C10', 'cod4-second-json-site': 'C18'}
# ---- round i / audit rules
m('imm4-store-into-operand', 'IMM4', 'normalizeOperand/writes into the criteria', ('visit.go', '''			normValues = append(normValues, normElem)
		}
		return normValues, nil''', '''			values[len(normValues)] = normElem
			normValues = append(normValues, normElem)
		}
		return normValues, nil'''))
m('empty4-nil-map-copy', 'EMPTY4', 'CopyMap/copy of a container is not nil', ('util/map.go', '''	mapCopy := make(map[string]interface{}, len(m))
	for k, v := range m {''', '''	var mapCopy map[string]interface{}
	if len(m) > 0 {
		mapCopy = make(map[string]interface{}, len(m))
	}
	for k, v := range m {'''))
m('term1-no-fresh-seek', 'TERM1', 'boltCursor.prev/the retries of Cursor.Prev end', ('store/bbolt/bbolt.go', '''	c.Cursor.Seek(from)
	for key == nil {''', '''	for key == nil {'''))
m('cmp14-reader-keeps-deeper-entry', 'CMP14', 'renameFields/a field that takes a name removes', ('internal/encoding.go', '''		depths[renameTo] = depth
		delete(renamed, renameTo)
''', '''		depths[renameTo] = depth
'''))
m('alias3-empty-object-shared', 'ALIAS3', 'copyValue/value handed to the copy as it is', ('util/map.go', '''	case map[string]interface{}:
		return CopyMap(value)''', '''	case map[string]interface{}:
		if len(value) == 0 {
			return value
		}
		return CopyMap(value)'''))
m('nil7-setall-direct-store', 'NIL7', 'Document.Set/field fields exists', ('document/document.go', '''		if doc.fields == nil { // the zero Document is an empty document
			doc.fields = make(map[string]interface{})
		}
''', ''''''))

# reverts of the fix: commits (rule and expected key from known_findings.json)
ff = json.load(open(os.path.join(os.path.dirname(os.path.abspath(__file__)), '..', 'known_findings.json')))

manifest = []
for name, rule, expect, edits in M:
    files = {}
    ok = True
    for f, old, new in edits:
        path = os.path.join(REPO, f)
        src = files.get(f) or open(path).read()
        if old not in src or (old == '' ):
            print('SKIP (pattern not found):', name, f)
            ok = False
            break
        files[f] = src.replace(old, new, 1)
    if not ok:
        continue
    diff = ''
    for f, newsrc in files.items():
        a = open(os.path.join(REPO, f)).read().splitlines(keepends=True)
        b = newsrc.splitlines(keepends=True)
        diff += ''.join(difflib.unified_diff(a, b, 'a/' + f, 'b/' + f))
    open(os.path.join(OUT, name + '.diff'), 'w').write(diff)
    e = {'name': name, 'rule': rule, 'expect': expect, 'kind': 'edit'}
    if name in FULL:
        # run the whole property check as well: it must print a VIOLATION line for this construct although
        # known_findings.json lists another construct of the same rule as a known finding
        e['full_property'] = FULL[name]
    manifest.append(e)

seen_reverts = {}
for f in ff['findings']:
    if f.get('status') != 'fixed' or not f.get('commit'):
        continue
    name = 'revert-' + f['commit']
    if name in seen_reverts:
        seen_reverts[name] += 1
        name = '%s-%d' % (name, seen_reverts[name])
    else:
        seen_reverts[name] = 1
    try:
        diff = subprocess.check_output(['git', '-C', REPO, 'show', '--format=', f['commit']]).decode()
    except subprocess.CalledProcessError:
        print('SKIP (no commit):', name)
        continue
    open(os.path.join(OUT, name + '.diff'), 'w').write(diff)
    manifest.append({'name': name, 'rule': f['rule'], 'expect': f['key'][len(f['rule']) + 1:], 'kind': 'revert', 'reverse': True, 'what': f['what'][:90]})

# the seeded changes written by independent sub-agents (see /verif/seeded): each must be
# reported by a rule serving the property it was written to break
import glob, shutil
seeded = os.path.join(os.path.dirname(os.path.abspath(__file__)), '..', 'seeded')
for d in sorted(glob.glob(os.path.join(seeded, '*'))):
    try:
        meta = json.load(open(os.path.join(d, 'meta.json')))
    except Exception:
        continue
    own = meta.get('property')
    rules = [c['rule'] for c in meta.get('confirmed_by_me', {}).get('checks_that_fire', []) if c['property'] == own]
    if not rules:
        continue
    name = 'seed-' + os.path.basename(d)
    shutil.copy(os.path.join(d, 'patch.diff'), os.path.join(OUT, name + '.diff'))
    manifest.append({'name': name, 'rule': rules[0], 'expect': '', 'kind': 'seeded', 'property': own})

json.dump(manifest, open(os.path.join(OUT, 'MUTANTS.json'), 'w'), indent=1)
print(len(manifest), 'mutants written to', os.path.normpath(OUT))
