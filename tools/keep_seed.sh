#!/bin/sh
# keep_seed.sh <worktree> <name>: confirm a sub-agent's seeded change, store it under /verif/seeded/<name>/ and remove the worktree
WT="$1"; NAME="$2"
D=/verif/seeded/$NAME
mkdir -p "$D"
cp "$WT/SEED/patch.diff" "$WT/SEED/seed_demo_test.go" "$D/"
OUT=$(/verif/tools/try_seed.sh "$D" 2>&1)
echo "$OUT" | grep -E "stable passing|demo with|RESULT" 
python3 - "$WT/SEED/meta.json" "$D/meta.json" "$NAME" <<PY
import json,sys,re
out = """$OUT"""
try: meta=json.load(open(sys.argv[1]))
except Exception as e: meta={"summary":"(meta.json of the sub-agent unreadable: %s)"%e}
caught=sorted(set(re.findall(r'^(?:VIOLATED|UNDECIDED) (C\d+): (\S+?)/', out, re.M)))
meta["confirmed_by_me"]={
 "ran":"tools/try_seed.sh: fresh scratch worktree of /repo HEAD; git apply patch.diff; go build ./...; tools/baseline.sh (84 stable tests); demo test with the patch (must fail) and with the patch reverted (must pass); cloverlint -property all on the patched tree",
 "baseline": (re.search(r'stable passing: \S+', out) or [None])[0] if re.search(r'stable passing: \S+', out) else None,
 "demo": (re.search(r'demo with patch.*', out) or [None])[0] if re.search(r'demo with patch.*', out) else None,
 "checks_that_fire": [{"property":p,"rule":r} for p,r in caught],
}
meta["name"]=sys.argv[3]
json.dump(meta,open(sys.argv[2],'w'),indent=1)
print("caught by:", ", ".join("%s/%s"%(p,r) for p,r in caught) or "NOTHING")
PY
git -C /repo worktree remove --force "$WT" 2>/dev/null; rm -rf "$WT"
