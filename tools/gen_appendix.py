#!/usr/bin/env python3
"""Regenerates Appendix D of DESIGN.md (between the APPENDIX-D markers) from seeded/*/meta.json and refactors/index.json."""
import glob, json, os, re
root = os.path.join(os.path.dirname(os.path.abspath(__file__)), '..')
rows = []
for d in sorted(glob.glob(os.path.join(root, 'seeded', '*'))):
    try:
        m = json.load(open(os.path.join(d, 'meta.json')))
    except Exception:
        continue
    own = m.get('property', '?')
    fired = m.get('confirmed_by_me', {}).get('checks_that_fire', [])
    ownrules = sorted({c['rule'] for c in fired if c['property'] == own})
    others = sorted({c['property'] + '/' + c['rule'] for c in fired if c['property'] != own})
    summ = re.sub(r'\s+', ' ', (m.get('summary') or '')).strip()
    if len(summ) > 230:
        summ = summ[:227] + '...'
    needs = re.sub(r'\s+', ' ', (m.get('needs_to_manifest') or '')).strip()
    if len(needs) > 150:
        needs = needs[:147] + '...'
    verdict = ', '.join(ownrules) if ownrules else ('**missed**' + (' (others: ' + ', '.join(others) + ')' if others else ''))
    rows.append('| %s | %s | %s | %s | %s |' % (os.path.basename(d), own, summ.replace('|', '/'), needs.replace('|', '/'), verdict + ((' (also ' + ', '.join(others[:6]) + ')') if ownrules and others else '')))
out = []
out.append('| seed | property | change (written by a sub-agent that saw only the property text) | needs to manifest | reported by (own property) |')
out.append('|---|---|---|---|---|')
out += rows
n = len(rows)
miss = sum(1 for r in rows if '**missed**' in r)
out.append('')
out.append('%d seeded changes kept (each confirmed in a scratch worktree: builds, the 84 stable tests pass, the demonstration fails with the change and passes without it); %d reported by a rule serving the property they were written against, %d missed.' % (n, n - miss, miss))
out.append('')
out.append('Behaviour-preserving refactorings (written by sub-agents told only to keep behaviour identical; `tools/try_refactors.sh` applies each to a scratch worktree of the commit it was written against and lists alarms, all of which would be false). All of them are clean with the current checker:')
out.append('')
for setname in ('a', 'b', 'c', 'd', 'e'):
    try:
        idx = json.load(open(os.path.join(root, 'refactors', setname, 'index.json')))
    except Exception:
        continue
    for e in idx if isinstance(idx, list) else idx.get('refactorings', []):
        out.append('* `%s/%s` (%s): %s' % (setname, e.get('id'), e.get('kind', ''), re.sub(r'\s+', ' ', e.get('summary', ''))[:240]))
text = '\n'.join(out)
p = os.path.join(root, 'DESIGN.md')
s = open(p).read()
a, b = '<!-- APPENDIX-D-BEGIN -->', '<!-- APPENDIX-D-END -->'
if a in s:
    s = s[:s.index(a) + len(a)] + '\n' + text + '\n' + s[s.index(b):]
    open(p, 'w').write(s)
    print('appendix D regenerated:', n, 'seeds')
else:
    print('markers not found')
