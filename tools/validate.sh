#!/bin/sh
# validate MANIFEST.json and every evidence file against the schemas
cd "$(dirname "$0")/.." || exit 2
python3-vt - <<'PY'
import json,jsonschema,glob,sys
ok=True
try:
    jsonschema.validate(json.load(open('MANIFEST.json')), json.load(open('/root/.vp/MANIFEST.schema.json')))
except Exception as e:
    ok=False; print('MANIFEST invalid:',e)
es=json.load(open('/root/.vp/EVIDENCE.schema.json'))
for f in sorted(glob.glob('evidence/C*.json')):
    try: jsonschema.validate(json.load(open(f)), es)
    except Exception as e:
        ok=False; print(f,'invalid:',str(e)[:300])
m=json.load(open('MANIFEST.json'))
claimed={c['property_id'] for c in m['checks']}
na={c['property_id'] for c in m.get('not_applicable',[])}
allp={json.loads(l)['id'] for l in open('properties.jsonl')}
if claimed|na!=allp or claimed&na: ok=False; print('claimed/not_applicable do not partition the properties', sorted(allp-claimed-na), sorted(claimed&na))
print('valid' if ok else 'INVALID'); sys.exit(0 if ok else 1)
PY
