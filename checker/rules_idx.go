package main

import (
	"go/constant"
	"go/token"
	"go/types"

	"golang.org/x/tools/go/ssa"
)

// writerCalls: static call sites of the document-record writer(s).
type writerCall struct {
	Fn   *ssa.Function
	Call *ssa.Call
	W    *ssa.Function
	Doc  ssa.Value
	Key  ssa.Value
}

func (c *Ctx) writerCalls() []writerCall {
	r := c.Roles()
	var out []writerCall
	for _, fn := range c.LibFuncs {
		for _, b := range fn.Blocks {
			for _, in := range b.Instrs {
				call, ok := in.(*ssa.Call)
				if !ok {
					continue
				}
				g := staticCallee(call)
				if g == nil {
					continue
				}
				g = c.declared(g)
				di, ki := -1, -1
				if w, ok := r.DocWrappers[g]; ok {
					di, ki = w[0], w[1]
				} else if r.isDocWriter(g) {
					di, ki = c.docParamIndex(g), c.keyParamIndex(g)
				}
				if di < 0 || ki < 0 {
					continue
				}
				if _, inWrapper := r.DocWrappers[fn]; inWrapper {
					continue // judged at the call sites of the wrapper
				}
				out = append(out, writerCall{fn, call, g, call.Common().Args[di], call.Common().Args[ki]})
			}
		}
	}
	return out
}

// docDeletes: Tx.Delete sinks on keys of the document layout.
func (c *Ctx) docDeletes() []*keySink {
	r := c.Roles()
	var out []*keySink
	for _, s := range r.model.sinks {
		if s.Op == "Delete" && r.DocSkel != "" && sinkHasSkel(s, r.DocSkel) {
			out = append(out, s)
		}
	}
	return out
}

// allIndexes: the []index.Index value v comes from the builder applied to the
// metadata read from the catalog in the same transaction.
func (c *Ctx) allIndexes(v ssa.Value) (bool, string) {
	r := c.Roles()
	for _, o := range c.paramSources(v, 0) {
		call, ok := o.(*ssa.Call)
		if !ok {
			return false, "index set does not come from the catalog-driven builder"
		}
		g := staticCallee(call)
		if g == nil || !c.IsLib(g) {
			return false, "index set comes from an unknown function"
		}
		// the builder takes the collection metadata
		mi := -1
		for i, p := range g.Params {
			if c.isMetaPtr(p.Type()) {
				mi = i
			}
		}
		if mi < 0 {
			return false, "index set builder does not take the collection metadata"
		}
		for _, mo := range c.paramSources(call.Common().Args[mi], 0) {
			ex, ok := mo.(*ssa.Extract)
			if !ok {
				return false, "metadata passed to the index builder is not read from the catalog here"
			}
			mc, ok := ex.Tuple.(*ssa.Call)
			if !ok {
				return false, "metadata passed to the index builder is not read from the catalog here"
			}
			mg := staticCallee(mc)
			if mg == nil || !r.isMetaReader(c.declared(mg)) {
				return false, "metadata passed to the index builder is not read from the catalog here"
			}
		}
	}
	return true, ""
}

// indexesArg finds the []index.Index argument of a call.
func (c *Ctx) indexesArg(call ssa.CallInstruction) ssa.Value {
	for _, a := range call.Common().Args {
		if sl, ok := a.Type().Underlying().(*types.Slice); ok && c.libNamedIs(sl.Elem(), "index", "Index") {
			return a
		}
	}
	return nil
}

// ---------------------------------------------------------------- IDX1

func ruleIDX1(c *Ctx) []Ob {
	o := newObs(c, "IDX1")
	r := c.Roles()
	if len(r.DocWriters) == 0 || r.DocSkel == "" {
		o.add(UNDECIDED, "roles", "-", "document-record writer not found")
		return o.list
	}
	for _, wc := range c.writerCalls() {
		key := c.fname(wc.Fn) + "/save"
		pos := relPath(c, wc.Call.Pos())
		var maint ssa.CallInstruction
		allCalls(wc.Fn, func(m ssa.CallInstruction) {
			if m == ssa.CallInstruction(wc.Call) || !instrDominates(m, wc.Call) {
				return
			}
			if c.calleeEff(m)&EffIdxAdd == 0 {
				return
			}
			for _, a := range m.Common().Args {
				if a == wc.Doc || sameOrigin(a, wc.Doc) {
					maint = m
				}
			}
		})
		if maint == nil {
			o.add(VIOLATED, key, pos, "the document record is written without index entries being added for the same document on this path: every index silently loses this document")
			continue
		}
		if ia := c.indexesArg(maint); ia != nil {
			if ok, why := c.allIndexes(ia); !ok {
				o.add(VIOLATED, key, pos, "index maintenance at %s: %s", relPath(c, maint.Pos()), why)
				continue
			}
		}
		o.add(OK, key, pos, "dominated by index maintenance (%s) for the same document over all catalog indexes", c.calleeName(maint))
	}
	for _, s := range c.docDeletes() {
		key := c.fname(s.Fn) + "/delete"
		pos := relPath(c, s.Call.Pos())
		var maint ssa.CallInstruction
		allCalls(s.Fn, func(m ssa.CallInstruction) {
			if m == s.Call || !instrDominates(m, s.Call) {
				return
			}
			if c.calleeEff(m)&EffIdxRemove != 0 {
				maint = m
			}
		})
		if maint == nil {
			o.add(VIOLATED, key, pos, "a document record is deleted without its index entries being removed on this path: stale entries remain in every index")
			continue
		}
		if ia := c.indexesArg(maint); ia != nil {
			if ok, why := c.allIndexes(ia); !ok {
				o.add(VIOLATED, key, pos, "index maintenance at %s: %s", relPath(c, maint.Pos()), why)
				continue
			}
		}
		o.add(OK, key, pos, "dominated by removal of the document's index entries (%s)", c.calleeName(maint))
	}
	return o.list
}

// ---------------------------------------------------------------- IDX2

// reachesAfterSameValue: can b execute after a while val still holds the value
// it had at a (no path through val's defining block)?
func (c *Ctx) reachesAfterSameValue(a, b ssa.Instruction, val ssa.Value) bool {
	if a.Block() == b.Block() && instrIndex(a) < instrIndex(b) {
		return true
	}
	var def *ssa.BasicBlock
	for _, o := range append([]ssa.Value{val}, origins(val)...) {
		if in, ok := o.(ssa.Instruction); ok && in.Block() != nil && in.Parent() == a.Parent() {
			if c.inLoop(in.Block()) {
				def = in.Block()
			}
		}
	}
	seen := map[*ssa.BasicBlock]bool{}
	stack := append([]*ssa.BasicBlock{}, a.Block().Succs...)
	for len(stack) > 0 {
		x := stack[len(stack)-1]
		stack = stack[:len(stack)-1]
		if seen[x] {
			continue
		}
		seen[x] = true
		if x == def {
			continue // a new element: val is redefined before anything else in this block
		}
		if x == b.Block() {
			return true
		}
		stack = append(stack, x.Succs...)
	}
	return false
}

func ruleIDX2(c *Ctx) []Ob {
	o := newObs(c, "IDX2")
	for _, fn := range c.LibFuncs {
		allCalls(fn, func(u ssa.CallInstruction) {
			if !c.isUpdaterCallback(u) {
				return
			}
			d := u.Common().Args[0]
			key := c.fname(fn) + "/" + calleeShort(u)
			pos := relPath(c, u.Pos())
			bad := ""
			allCalls(fn, func(m ssa.CallInstruction) {
				if m == u || c.calleeEff(m)&EffIdxRemove == 0 {
					return
				}
				uses := false
				for _, a := range m.Common().Args {
					if derivesFrom(a, d) {
						uses = true
					}
				}
				if uses && c.reachesAfterSameValue(u, m, d) {
					bad = relPath(c, m.Pos())
				}
			})
			if bad != "" {
				o.add(VIOLATED, key, pos, "the document handed to the user callback is read again at %s to locate the old index entries: a callback that modifies its argument in place (as clover's own tests do) makes the removal miss them, leaving stale entries", bad)
			} else {
				o.add(OK, key, pos, "old index entries are not computed from the callback's argument after the callback has run")
			}
		})
	}
	return o.list
}

// ---------------------------------------------------------------- IDX3

func (c *Ctx) isSizeAddr(v ssa.Value) (ssa.Value, bool) {
	base, _, n := fieldOfAddr(v)
	m := c.metaStruct()
	if n == nil || m == nil || !types.Identical(n, m) {
		return nil, false
	}
	// the document counter: the integer field of the catalog record
	if pt, ok := v.Type().Underlying().(*types.Pointer); ok && isIntType(pt.Elem()) {
		return base, true
	}
	return nil, false
}

// counterIncrements walks a counter value back to its +1 increments; ok=false
// when the value is built from anything but 0, phis, cells and +1.
func (c *Ctx) counterIncrements(v ssa.Value) (incs []*ssa.BinOp, ok bool) {
	seen := map[ssa.Value]bool{}
	ok = true
	var walk func(v ssa.Value)
	walk = func(v ssa.Value) {
		if seen[v] {
			return
		}
		seen[v] = true
		for _, o := range origins(v) {
			switch x := o.(type) {
			case *ssa.Extract, *ssa.Call:
				// a count returned by a library helper: look at what it returns
				var call *ssa.Call
				idx := 0
				if ex, isEx := x.(*ssa.Extract); isEx {
					call, _ = ex.Tuple.(*ssa.Call)
					idx = ex.Index
				} else {
					call = x.(*ssa.Call)
				}
				var g *ssa.Function
				if call != nil {
					g = staticCallee(call)
				}
				if g == nil || !c.IsLib(c.declared(g)) {
					ok = false
					return
				}
				for _, ret := range returnsOf(c.declared(g)) {
					if rv, okr := returnedValue(ret, idx); okr {
						walk(rv)
					}
				}
			case *ssa.Const:
				if k, isInt := constInt(x); !isInt || k != 0 {
					ok = false
				}
			case *ssa.BinOp:
				k, isInt := constInt(x.Y)
				if x.Op != token.ADD || !isInt || k != 1 {
					ok = false
					return
				}
				incs = append(incs, x)
				walk(x.X)
			default:
				ok = false
			}
		}
	}
	walk(v)
	return
}

func ruleIDX3(c *Ctx) []Ob {
	o := newObs(c, "IDX3")
	r := c.Roles()
	deletes := c.docDeletes()
	wcalls := c.writerCalls()
	for _, fn := range c.LibFuncs {
		for _, b := range fn.Blocks {
			for _, in := range b.Instrs {
				st, ok := in.(*ssa.Store)
				if !ok {
					continue
				}
				if _, isSize := c.isSizeAddr(st.Addr); !isSize {
					continue
				}
				pos := relPath(c, st.Pos())
				key := c.fname(fn) + "/Size"
				if k, isConst := constInt(st.Val); isConst {
					if k == 0 {
						o.add(OK, key+" = 0", pos, "initialisation of a new collection")
					} else {
						o.add(VIOLATED, key+" = const", pos, "the document counter is set to the constant %d", k)
					}
					continue
				}
				bo, ok := st.Val.(*ssa.BinOp)
				if !ok || (bo.Op != token.ADD && bo.Op != token.SUB) {
					o.add(UNDECIDED, key, pos, "the document counter is assigned a value the analysis does not understand")
					continue
				}
				// bo.X must be the old Size
				if _, f, n := fieldLoad(bo.X); f == "" || n == nil || c.metaStruct() == nil || !types.Identical(n, c.metaStruct()) {
					o.add(UNDECIDED, key, pos, "counter update is not of the form Size = Size ± x")
					continue
				}
				verdict, msg := OK, ""
				switch {
				case bo.Op == token.ADD:
					key += " += len"
					call, isCall := bo.Y.(*ssa.Call)
					bi, _ := func() (*ssa.Builtin, bool) {
						if !isCall {
							return nil, false
						}
						b, ok := call.Common().Value.(*ssa.Builtin)
						return b, ok
					}()
					if bi == nil || bi.Name() != "len" {
						verdict, msg = VIOLATED, "the counter grows by something other than the number of documents saved"
						break
					}
					slice := call.Common().Args[0]
					saved := false
					isElem := func(v ssa.Value) bool {
						for _, og := range origins(v) {
							if u, ok := og.(*ssa.UnOp); ok && u.Op == token.MUL {
								if ia, ok := u.X.(*ssa.IndexAddr); ok && (ia.X == slice || sameOrigin(ia.X, slice)) {
									return true
								}
							}
						}
						return false
					}
					for _, wc := range wcalls {
						if wc.Fn == fn {
							if isElem(wc.Doc) {
								saved = true
							}
							continue
						}
						// the save sits in a per-document helper called here with an element of the slice
						p, isParam := wc.Doc.(*ssa.Parameter)
						if !isParam {
							continue
						}
						pi := paramIndex(wc.Fn, p)
						allCalls(fn, func(hc ssa.CallInstruction) {
							if g := staticCallee(hc); g != nil && c.declared(g) == wc.Fn && pi >= 0 && pi < len(hc.Common().Args) && isElem(hc.Common().Args[pi]) {
								saved = true
							}
						})
					}
					// the saving loop sits in a helper that is handed the whole slice: an element of the helper's
					// own slice parameter is saved there
					if !saved {
						for _, wc := range wcalls {
							if wc.Fn == fn {
								continue
							}
							h := wc.Fn
							for hpi, hp := range h.Params {
								if _, isSl := hp.Type().Underlying().(*types.Slice); !isSl {
									continue
								}
								elemOfParam := false
								for _, og := range origins(wc.Doc) {
									if u, ok := og.(*ssa.UnOp); ok && u.Op == token.MUL {
										if ia, ok := u.X.(*ssa.IndexAddr); ok && (ia.X == ssa.Value(hp) || sameOrigin(ia.X, hp)) {
											elemOfParam = true
										}
									}
								}
								if !elemOfParam {
									continue
								}
								allCalls(fn, func(hc ssa.CallInstruction) {
									if g := staticCallee(hc); g != nil && c.declared(g) == h && hpi < len(hc.Common().Args) {
										if a := hc.Common().Args[hpi]; a == slice || sameOrigin(a, slice) {
											saved = true
										}
									}
								})
							}
						}
					}
					if !saved {
						verdict, msg = VIOLATED, "the counter grows by len(x) but this function does not save exactly the elements of x"
					} else {
						msg = "grows by len(docs) in the function that saves exactly those documents"
					}
				case bo.Op == token.SUB:
					if k, isConst := constInt(bo.Y); isConst {
						key += " -= const"
						if k != 1 {
							verdict, msg = VIOLATED, "the counter shrinks by a constant other than one"
							break
						}
						// evidence: a non-nil Tx.Get of a document key guards the decrement
						guards, _ := c.existenceEdges(fn, func(k ssa.Value) bool {
							for _, t := range c.keys().evalAt(k) {
								if t.skeleton() == r.DocSkel {
									return true
								}
							}
							return false
						})
						if !guardedBy(fn, b, guards) {
							verdict, msg = VIOLATED, "the counter is decremented without evidence that the document exists (no non-nil lookup of its key guards the decrement): deleting an absent id makes Count disagree with the stored documents"
						} else {
							msg = "decrement guarded by a successful lookup of the document key"
						}
					} else {
						key += " -= counter"
						incs, okc := c.counterIncrements(bo.Y)
						if !okc || len(incs) == 0 {
							verdict, msg = UNDECIDED, "the amount subtracted is not a counter of +1 increments"
							break
						}
						for _, inc := range incs {
							paired := false
							for _, d := range deletes {
								db, ib := d.Call.Block(), inc.Block()
								if d.Call.Parent() != inc.Parent() {
									continue
								}
								if db == ib || ib.Dominates(db) || db.Dominates(ib) {
									paired = true
								}
							}
							if !paired {
								verdict, msg = VIOLATED, "the deletion counter is incremented at "+relPath(c, inc.Pos())+" away from any document delete"
							}
						}
						if verdict == OK {
							msg = "shrinks by a counter incremented only next to a document delete"
						}
					}
				}
				// the metadata writer follows on every success path
				if verdict == OK {
					if badRet := c.missingMetaWrite(fn, st); badRet != "" {
						verdict, msg = VIOLATED, "after the counter changes, the return at "+badRet+" can be reached without writing the collection metadata back"
					}
				}
				o.add(verdict, key, pos, "%s", msg)
			}
		}
	}
	return o.list
}

// missingMetaWrite: from the Size store, is a success return reachable without
// passing a call to the metadata writer?
func (c *Ctx) missingMetaWrite(fn *ssa.Function, st *ssa.Store) string {
	r := c.Roles()
	ei := errResultIndex(fn.Signature)
	isMW := func(in ssa.Instruction) bool {
		call, ok := in.(ssa.CallInstruction)
		if !ok {
			return false
		}
		return c.callsMetaWriter(call)
	}
	_ = r
	// scan the rest of the store's block
	start := st.Block()
	idx := instrIndex(st)
	blocked := func(b *ssa.BasicBlock, from int) bool {
		for i := from; i < len(b.Instrs); i++ {
			if isMW(b.Instrs[i]) {
				return true
			}
		}
		return false
	}
	checkRet := func(b *ssa.BasicBlock) string {
		ret, ok := b.Instrs[len(b.Instrs)-1].(*ssa.Return)
		if !ok || ei < 0 {
			return ""
		}
		rv, ok := returnedValue(ret, ei)
		if !ok {
			return ""
		}
		if isNilConst(rv) || !c.provablyNonNil(fn, rv, b) {
			return relPath(c, ret.Pos())
		}
		return ""
	}
	if blocked(start, idx+1) {
		return ""
	}
	if s := checkRet(start); s != "" {
		return s
	}
	seen := map[*ssa.BasicBlock]bool{start: true}
	stack := append([]*ssa.BasicBlock{}, start.Succs...)
	for len(stack) > 0 {
		b := stack[len(stack)-1]
		stack = stack[:len(stack)-1]
		if seen[b] {
			continue
		}
		seen[b] = true
		if blocked(b, 0) {
			continue
		}
		if s := checkRet(b); s != "" {
			return s
		}
		stack = append(stack, b.Succs...)
	}
	return ""
}

// ---------------------------------------------------------------- IDX4

func (c *Ctx) isPlainNewQuery(v ssa.Value) bool {
	for _, o := range origins(v) {
		call, ok := o.(*ssa.Call)
		if !ok {
			return false
		}
		g := staticCallee(call)
		if g == nil || g != c.lookupFunc("query", "NewQuery") {
			return false
		}
	}
	return true
}

func ruleIDX4(c *Ctx) []Ob {
	o := newObs(c, "IDX4")
	for _, fn := range c.LibFuncs {
		allCalls(fn, func(call ssa.CallInstruction) {
			if c.calleeEff(call)&EffCursor == 0 {
				return
			}
			for _, a := range call.Common().Args {
				cf := closureFn(a)
				if cf == nil || !c.IsLib(cf) {
					continue
				}
				e := c.eff(cf)
				key := c.fname(cf) + "/consumer of " + c.calleeName(call)
				pos := relPath(c, cf.Pos())
				switch {
				case e&EffDestructive != 0:
					o.add(VIOLATED, key, pos, "the consumer of a live scan performs destructive store writes (%s): the traversal deletes or re-keys what it is traversing, so elements are skipped or visited twice, and a query filtering/sorting on the rewritten field meets its own output", e&EffDestructive)
				case e&(EffIdxAdd|EffTxSet) != 0:
					plain := false
					for _, qa := range call.Common().Args {
						if pt, ok := qa.Type().(*types.Pointer); ok && c.libNamedIs(pt.Elem(), "query", "Query") && c.isPlainNewQuery(qa) {
							plain = true
						}
					}
					if plain {
						o.add(OK, key, pos, "insert-only writes (%s) during a criteria-less full collection scan, which cannot traverse the index being built", e&(EffIdxAdd|EffTxSet))
					} else {
						o.add(VIOLATED, key, pos, "the consumer of a live scan writes to the store (%s) while the scan may be served by the structure being written", e&(EffIdxAdd|EffTxSet))
					}
				default:
					o.add(OK, key, pos, "consumer performs no store write while the cursor is live")
				}
			}
		})
		// the updater runs once per document, outside any live scan
		allCalls(fn, func(u ssa.CallInstruction) {
			if !c.isUpdaterCallback(u) {
				return
			}
			key := c.fname(fn) + "/" + calleeShort(u) + " once per document"
			pos := relPath(c, u.Pos())
			depth := c.loops(fn).depth[u.Block()]
			if depth > 1 {
				o.add(VIOLATED, key, pos, "the user updater is called inside a nested loop (depth %d): it may run more than once per document", depth)
			} else {
				o.add(OK, key, pos, "the updater call sits at loop depth %d", depth)
			}
		})
	}
	return o.list
}

// ---------------------------------------------------------------- ID1 / ID2 / ID3

func (c *Ctx) isObjectIdCall(v ssa.Value) (*ssa.Call, bool) {
	call, ok := v.(*ssa.Call)
	if !ok {
		return nil, false
	}
	g := staticCallee(call)
	if g == nil || c.declared(g) != c.lookupMethod("document", "Document", "ObjectId") {
		return nil, false
	}
	return call, true
}

// keyIdOrigin: the value that supplies the id part (last variable) of a document key.
func (c *Ctx) keyIdOrigin(key ssa.Value) (ssa.Value, bool) {
	ts := c.keys().eval(key, nil, 0, map[ssa.Value]bool{})
	var id ssa.Value
	for _, t := range ts {
		t = t.norm()
		if len(t) == 0 || t.isNil() {
			continue
		}
		last := t[len(t)-1]
		if (last.K != pVar && last.K != pParam) || last.V == nil {
			return nil, false
		}
		if id != nil && id != last.V {
			return nil, false
		}
		id = last.V
	}
	return id, id != nil
}

func ruleID1(c *Ctx) []Ob {
	o := newObs(c, "ID1")
	for _, wc := range c.writerCalls() {
		key := c.fname(wc.Fn) + "/save under own id"
		pos := relPath(c, wc.Call.Pos())
		idV, ok := c.keyIdOrigin(wc.Key)
		if !ok {
			o.add(UNDECIDED, key, pos, "cannot identify which value supplies the id part of the key")
			continue
		}
		// (a) the id part is doc.ObjectId() of the very document being saved
		direct := false
		for _, og := range origins(idV) {
			if call, ok := c.isObjectIdCall(og); ok && (call.Common().Args[0] == wc.Doc || sameOrigin(call.Common().Args[0], wc.Doc)) {
				direct = true
			}
		}
		if direct {
			o.add(OK, key, pos, "the key is built from ObjectId() of the document being saved")
			continue
		}
		// (b) an equality test between saved.ObjectId() and the key's id guards the save
		eq := guardEdges(wc.Fn, func(cond ssa.Value, branch bool) bool {
			b, ok := cond.(*ssa.BinOp)
			if !ok || (b.Op != token.EQL && b.Op != token.NEQ) {
				return false
			}
			match := func(x, y ssa.Value) bool {
				call, ok := c.isObjectIdCall(stripConv(x))
				if !ok || !(call.Common().Args[0] == wc.Doc || sameOrigin(call.Common().Args[0], wc.Doc)) {
					return false
				}
				return y == idV || sameOrigin(y, idV)
			}
			if !match(b.X, b.Y) && !match(b.Y, b.X) {
				return false
			}
			return (b.Op == token.EQL) == branch
		})
		if guardedBy(wc.Fn, wc.Call.Block(), eq) {
			o.add(OK, key, pos, "the save is reached only when the saved document's ObjectId() equals the id the key was built from")
			continue
		}
		// (c) the same test inside a helper whose nil error guards the save: check(id, saved) error, or
		// a helper that produces the document to save and returns it only when its id equals the given one
		var hguards []edge
		allCalls(wc.Fn, func(hc ssa.CallInstruction) {
			hcall, ok := hc.(*ssa.Call)
			if !ok {
				return
			}
			h := staticCallee(hc)
			if h == nil || !c.IsLib(c.declared(h)) || errResultIndex(h.Signature) < 0 {
				return
			}
			h = c.declared(h)
			ei := errResultIndex(h.Signature)
			args := hcall.Common().Args
			// equality edges inside the helper: ObjectId(x) == string parameter b
			type tie struct {
				x  ssa.Value
				bi int
			}
			var ties []tie
			heq := guardEdges(h, func(cond ssa.Value, branch bool) bool {
				bo, ok := cond.(*ssa.BinOp)
				if !ok || (bo.Op != token.EQL && bo.Op != token.NEQ) || (bo.Op == token.EQL) != branch {
					return false
				}
				for _, pair := range [][2]ssa.Value{{bo.X, bo.Y}, {bo.Y, bo.X}} {
					oc, ok := c.isObjectIdCall(stripConv(pair[0]))
					if !ok {
						continue
					}
					pb, okB := pair[1].(*ssa.Parameter)
					if !okB {
						continue
					}
					bi := paramIndex(h, pb)
					if bi < 0 || bi >= len(args) || !(args[bi] == idV || sameOrigin(args[bi], idV)) {
						continue
					}
					ties = append(ties, tie{oc.Common().Args[0], bi})
					return true
				}
				return false
			})
			if len(heq) == 0 {
				return
			}
			// every success return of the helper lies behind the equality
			for _, ret := range returnsOf(h) {
				if ev, ok := returnedValue(ret, ei); ok && c.provablyNonNil(h, ev, ret.Block()) {
					continue
				}
				if !guardedBy(h, ret.Block(), heq) {
					return
				}
			}
			// the compared document is the one saved: a parameter bound to it, or a result the caller saves
			tied := false
			for _, t := range ties {
				if pa, ok := t.x.(*ssa.Parameter); ok {
					if ai := paramIndex(h, pa); ai >= 0 && ai < len(args) && (args[ai] == wc.Doc || sameOrigin(args[ai], wc.Doc)) {
						tied = true
					}
					continue
				}
				for k := 0; k < h.Signature.Results().Len(); k++ {
					if k == ei {
						continue
					}
					returnsIt := false
					for _, ret := range returnsOf(h) {
						if rv, ok := returnedValue(ret, k); ok && (rv == t.x || sameOrigin(rv, t.x)) {
							returnsIt = true
						}
					}
					if !returnsIt {
						continue
					}
					for _, rv := range resultValues(hcall, k) {
						if rv == wc.Doc || sameOrigin(rv, wc.Doc) {
							tied = true
						}
					}
				}
			}
			if !tied {
				return
			}
			for _, rv := range resultValues(hcall, ei) {
				hguards = append(hguards, nilEdges(wc.Fn, sameValue(rv))...)
			}
		})
		if guardedBy(wc.Fn, wc.Call.Block(), hguards) {
			o.add(OK, key, pos, "the save is reached only after a helper found the saved document's ObjectId() equal to the id the key was built from")
			continue
		}
		o.add(VIOLATED, key, pos, "the record is written under a key built from %s while nothing ties the saved document's _id to it: an updater that changes _id makes the document reachable under a key different from its _id", describeValue(c, idV))
	}
	return o.list
}

func ruleID2(c *Ctx) []Ob {
	o := newObs(c, "ID2")
	r := c.Roles()
	validate := c.lookupFunc("document", "Validate")
	// (a) inside the writer: Validate(doc) tested before Tx.Set
	for _, w := range r.DocWriters {
		di := c.docParamIndex(w)
		key := c.fname(w) + "/validate before set"
		var set ssa.CallInstruction
		allCalls(w, func(call ssa.CallInstruction) {
			if c.isInvokeOf(call, "store", "Tx", "Set") {
				set = call
			}
		})
		if set == nil || di < 0 || validate == nil {
			o.add(UNDECIDED, key, relPath(c, w.Pos()), "writer shape not understood")
			continue
		}
		okv := false
		allCalls(w, func(call ssa.CallInstruction) {
			vc, isCall := call.(*ssa.Call)
			if !isCall || staticCallee(call) != validate {
				return
			}
			if vc.Common().Args[0] != ssa.Value(w.Params[di]) {
				return
			}
			if guardedBy(w, set.Block(), nilEdges(w, sameValue(vc))) {
				okv = true
			}
		})
		if okv {
			o.add(OK, key, relPath(c, set.Pos()), "Tx.Set is reached only when document.Validate returned nil for the document written")
		} else {
			o.add(VIOLATED, key, relPath(c, set.Pos()), "the encoded document is stored without document.Validate having accepted it: a malformed _id / _expiresAt reaches the store")
		}
	}
	// (b) at each save: existence probe of the same key, or a scan-produced document
	for _, wc := range c.writerCalls() {
		key := c.fname(wc.Fn) + "/probe before save"
		pos := relPath(c, wc.Call.Pos())
		kbase := stripConv(wc.Key)
		ex, ab := c.existenceEdgesH(wc.Fn, func(k ssa.Value) bool {
			gk := stripConv(k)
			return gk == kbase || sameOrigin(gk, kbase)
		}, func(k ssa.Value, bind map[*ssa.Parameter]ssa.Value) bool {
			return c.sameKeyExpr(k, kbase, bind, 0)
		})
		guards := append(ex, ab...)
		if guardedBy(wc.Fn, wc.Call.Block(), guards) {
			o.add(OK, key, pos, "the save is reached only through a nil test of Tx.Get on the same key")
			continue
		}
		scan := false
		allCalls(wc.Fn, func(call ssa.CallInstruction) {
			if call != ssa.CallInstruction(wc.Call) && c.calleeEff(call)&EffCursor != 0 && (instrDominates(call, wc.Call) || rootFunc(wc.Fn) != wc.Fn) {
				scan = true
			}
		})
		if !scan && c.scanDerived(rootFunc(wc.Fn), 0, map[*ssa.Function]bool{}) {
			scan = true
		}
		if rootFunc(wc.Fn) != wc.Fn {
			// a closure of a function that runs a scan (bulk path)
			allCalls(rootFunc(wc.Fn), func(call ssa.CallInstruction) {
				if c.calleeEff(call)&EffCursor != 0 {
					scan = true
				}
			})
			// a consumer closure of a scan
			for _, mc := range makeClosuresOf(wc.Fn) {
				for _, ref := range realReferrers(mc) {
					if call, ok := ref.(ssa.CallInstruction); ok && c.calleeEff(call)&EffCursor != 0 {
						scan = true
					}
				}
			}
		}
		if scan {
			o.add(OK, key, pos, "the documents saved here were produced by a scan of the collection in the same transaction")
			continue
		}
		o.add(VIOLATED, key, pos, "the record is written without probing the key first: a duplicate _id overwrites another document instead of failing with ErrDuplicateKey / a missing document is created by an update")
	}
	return o.list
}

// ID3: a fresh id is assigned only when _id is absent or empty.
func ruleID3(c *Ctx) []Ob {
	o := newObs(c, "ID3")
	setM := c.lookupMethod("document", "Document", "Set")
	hasM := c.lookupMethod("document", "Document", "Has")
	getM := c.lookupMethod("document", "Document", "Get")
	idField := ""
	if p := c.LibTypes[c.ModPath+"/document"]; p != nil {
		if cst, ok := p.Types.Scope().Lookup("ObjectIdField").(*types.Const); ok {
			idField = constantStringVal(cst)
		}
	}
	if setM == nil || hasM == nil || getM == nil || idField == "" {
		o.add(UNDECIDED, "model", "-", "Document.Set/Has/Get or ObjectIdField not found")
		return o.list
	}
	isIdConst := func(v ssa.Value) bool {
		s, ok := constString(stripConv(v))
		return ok && s == idField
	}
	for _, fn := range c.LibFuncs {
		if c.pkgRel(fn) != "" {
			continue
		}
		allCalls(fn, func(call ssa.CallInstruction) {
			if g := staticCallee(call); g == nil || c.declared(g) != setM {
				return
			}
			args := call.Common().Args
			if len(args) < 3 || !isIdConst(args[1]) {
				return
			}
			doc := args[0]
			key := c.fname(fn) + "/assign _id"
			pos := relPath(c, call.Pos())
			// valueFact: the boolean v having the value bv means "_id of doc is absent or the empty string"
			var factEdges func(f *ssa.Function, doc ssa.Value, depth int) []edge
			var valueFact func(f *ssa.Function, doc ssa.Value, v ssa.Value, bv bool, depth int) bool
			valueFact = func(f *ssa.Function, doc ssa.Value, v ssa.Value, bv bool, depth int) bool {
				if depth > 4 {
					return false
				}
				switch x := v.(type) {
				case *ssa.UnOp:
					if x.Op == token.NOT {
						return valueFact(f, doc, x.X, !bv, depth)
					}
				case *ssa.Call:
					g := staticCallee(x)
					if g == nil {
						return false
					}
					// doc.Has("_id") is false
					if c.declared(g) == hasM && isIdConst(x.Common().Args[1]) && (x.Common().Args[0] == doc || sameOrigin(x.Common().Args[0], doc)) {
						return !bv
					}
					// a library predicate about the same document: every way it yields bv implies the fact
					h := c.declared(g)
					if !c.IsLib(h) || len(h.Blocks) == 0 || h.Signature.Results().Len() != 1 {
						return false
					}
					if bt, ok := h.Signature.Results().At(0).Type().Underlying().(*types.Basic); !ok || bt.Kind() != types.Bool {
						return false
					}
					pi := -1
					for i, a := range x.Common().Args {
						if a == doc || sameOrigin(a, doc) {
							pi = i
						}
					}
					if pi < 0 || pi >= len(h.Params) {
						return false
					}
					hdoc := ssa.Value(h.Params[pi])
					allowed := factEdges(h, hdoc, depth+1)
					var ways func(rv ssa.Value, at *ssa.BasicBlock, via *edge, want bool, d int) bool
					ways = func(rv ssa.Value, at *ssa.BasicBlock, via *edge, want bool, d int) bool {
						if d > 6 {
							return false
						}
						located := guardedBy(h, at, allowed)
						if via != nil {
							for _, e := range allowed {
								if e == *via {
									located = true
								}
							}
						}
						switch y := rv.(type) {
						case *ssa.Const:
							if y.Value == nil || y.Value.Kind() != constant.Bool {
								return false
							}
							if constant.BoolVal(y.Value) != want {
								return true // this way never yields the value asked about
							}
							return located
						case *ssa.Phi:
							for i, e := range y.Edges {
								p := y.Block().Preds[i]
								var viaE *edge
								if len(p.Instrs) > 0 {
									if _, isIf := p.Instrs[len(p.Instrs)-1].(*ssa.If); isIf {
										viaE = &edge{p, p.Succs[0] == y.Block()}
									}
								}
								if !ways(e, p, viaE, want, d+1) {
									return false
								}
							}
							return true
						}
						return located || valueFact(h, hdoc, rv, want, depth+1)
					}
					for _, ret := range returnsOf(h) {
						rv, ok := returnedValue(ret, 0)
						if !ok || !ways(rv, ret.Block(), nil, bv, 0) {
							return false
						}
					}
					return true
				case *ssa.BinOp:
					// doc.Get("_id") == ""
					if x.Op == token.EQL || x.Op == token.NEQ {
						for _, pair := range [][2]ssa.Value{{x.X, x.Y}, {x.Y, x.X}} {
							gc, ok := stripIfaceOnly(pair[0]).(*ssa.Call)
							if !ok {
								continue
							}
							if g := staticCallee(gc); g == nil || c.declared(g) != getM || !isIdConst(gc.Common().Args[1]) || !(gc.Common().Args[0] == doc || sameOrigin(gc.Common().Args[0], doc)) {
								continue
							}
							if s, ok := constString(stripConv(pair[1])); ok && s == "" {
								return (x.Op == token.EQL) == bv
							}
						}
					}
				}
				return false
			}
			factEdges = func(f *ssa.Function, doc ssa.Value, depth int) []edge {
				return guardEdges(f, func(cond ssa.Value, branch bool) bool {
					return valueFact(f, doc, cond, branch, depth)
				})
			}
			guards := factEdges(fn, doc, 0)
			if guardedBy(fn, call.Block(), guards) {
				o.add(OK, key, pos, "a generated id is assigned only when _id is absent or the empty string")
			} else {
				o.add(VIOLATED, key, pos, "_id is overwritten with a generated id on a path where the caller supplied one")
			}
		})
	}
	return o.list
}

func stripIfaceOnly(v ssa.Value) ssa.Value {
	for {
		switch x := v.(type) {
		case *ssa.ChangeInterface:
			v = x.X
		case *ssa.MakeInterface:
			v = x.X
		default:
			return v
		}
	}
}

func constantStringVal(cst *types.Const) string {
	s := cst.Val().ExactString()
	if len(s) >= 2 && s[0] == '"' {
		return s[1 : len(s)-1]
	}
	return s
}

// scanDerived: fn runs a scan itself, or every library caller of fn does
// (the documents it works on were read from the store in this transaction).
func (c *Ctx) scanDerived(fn *ssa.Function, depth int, seen map[*ssa.Function]bool) bool {
	if seen[fn] || depth > 4 {
		return false
	}
	seen[fn] = true
	has := false
	allCalls(fn, func(call ssa.CallInstruction) {
		if c.calleeEff(call)&EffCursor != 0 {
			has = true
		}
	})
	if has {
		return true
	}
	sites := c.staticCallers(fn)
	if len(sites) == 0 {
		return false
	}
	for _, s := range sites {
		if !c.scanDerived(rootFunc(s.Parent()), depth+1, seen) {
			return false
		}
	}
	return true
}
