package main

// Registry of rules and the property -> rules table (DESIGN.md §3, §4).

func registry() map[string]*Rule {
	rules := []*Rule{
		{Name: "TX1", Floor: 4, Run: ruleTX1, Doc: "every transaction opener tests Begin's error and defers Rollback on the same transaction value so that the defer dominates every other use and every exit"},
		{Name: "TX2", Floor: 6, Run: ruleTX2, Doc: "in a write-transaction opener, every return that a store write may precede returns tx.Commit() itself or a provably non-nil error; nothing uses the transaction after Commit"},
		{Name: "TX3", Floor: 8, Run: ruleTX3, Doc: "every exported operation opens at most one write transaction on any path, never in a loop, and never while holding another"},
		{Name: "TX4", Floor: 6, Run: ruleTX4, Doc: "every transaction reachable from a public read operation is Begin(false), or no Commit is reachable from that operation"},
		{Name: "ERR1", Floor: 20, Run: ruleERR1, Doc: "every error-returning call in the library has its error examined or propagated (deferred Rollback/Close cleanups excepted)"},
		{Name: "ERR2", Floor: 6, Run: ruleERR2, Doc: "from a branch on which an error value is known non-nil, no return of a nil error is reachable, except under errors.Is(err, ErrStopIteration | badger.ErrKeyNotFound)"},
		{Name: "ERR3", Floor: 2, Run: ruleERR3, Doc: "every loop that hands elements to an error-returning callback tests the error, leaves the loop when it is non-nil, and translates the stop sentinel into a nil return"},
		{Name: "KEY1", Floor: 4, Run: ruleKEY1, Doc: "every key template used as a scan bound (Seek / HasPrefix / TrimPrefix) ends in a literal delimiter or a self-delimiting encoding, never in a name"},
		{Name: "KEY2", Floor: 6, Run: ruleKEY2, Doc: "key layouts are pairwise distinct, every variable part is ';'-terminated, and each scan bound covers exactly one layout"},
		{Name: "KEY3", Floor: 3, Run: ruleKEY3, Doc: "per key layout: what is read or deleted is also written under the identical layout, and what is written is read or scanned"},
		{Name: "KEY4", Floor: 1, Run: ruleKEY4, Doc: "in index keys the type rank precedes the encoded value, is delimited, and both derive from the same value"},
		{Name: "VIS1", Floor: 6, Run: ruleVIS1, Doc: "every value a criteria visitor returns satisfies every unchecked type assertion made on that visitor's results; nil only under the visitor's error-flag idiom with every assertion guarded"},
		{Name: "NIL1", Floor: 5, Run: ruleNIL1, Doc: "the pointer result of a (ptr, error) function that can return (nil, err) is dereferenced only behind the err == nil / ptr != nil test"},
		{Name: "OPS1", Floor: 6, Run: ruleOPS1, Doc: "every operator constant the library constructs has a case in UnaryCriteria.Satisfy, and operators routed to a helper are covered by its inner switch"},
		{Name: "OPS2", Floor: 2, Run: ruleOPS2, Doc: "for each operator, the static type the builders store in Value equals the type the evaluator asserts unchecked"},
		{Name: "PANIC1", Floor: 2, Run: rulePANIC1, Doc: "every explicit panic site is tied to the rule that makes it unreachable; a new one is undecided"},
		{Name: "IDX1", Floor: 3, Run: ruleIDX1, Doc: "every document-record write is dominated by index additions for the same document, every document-record delete by index removals, over the index set built from the catalog metadata of the same transaction"},
		{Name: "IDX2", Floor: 1, Run: ruleIDX2, Doc: "the document passed to a user updater is not read afterwards to locate the old index entries"},
		{Name: "IDX3", Floor: 2, Run: ruleIDX3, Doc: "the collection counter changes only with evidence (len of the documents saved here; a successful key lookup; a counter incremented next to each delete) and the metadata is written back on every success path"},
		{Name: "IDX4", Floor: 4, Run: ruleIDX4, Doc: "no consumer of a live scan performs destructive store writes (snapshot-then-apply); insert-only writes only under a criteria-less NewQuery scan; the updater runs at loop depth <= 1"},
		{Name: "ID1", Floor: 2, Run: ruleID1, Doc: "a document record is written under a key built from its own ObjectId(), or behind an equality test between its ObjectId() and the id the key was built from"},
		{Name: "ID2", Floor: 3, Run: ruleID2, Doc: "Tx.Set of a document is reached only after document.Validate accepted it; every save is behind a nil test of Tx.Get on the same key or saves scan-produced documents"},
		{Name: "ID3", Floor: 1, Run: ruleID3, Doc: "a generated _id is assigned only when _id is absent or empty"},
		{Name: "PLAN1", Floor: 2, Run: rulePLAN1, Doc: "every candidate an input node emits is guarded by filter == nil || filter.Satisfy(doc) on the same document, and every input node is built with filter = Criteria() of the query being planned"},
		{Name: "PLAN2", Floor: 1, Run: rulePLAN2, Doc: "Range.Intersect is reached only where the visited node is known to be LogicalAnd; a range visitor returns no range for a non-conjunction"},
		{Name: "PLAN3", Floor: 3, Run: rulePLAN3, Doc: "the negation push-down never returns an unvisited child, and the range visitor derives nothing under Not"},
		{Name: "PLAN4", Floor: 1, Run: rulePLAN4, Doc: "in the plan builder no SetNext edge leads from the skip/limit node to a sort node or out of the consumer node"},
		{Name: "PLAN5", Floor: 2, Run: rulePLAN5, Doc: "every value stored into Query.sortOpts is nil, copied from a query, or built only from literals with Direction = +-1"},
		{Name: "PLAN6", Floor: 6, Run: rulePLAN6, Doc: "the negation table (Not over comparison -> complement) and the comparison->range table equal the mathematically fixed tables, row by row"},
		{Name: "CMP1", Floor: 30, Run: ruleCMP1, Doc: "TypeId, evaluated by type-tag abstract interpretation for the nine canonical types, yields single-digit ranks in the order nil < number < string < object < array < bool < time (numbers share one rank)"},
		{Name: "CMP2", Floor: 3, Run: ruleCMP2, Doc: "functions reachable from the comparators contain no subtraction of unbounded integers and no unguarded 64-bit sign conversion"},
		{Name: "CMP3", Floor: 90, Run: ruleCMP3, Doc: "for every pair of canonical dynamic types, abstract evaluation of Compare ends in a return on every path (no failing unchecked assertion, no panic) and different classes are ordered by rank alone; OrderedCode and IsNumber handle every canonical type"},
		{Name: "CMP4", Floor: 2, Run: ruleCMP4, Doc: "in package query every operand of internal.Compare is a document value or a result of internal.Normalize"},
		{Name: "CMP5", Floor: 15, Run: ruleCMP5, Doc: "Normalize's kind switch covers every numeric width, string, bool, struct, map, slice and array and returns the canonical type for each; every return is canonical, nil, or a listed pass-through; Document.Set touches the document only when normalisation succeeded"},
		{Name: "COD1", Floor: 3, Run: ruleCOD1, Doc: "the time wrapper is unreachable from Decode, the unwrapper from Encode, and each transformer recurses into itself"},
		{Name: "COD2", Floor: 2, Run: ruleCOD2, Doc: "the library uses only msgpack.Marshal/Unmarshal/RegisterExt (default, type-preserving configuration)"},
		{Name: "ADP1", Floor: 1, Run: ruleADP1, Doc: "every store.Tx.Get implementation maps the backend's not-found outcome to (nil, nil) before the generic error test"},
		{Name: "ADP2", Floor: 4, Run: ruleADP2, Doc: "no method of a store.Cursor implementation branches on the value component of the backend cursor position or of store.Item"},
		{Name: "IMM1", Floor: 5, Run: ruleIMM1, Doc: "every store to a field of Query/UnaryCriteria/BinaryCriteria/NotCriteria targets an object allocated (literal or copy()) in the same function"},
		{Name: "IMM2", Floor: 3, Run: ruleIMM2, Doc: "DB fields are written only during construction or through sync/atomic (and then read atomically); no package-level variable is written after init; go statements are inventoried"},
		{Name: "GUARD1", Floor: 6, Run: ruleGUARD1, Doc: "in every operation naming a collection or query, the first store access after Begin on every path is the catalog lookup"},
		{Name: "IDX5", Floor: 2, Run: ruleIDX5, Doc: "index creation writes the catalog after feeding a criteria-less scan into the new index; index drop drops entries before rewriting the catalog; collection drop bulk-deletes before deleting the catalog key"},
		{Name: "ADP3", Floor: 4, Run: ruleADP3, Doc: "backend (bbolt/badger) APIs are called only inside the store adapter packages"},
		{Name: "OPS3", Floor: 2, Run: ruleOPS3, Doc: "Neq is Not(Eq) and NotExists is Not(Exists), built on the builder's own arguments"},
		{Name: "KEY5", Floor: 1, Run: ruleKEY5, Doc: "specialised on reverse = true, every Cursor.Seek target in a scan function ends in the 0xFF upper sentinel"},
		{Name: "IDX6", Floor: 2, Run: ruleIDX6, Doc: "index maintenance is unconditional per (document, index): every iteration of a loop over the indexes reaches Index.Add/Remove, and a per-document build callback cannot return success without it"},
		{Name: "PLAN7", Floor: 1, Run: rulePLAN7, Doc: "the flag that elides the in-memory sort is set only where the query has exactly one sort option and its field equals the field of the index scanned"},
		{Name: "CG1", Floor: 0, Run: ruleCG1, Doc: "thorough tier: every library target the whole-program VTA call graph finds for a dynamic call site is accounted for by the effect summaries"},
		{Name: "ADP4", Floor: 3, Run: ruleADP4, Doc: "byte slices handed to Tx.Set/Tx.Delete are not built on a reused buffer (struct field or package variable): badger retains them until Commit, bbolt copies"},
		{Name: "KEY6", Floor: 1, Run: ruleKEY6, Doc: "every item passed to orderedcode.Append is self-delimiting (never TrailingString), since keys continue after the encoded value"},
		{Name: "CMP6", Floor: 1, Run: ruleCMP6, Doc: "in struct normalisation the store under the field's own name is reached only for non-anonymous fields or anonymous fields that did not normalise to a map (embedded flattening is unconditional otherwise)"},
		{Name: "PLAN8", Floor: 1, Run: rulePLAN8, Doc: "the criteria->range table is consulted only behind the false edge of a field-reference predicate (Field(..) or \"$name\") on the same criteria's operand"},
		{Name: "NIL2", Floor: 2, Run: ruleNIL2, Doc: "the pointer result of a library function that can return (nil, nil) is nil-tested before it is dereferenced or passed on"},
		{Name: "IMP1", Floor: 1, Run: ruleIMP1, Doc: "ImportCollection converts decoded JSON objects with NewDocumentOf (verbatim keys), never through Document.Set/SetAll (dotted-path semantics)"},
		{Name: "BULK1", Floor: 1, Run: ruleBULK1, Doc: "a function that scans and then mutates destructively scans exactly the query it was given (criteria replacement by Where only)"},
		{Name: "CNT1", Floor: 0, Run: ruleCNT1, Doc: "where Count is answered from the stored counter, the limit is compared with the counter after the skip has been subtracted"},
		{Name: "PANIC2", Floor: 0, Run: rulePANIC2, Doc: "no ==/!= between two interface{} values that may both hold document values (arrays/objects are uncomparable: run-time panic)"},
		{Name: "NORM1", Floor: 1, Run: ruleNORM1, Doc: "Where(x) in the root package receives only the asserted result of the literal-normalising visitor applied to the query's own Criteria()"},
		{Name: "RNG1", Floor: 4, Run: ruleRNG1, Doc: "a value stored into a field of index.Range is computed only from the same field of other ranges (including short-circuit conditions)"},
		{Name: "ADP5", Floor: 1, Run: ruleADP5, Doc: "a delete-while-iterating scan (Index.Drop) is not preceded by another store write in the same function/transaction (bbolt and badger diverge otherwise)"},
		{Name: "OPS4", Floor: 0, Run: ruleOPS4, Doc: "abstract evaluation with injected operand results: And/Or/Not return their truth tables on every path; Gt/GtEq/Lt/LtEq/Eq apply the right relation to the three-way comparison result"},
		{Name: "OPS5", Floor: 0, Run: ruleOPS5, Doc: "abstract evaluation of UnaryCriteria.Satisfy over every equality pattern between listed operands and document values (lists/arrays of length 1-2): In = some equal, Contains = every listed element found, Eq = present and equal, Exists = present"},
		{Name: "RNG2", Floor: 2, Run: ruleRNG2, Doc: "specialised on the direction flag, the conditions inside the emission loop of a range scan read only the far bound's Range fields"},
		{Name: "SORT1", Floor: 0, Run: ruleSORT1, Doc: "abstract evaluation of the document comparator for one and two sort options over every (has, has, sign of Compare, direction): the sign equals the definition; first non-zero option decides"},
		{Name: "SORT2", Floor: 0, Run: ruleSORT2, Doc: "abstract evaluation of the sort-option normaliser: negative direction -> -1, zero or positive -> +1"},
		{Name: "WIN1", Floor: 0, Run: ruleWIN1, Doc: "predicate abstraction of the skip/limit node's Callback over (skipped<skip, limit<0, consumed<limit): skip, forward-and-count, or stop exactly as the window [skip, skip+limit) requires; counters start at zero"},
		{Name: "ADP6", Floor: 2, Run: ruleADP6, Doc: "every store.Tx.Commit implementation returns the backend's synchronous Commit result (no CommitWith / constant nil)"},
		{Name: "ADP7", Floor: 1, Run: ruleADP7, Doc: "the adapters do not switch off badger conflict detection or bbolt fsync-on-commit"},
		{Name: "IDX7", Floor: 3, Run: ruleIDX7, Doc: "a function that read the collection's catalog record writes that record back, not a freshly built one"},
		{Name: "SKIP1", Floor: 0, Run: ruleSKIP1, Doc: "abstract evaluation of Query.Skip: a negative argument stores nothing into the skip field; zero/positive are stored as given"},
		{Name: "PLAN9", Floor: 3, Run: rulePLAN9, Doc: "rows of the criteria->range table for operators other than Eq are reached only with a non-nil operand (a nil bound means unbounded)"},
		{Name: "CMP7", Floor: 0, Run: ruleCMP7, Doc: "abstract evaluation of Normalize on time.Time and *time.Time inputs yields time.Time (or nil), never the pointer"},
		{Name: "EMPTY1", Floor: 4, Run: ruleEMPTY1, Doc: "container values ([]interface{}, map[string]interface{}) returned or stored by the copy/transform helpers of util, internal and document are never nil on a success path (empty containers stay empty)"},
		{Name: "KEY7", Floor: 1, Run: ruleKEY7, Doc: "a name or id recovered from a scanned key is exactly one variable part of a written key layout, cut at positions that follow from the layout's literal text (never found by searching inside the variable part)"},
		{Name: "WRITE1", Floor: 1, Run: ruleWRITE1, Doc: "after the caller's updater ran, every path to success or to the next document writes or deletes the record (no content-based skipping of the write)"},
		{Name: "ALIAS1", Floor: 10, Run: ruleALIAS1, Doc: "no append into the spare capacity of a slice stored in a field or package variable unless the result replaces it (keys/bounds built on a cached prefix must not alias)"},
		{Name: "ADP8", Floor: 2, Run: ruleADP8, Doc: "the key a store.Cursor implementation returns in store.Item stays valid after the cursor moves (badger: KeyCopy, not Key)"},
	}
	m := map[string]*Rule{}
	for _, r := range rules {
		m[r.Name] = r
	}
	return m
}

type Property struct {
	Technique   string
	Rules       []string
	Explanation string
	NotDecided  string
	Assumptions []string
}

var commonAssumptions = []string{
	"collection names, field names and document ids contain no ';' (the properties' own quantifier)",
	"bbolt and badger transactions are atomic, isolated, and discard everything on rollback",
	"user callbacks are opaque: they may mutate the document they receive and return any document",
}

func propertyTable() map[string]*Property {
	const tSSA = "static analysis: "
	return map[string]*Property{
		"C01": {
			Technique:   tSSA + "SSA guard/dominance analysis of the scan paths, key-template abstract interpretation, type-tag abstract interpretation of the comparator, operator/table extraction",
			Rules:       []string{"PLAN1", "KEY1", "KEY2", "CMP1", "CMP2", "CMP3", "CMP4", "OPS1", "TX2~^DB\\.(Insert|UpdateById|UpdateFunc|Delete|DeleteById|DropCollection|CreateCollectionByQuery|ImportCollection)/", "ID1", "IDX6", "NORM1"},
			Explanation: "Decides structural clauses of C01 on every path of the current source: every candidate from every scan path is re-filtered with the query's full criteria (PLAN1); no scan can leave its own key family, so no document is yielded through a sibling's keys (KEY1, KEY2); the comparator behind the criteria ranks types in the documented order (CMP1), has no wrap-around arithmetic (CMP2), dispatches every pair of canonical dynamic types to a return (CMP3), only ever sees normalised operands (CMP4); every operator that can be constructed is evaluated (OPS1); records are replaced whole, under their own id, inside one committed transaction (TX2, ID1).",
			NotDecided:  "That Criteria.Satisfy computes the documented truth value for every document and criteria tree (absent-field semantics, In/Contains/Like value logic); history dependence. These quantify over values and histories.",
			Assumptions: commonAssumptions,
		},
		"C02": {
			Technique:   tSSA + "SSA guard analysis of the planner (re-filter, And-only intersection, negation push-down closure), finite table extraction, index-maintenance dominance, key-template analysis",
			Rules:       []string{"PLAN1", "PLAN2", "PLAN3", "PLAN6", "PLAN7", "PLAN8", "PLAN9", "IDX1", "IDX2", "IDX6", "KEY1", "KEY2", "KEY3", "KEY5", "VIS1"},
			Explanation: "Decides structural clauses of C02: index candidates are always re-checked against the full criteria (PLAN1); ranges of the two sides are intersected only under a conjunction and no range is produced for a disjunction or below a surviving negation (PLAN2, PLAN3); the negation push-down never returns an unvisited child (PLAN3); the two finite tables Not(op)->complement and op->range equal the mathematical ones row by row (PLAN6, decided completely); index entries follow every document write/delete, and old entries are located before a user updater may mutate the document (IDX1, IDX2); an index scan sees exactly its own entries and add/remove use one key layout (KEY1-KEY3); planning visitors cannot return a value their callers' unchecked assertions reject (VIS1).",
			NotDecided:  "That a derived range contains every matching value for all values (nil bounds, Range.IsEmpty, inclusive ends in reverse scans), and that sort elision is taken only when the index order equals the requested order. Value-level.",
			Assumptions: commonAssumptions,
		},
		"C03": {
			Technique:   tSSA + "effect summaries over closures passed to scans (snapshot-then-apply), cursor-adapter branch analysis, transaction rules",
			Rules:       []string{"IDX4", "ADP2", "TX2~^DB\\.(UpdateFunc|Delete|DropCollection)/", "TX3~^DB\\.(Update|UpdateFunc|Delete|DropCollection)/", "IDX1~replaceDocs", "IDX2~replaceDocs", "BULK1"},
			Explanation: "Decides structural clauses of C03: no consumer of a live scan performs a destructive store write, i.e. the query is evaluated completely before the first update/delete is applied, and the updater runs at loop depth <= 1 on the collected documents (IDX4); cursor validity on either backend never depends on an entry's value, so entries with empty values do not end a traversal (ADP2); the bulk operation is one committed transaction (TX2, TX3) and maintains every index for each document it rewrites (IDX1, IDX2).",
			NotDecided:  "B+tree/LSM cursor behaviour itself, page layouts and collection sizes (runtime quantities; once IDX4 holds they no longer matter for the bulk path); that the set collected equals FindAll's for all data.",
			Assumptions: commonAssumptions,
		},
		"C04": {
			Technique:   tSSA + "SSA dominance + effect summaries (transaction release/commit discipline), error-flow rules, guard ordering",
			Rules:       []string{"TX1", "TX2", "TX3", "ERR1", "ERR2", "ERR3", "ID2", "GUARD1"},
			Explanation: "Decides structural clauses of C04 on every path of the current source: every transaction is released on every exit (TX1: no wedged handle); no store effect is acknowledged without Commit, and Commit is the last act (TX2); no public operation spans two write transactions, so no committed prefix can be left behind by a later failure (TX3); no store/plan error is dropped or converted into success (ERR1-ERR3); validity and duplicate checks precede the write, the catalog lookup precedes every other store access (ID2, GUARD1).",
			NotDecided:  "The stores' own rollback semantics (trusted); enumeration of the k-th failing store call at run time; errors inside bbolt/badger.",
			Assumptions: commonAssumptions,
		},
		"C05": {
			Technique:   tSSA + "SSA dominance + longest-path transaction counting over the call summaries",
			Rules:       []string{"TX1", "TX2", "TX3", "IDX1", "IDX3", "ADP6", "ADP7"},
			Explanation: "Decides the structural fact C05 itself names: every public write operation is exactly one store transaction (TX3), committed as its last action on every success path with every other exit rolling back (TX1, TX2), and documents, index entries, the counter and the catalog are written through that same transaction (IDX1, IDX3 - all writes go through the tx value of the single opener).",
			NotDecided:  "Durability and crash atomicity of a committed bbolt/badger transaction (trusted base: the stores), fsync options, any actual kill/reopen. No crash is simulated.",
			Assumptions: commonAssumptions,
		},
		"C06": {
			Technique:   tSSA + "index-maintenance dominance, counter-evidence dataflow, key-template analysis of drop/scan bounds",
			Rules:       []string{"IDX1", "IDX2", "IDX3", "IDX5", "IDX6", "IDX7", "ID2~probe", "KEY1", "KEY2", "KEY3", "TX2", "ADP8"},
			Explanation: "Decides structural clauses of C06: every document write/delete is paired with index maintenance over all catalog indexes (IDX1), with old entries taken before user code can mutate the document (IDX2); the counter moves only with evidence and is written back (IDX3), and each save is behind a probe of its own key inside the write loop, so a batch repeating an id cannot grow the counter twice for one record (ID2); index creation feeds every document into the new index and drop removes through a bound that covers exactly the index's own keys; collection drop goes through the bulk delete and removes the catalog key (IDX5, KEY1-KEY3).",
			NotDecided:  "The arithmetic equality Count == number of records over arbitrary histories (IDX3 gives the necessary discipline per site, not the sum).",
			Assumptions: commonAssumptions,
		},
		"C07": {
			Technique:   tSSA + "shared-state inventory (stores to handle fields/globals, go statements), immutability of query values, one-transaction-per-operation counting",
			Rules:       []string{"TX3", "IMM1", "IMM2", "TX4", "TX1", "ADP6", "ADP7"},
			Explanation: "Decides structural clauses of C07: each operation is one store transaction, the only atomicity mechanism there is (TX3, TX1); the handle has no unsynchronised mutable state - DB fields are written only at construction or through sync/atomic, no package-level variable is written after init, the only goroutine is the reviewed badger GC loop (IMM2); queries and criteria are immutable values (IMM1); read operations cannot write (TX4).",
			NotDecided:  "Linearizability of histories, the isolation the stores provide, badger conflict handling, the race detector's verdict: schedules are runtime.",
			Assumptions: commonAssumptions,
		},
		"C08": {
			Technique:   tSSA + "plan-pipeline type flow, sort-option normalisation dataflow, callback-loop error rules, comparator arithmetic check",
			Rules:       []string{"PLAN4", "PLAN5", "PLAN7", "SORT1", "SORT2", "WIN1", "SKIP1", "ERR3", "CMP2", "CMP1", "KEY5"},
			Explanation: "Decides structural clauses of C08: the sort node never follows the skip/limit node (PLAN4: the window is cut from the ordered sequence); sort directions are normalised to +-1 and Sort() defaults to a literal (PLAN5), negative to -1 and zero/positive to +1 (SORT2, by abstract evaluation over the sign of the input); the document comparator, abstractly evaluated for one and two sort options over every combination of presence, comparison sign and direction (24 + 576 cases), returns the sign the definition gives: a negative direction reverses the key, the first non-zero key decides (SORT1); the skip/limit node, by predicate abstraction over (skipped < skip, limit < 0, consumed < limit), skips, forwards-and-counts or stops exactly as the window [skip, skip+limit) requires, with both counters starting at zero (WIN1); a limit stops the emission behind a sort and the stop does not leak (ERR3); the comparator the sort uses has no wrap-around and the documented type ranking (CMP2, CMP1).",
			NotDecided:  "Tie handling among equal keys, the order an index scan yields (key encoding vs comparator), Count's arithmetic beyond CNT1. The per-document transition of the window node and the comparator's sign ARE decided (WIN1, SORT1).",
			Assumptions: commonAssumptions,
		},
		"C09": {
			Technique:   tSSA + "immutability dataflow, read-operation transaction rule, callback-loop rules, counter discipline",
			Rules:       []string{"IMM1", "TX4", "ERR3", "IDX3", "IDX7", "KEY3", "NIL1", "CNT1", "SKIP1"},
			Explanation: "Decides structural clauses of C09: no builder or operation writes to a query/criteria object it was given (IMM1); read operations open read-only transactions or never commit (TX4: they cannot alter the database); ForEach's stop request ends every loop, also behind a sort node (ERR3); the counter Count relies on moves only with evidence (IDX3); FindById reads the key layout Insert writes (KEY3); results of (nil, err) helpers are not dereferenced (NIL1); in the counter shortcut of Count the limit is applied to the size that remains after the skip (CNT1).",
			NotDecided:  "Numeric agreement of Count's skip/limit arithmetic with a scan; FindFirst = first element of FindAll; these are value-level.",
			Assumptions: commonAssumptions,
		},
		"C10": {
			Technique:   tSSA + "type-tag abstract interpretation of TypeId/Compare/OrderedCode over the 9x9 canonical type pairs, arithmetic-pattern check, key-template order check",
			Rules:       []string{"CMP1", "CMP2", "CMP3", "KEY4", "KEY6"},
			Explanation: "Decides structural clauses of C10: the type ranking is nil < number < string < object < array < bool < time with single-digit ranks (CMP1, decided completely by abstract evaluation of TypeId on each canonical type); the comparator contains no subtraction of unbounded integers and no unguarded sign conversion (CMP2: no overflow-induced sign errors at the int64/uint64/time extremes); for all 81 pairs of canonical dynamic types Compare reaches a return, never a failing assertion, and different classes are ordered by rank alone (CMP3); in index keys the rank precedes the encoded value and both come from the same value (KEY4), and every encoded item is self-delimiting so that the document id appended after it cannot change the order of prefix-related values (KEY6).",
			NotDecided:  "Transitivity as such, lexicographic container order, and agreement between Compare and the orderedcode byte order (-0.0, float widening, times before 1970): statements about an encoding function's values.",
			Assumptions: commonAssumptions,
		},
		"C11": {
			Technique:   tSSA + "call-graph reachability between codec entry points and time transformers, msgpack API whitelist",
			Rules:       []string{"COD1", "COD2", "CMP7", "EMPTY1", "WRITE1"},
			Explanation: "Decides structural clauses of C11: the time wrapper is unreachable from Decode and the unwrapper from Encode, and each transformer recurses into itself for map and slice elements (COD1: times inside arrays and inside objects nested in arrays come back as time.Time); the library uses msgpack only through Marshal/Unmarshal/RegisterExt, i.e. the default type-preserving configuration (COD2).",
			NotDecided:  "msgpack's own fidelity for every value (trusted library), zone offsets and the gob encoding of times, deep equality of values.",
			Assumptions: commonAssumptions,
		},
		"C12": {
			Technique:   tSSA + "SSA value identity between saved document and key, guard analysis of validation/probe/id-assignment",
			Rules:       []string{"ID1", "ID2", "ID3", "TX2~^DB\\.(Insert|UpdateById|UpdateFunc|CreateCollectionByQuery|ImportCollection)/"},
			Explanation: "Decides structural clauses of C12: a record is stored under a key built from its own ObjectId(), or only after an equality test between its ObjectId() and the id the key was built from (ID1: no update can make a document reachable under a foreign key); every Tx.Set of a document is behind document.Validate and every save behind a nil test of Tx.Get on the same key or on scan-produced documents (ID2: malformed and duplicate ids are rejected, not overwritten); a generated id is assigned only when _id is absent or empty (ID3); a rejected insert commits nothing (TX2).",
			NotDecided:  "Uniqueness of generated UUIDs; behaviour over histories.",
			Assumptions: commonAssumptions,
		},
		"C13": {
			Technique:   tSSA + "key-template abstract interpretation (family disjointness, delimiter-terminated bounds), guard ordering, adapter not-found mapping",
			Rules:       []string{"KEY1~(iteratePrefix|ListCollections)", "KEY2", "KEY3", "KEY7", "GUARD1", "ADP1", "TX2~^DB\\.(CreateCollection|DropCollection|CreateCollectionByQuery|ImportCollection)/", "TX3~^DB\\.(CreateCollection|DropCollection|CreateCollectionByQuery|ImportCollection)/"},
			Explanation: "Decides structural clauses of C13: catalog keys, document keys and index keys are pairwise distinct layouts, every name is ';'-terminated inside a key, and every scan bound covers exactly one layout and ends in a delimiter - so collections whose names are prefixes of each other, and documents sharing ids, cannot see each other's keys (KEY1-KEY3); every operation looks the collection up in the catalog before any other store access (GUARD1) and a missing key is (nil, nil) on both backends (ADP1); nothing is committed on the error paths (TX2).",
			NotDecided:  "Catalog contents over histories of create/drop.",
			Assumptions: commonAssumptions,
		},
		"C14": {
			Technique:   tSSA + "key-template abstract interpretation of the per-index prefix, nil-dereference guard analysis, guard ordering",
			Rules:       []string{"KEY1~^index\\.", "KEY2", "NIL1~(listIndexes|hasIndex|createIndex|DropIndex)", "GUARD1~(createIndex|DropIndex|HasIndex|ListIndexes)", "IDX5~(index build|drop entries|drops the requested)", "VIS1~IndexSelectVisitor", "PLAN7", "ADP8"},
			Explanation: "Decides structural clauses of C14: the per-index prefix used by iteration and drop ends in the separator, so indexes on x / xy and on n / n.a never read or delete each other's entries (KEY1, KEY2); ListIndexes/HasIndex on a missing collection report the error without dereferencing the absent metadata (NIL1, GUARD1); index creation and drop update entries and catalog in the required order (IDX5); the index-selection visitor satisfies its callers' unchecked assertions (VIS1). The in-memory sort is elided only when the sort field is the field of the index that is actually scanned (PLAN7): otherwise creating an index on another field changes the order of results obtained through this one. The badger cursor hands out copies of its keys (ADP8), without which DropIndex leaves entries behind that a re-created index then serves.",
			NotDecided:  "Catalog list arithmetic (swap-remove in DropIndex) over histories.",
			Assumptions: commonAssumptions,
		},
		"C15": {
			Technique:   tSSA + "sibling cross-check of the store adapters (not-found mapping, cursor validity), error rules inside adapters",
			Rules:       []string{"ADP1", "ADP2", "ADP3", "ADP4", "ADP5", "ADP8", "ERR1~^store/", "ERR2~^store/"},
			Explanation: "Decides structural clauses of C15: both Tx.Get implementations map absence to (nil, nil) (ADP1); no Cursor implementation makes position validity depend on the value, so keys with empty values are visible on both backends (ADP2); only the adapter packages call the backend APIs (ADP3); keys and values handed to the store are freshly allocated, never a reused scratch buffer, which badger (retains the slice until Commit) and bbolt (copies) treat differently (ADP4); adapters drop or convert no backend error other than the not-found mapping (ERR1, ERR2).",
			NotDecided:  "Everything else: equality of the results of identical histories on two backends and the seek contract for all key sets are runtime comparisons (DESIGN §6 lists a reverse-seek defect this family does not reach).",
			Assumptions: commonAssumptions,
		},
		"C16": {
			Technique:   tSSA + "taint-style dataflow of Compare operands, operator constant tables, builder/evaluator type agreement",
			Rules:       []string{"CMP4", "OPS1", "OPS2", "OPS3", "OPS4", "OPS5", "CMP5", "NORM1"},
			Explanation: "Decides structural clauses of C16: every operand of the comparison is a document value or has passed through Normalize, which is the only mechanism behind 'a literal yields the same result whatever Go numeric type it was supplied as' (CMP4, CMP5); every constructed operator has an evaluation case and routed operators are covered by the inner switch (OPS1); the Go type each builder stores is the type the evaluator asserts (OPS2); Neq and NotExists are defined as Not() of Eq and Exists on the same arguments (OPS3); BinaryCriteria/NotCriteria.Satisfy, abstractly evaluated for every combination of operand results, return the And/Or/Not truth tables on every path, and Gt/GtEq/Lt/LtEq/Eq apply the right relation to the three-way comparison result (OPS4: these finite tables are decided completely); the criteria used for filtering is the caller's criteria with literals normalised, not a rewritten tree (NORM1); In, Contains, Eq and Exists follow their definitions for every equality pattern between the listed operands and the document values, for operand lists and arrays of length 1 and 2 (OPS5, bounded).",
			NotDecided:  "In/Contains beyond operand lists and arrays of length 2 (OPS5 is bounded), Like (regular expressions), the absent-field-as-nil convention of the ordering operators. The truth tables of And/Or/Not and the relation each ordering operator applies to the comparison result ARE decided (OPS4, by abstract evaluation over all operand outcomes).",
			Assumptions: commonAssumptions,
		},
		"C17": {
			Technique:   tSSA + "key-template analysis of seek targets and scan bounds, error and callback-loop rules in the range index",
			Rules:       []string{"KEY1~^index\\.", "KEY2", "KEY3", "KEY5", "RNG1", "RNG2", "PLAN9", "ALIAS1", "ERR1~^index\\.", "ERR3~^index\\."},
			Explanation: "Decides structural clauses of C17: a range scan or full iteration is bounded by a prefix that covers exactly the index's own entries, add and remove use one layout (KEY1-KEY3); specialised on reverse = true, every seek target carries the 0xFF upper sentinel, without which an inclusive upper bound loses its entries in descending scans (KEY5); seek and item errors are propagated (ERR1); the scan stops when the consumer asks and the stop does not escape (ERR3).",
			NotDecided:  "Bound arithmetic: inclusive/exclusive ends, emptiness and intersection of ranges over values, order of the yielded ids.",
			Assumptions: commonAssumptions,
		},
		"C18": {
			Technique:   tSSA + "reflect.Kind switch table extraction and return-type classification of Normalize",
			Rules:       []string{"CMP5", "CMP6", "CMP7", "IMM2~global"},
			Explanation: "Decides structural clauses of C18: Normalize's kind switch has a case for every integer width, both floats, string, bool, struct, map, slice and array, and the value returned under each case has the canonical static type (signed->int64, unsigned->uint64, floats->float64, struct/map->map[string]interface{}, slice/array->[]interface{}); every other return is nil or a pass-through pinned by clover's own tests; Document.Set touches the document only when normalisation succeeded (an unsupported value leaves it unchanged) (CMP5); whether an embedded field is flattened is decided by Anonymous and by its normalised value being an object, nothing else (CMP6); times and pointers to times normalise to time.Time (CMP7); no package-level variable is written or used as a run-time cache, so conversion is a function of its input alone (IMM2, the 'deterministically' clause).",
			NotDecided:  "Idempotence, Set/Get/Has path laws, struct round trips, pointer following (DESIGN §6 lists a pointer-to-time defect out of reach).",
			Assumptions: commonAssumptions,
		},
		"C19": {
			Technique:   tSSA + "read-operation transaction rule, one-transaction rule for the import composite, guard and error rules",
			Rules:       []string{"TX4~ExportCollection", "TX3~(ImportCollection|ExportCollection)", "GUARD1~(ImportCollection|HasCollection|IterateDocs)", "ERR1~(ImportCollection|ExportCollection|insertDocs|createCollection)", "IMP1", "EMPTY1"},
			Explanation: "Decides structural clauses of C19: ExportCollection reaches only read-only transactions, so it cannot modify the source (TX4); ImportCollection is one write transaction that creates and fills the collection, so a failing import (existing name, invalid document, store error) commits nothing (TX3, with TX1/TX2 through C04); the existence check comes first and no error on the way is dropped (GUARD1, ERR1).",
			NotDecided:  "Value equality after JSON typing; file-system failures while writing the export file.",
			Assumptions: commonAssumptions,
		},
		"C20": {
			Technique:   tSSA + "unchecked-assertion/visitor-return agreement, nil-dereference guards, type-tag abstract interpretation for dispatch panics, explicit panic inventory, transaction leak rules",
			Rules:       []string{"VIS1", "NIL1", "NIL2", "PLAN8", "OPS1", "OPS2", "CMP3", "CMP4", "CMP5", "PANIC1", "PANIC2", "TX1", "TX3~no-nested-transaction"},
			Explanation: "Decides structural clauses of C20: no visitor returns a value its callers' unchecked assertions reject (VIS1); no (nil, err) result is dereferenced before the error test (NIL1); no constructible operator falls into a panic or a mismatching assertion (OPS1, OPS2); the type dispatch of Compare/OrderedCode reaches no failing assertion for any pair of canonical types and only normalised operands arrive (CMP3, CMP4, CMP5); every explicit panic site is tied to the rule that makes it unreachable (PANIC1); no transaction is leaked or nested, the two ways to block for ever (TX1, TX3).",
			NotDecided:  "Absence of every runtime panic (index/slice bounds inside dependencies, the regexp engine, a null element in an import file), and behaviour after Close on custom stores.",
			Assumptions: commonAssumptions,
		},
	}
}
