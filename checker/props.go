package main

// Registry of rules and the property -> rules table (DESIGN.md §3, §4).

func registry() map[string]*Rule {
	rules := []*Rule{
		{Name: "TX1", Floor: 10, Run: ruleTX1, Doc: "every transaction opener tests Begin's error and defers Rollback on the same transaction value so that the defer dominates every other use and every exit"},
		{Name: "TX2", Floor: 10, Run: ruleTX2, Doc: "in a write-transaction opener, every return that a store write may precede returns tx.Commit() itself or a provably non-nil error; nothing uses the transaction after Commit"},
		{Name: "TX3", Floor: 15, Run: ruleTX3, Doc: "every exported operation opens at most one write transaction on any path, never in a loop, and never while holding another"},
		{Name: "TX4", Floor: 10, Run: ruleTX4, Doc: "every transaction reachable from a public read operation is Begin(false), or no Commit is reachable from that operation"},
		{Name: "ERR1", Floor: 30, Run: ruleERR1, Doc: "every error-returning call in the library has its error examined or propagated (deferred Rollback/Close cleanups excepted)"},
		{Name: "ERR2", Floor: 10, Run: ruleERR2, Doc: "from a branch on which an error value is known non-nil, no return of a nil error is reachable, except under errors.Is(err, ErrStopIteration | badger.ErrKeyNotFound)"},
		{Name: "ERR3", Floor: 3, Run: ruleERR3, Doc: "every loop that hands elements to an error-returning callback tests the error, leaves the loop when it is non-nil, and translates the stop sentinel into a nil return"},
	}
	m := map[string]*Rule{}
	for _, r := range rules {
		m[r.Name] = r
	}
	return m
}

type Property struct {
	Technique   string
	Rules       []string
	Explanation string
	NotDecided  string
	Assumptions []string
}

var commonAssumptions = []string{
	"collection names, field names and document ids contain no ';' (the properties' own quantifier)",
	"bbolt and badger transactions are atomic, isolated, and discard everything on rollback",
	"user callbacks are opaque: they may mutate the document they receive and return any document",
}

func propertyTable() map[string]*Property {
	return map[string]*Property{
		"C04": {
			Technique:   "static analysis: SSA dominance + effect summaries (transaction release/commit discipline, error-flow rules)",
			Rules:       []string{"TX1", "TX2", "TX3", "ERR1", "ERR2", "ERR3"},
			Explanation: "Decides structural clauses of C04 on every path of the current source: every transaction is released on every exit (TX1, no wedged handle), no store effect is acknowledged without Commit and Commit is the last act (TX2), no public operation spans two write transactions so no committed prefix can be left behind (TX3), and no store/plan error is dropped or converted into success (ERR1-ERR3).",
			NotDecided:  "The stores' own rollback semantics (trusted); enumeration of the k-th failing store call at run time; errors inside bbolt/badger.",
			Assumptions: commonAssumptions,
		},
	}
}
