package main

// Registry of rules and the property -> rules table (DESIGN.md §3, §4).

func registry() map[string]*Rule {
	rules := []*Rule{
		{Name: "TX1", Floor: 10, Run: ruleTX1, Doc: "every transaction opener tests Begin's error and defers Rollback on the same transaction value so that the defer dominates every other use and every exit"},
		{Name: "TX2", Floor: 10, Run: ruleTX2, Doc: "in a write-transaction opener, every return that a store write may precede returns tx.Commit() itself or a provably non-nil error; nothing uses the transaction after Commit"},
		{Name: "TX3", Floor: 15, Run: ruleTX3, Doc: "every exported operation opens at most one write transaction on any path, never in a loop, and never while holding another"},
		{Name: "TX4", Floor: 10, Run: ruleTX4, Doc: "every transaction reachable from a public read operation is Begin(false), or no Commit is reachable from that operation"},
		{Name: "ERR1", Floor: 30, Run: ruleERR1, Doc: "every error-returning call in the library has its error examined or propagated (deferred Rollback/Close cleanups excepted)"},
		{Name: "ERR2", Floor: 10, Run: ruleERR2, Doc: "from a branch on which an error value is known non-nil, no return of a nil error is reachable, except under errors.Is(err, ErrStopIteration | badger.ErrKeyNotFound)"},
		{Name: "ERR3", Floor: 3, Run: ruleERR3, Doc: "every loop that hands elements to an error-returning callback tests the error, leaves the loop when it is non-nil, and translates the stop sentinel into a nil return"},
		{Name: "KEY1", Floor: 6, Run: ruleKEY1, Doc: "every key template used as a scan bound (Seek / HasPrefix / TrimPrefix) ends in a literal delimiter or a self-delimiting encoding, never in a name"},
		{Name: "KEY2", Floor: 8, Run: ruleKEY2, Doc: "key layouts are pairwise distinct, every variable part is ';'-terminated, and each scan bound covers exactly one layout"},
		{Name: "KEY3", Floor: 5, Run: ruleKEY3, Doc: "per key layout: what is read or deleted is also written under the identical layout, and what is written is read or scanned"},
		{Name: "KEY4", Floor: 2, Run: ruleKEY4, Doc: "in index keys the type rank precedes the encoded value, is delimited, and both derive from the same value"},
		{Name: "VIS1", Floor: 8, Run: ruleVIS1, Doc: "every value a criteria visitor returns satisfies every unchecked type assertion made on that visitor's results; nil only under the visitor's error-flag idiom with every assertion guarded"},
		{Name: "NIL1", Floor: 8, Run: ruleNIL1, Doc: "the pointer result of a (ptr, error) function that can return (nil, err) is dereferenced only behind the err == nil / ptr != nil test"},
		{Name: "OPS1", Floor: 8, Run: ruleOPS1, Doc: "every operator constant the library constructs has a case in UnaryCriteria.Satisfy, and operators routed to a helper are covered by its inner switch"},
		{Name: "OPS2", Floor: 3, Run: ruleOPS2, Doc: "for each operator, the static type the builders store in Value equals the type the evaluator asserts unchecked"},
		{Name: "PANIC1", Floor: 3, Run: rulePANIC1, Doc: "every explicit panic site is tied to the rule that makes it unreachable; a new one is undecided"},
		{Name: "IDX1", Floor: 4, Run: ruleIDX1, Doc: "every document-record write is dominated by index additions for the same document, every document-record delete by index removals, over the index set built from the catalog metadata of the same transaction"},
		{Name: "IDX2", Floor: 2, Run: ruleIDX2, Doc: "the document passed to a user updater is not read afterwards to locate the old index entries"},
		{Name: "IDX3", Floor: 3, Run: ruleIDX3, Doc: "the collection counter changes only with evidence (len of the documents saved here; a successful key lookup; a counter incremented next to each delete) and the metadata is written back on every success path"},
		{Name: "IDX4", Floor: 6, Run: ruleIDX4, Doc: "no consumer of a live scan performs destructive store writes (snapshot-then-apply); insert-only writes only under a criteria-less NewQuery scan; the updater runs at loop depth <= 1"},
		{Name: "ID1", Floor: 3, Run: ruleID1, Doc: "a document record is written under a key built from its own ObjectId(), or behind an equality test between its ObjectId() and the id the key was built from"},
		{Name: "ID2", Floor: 4, Run: ruleID2, Doc: "Tx.Set of a document is reached only after document.Validate accepted it; every save is behind a nil test of Tx.Get on the same key or saves scan-produced documents"},
		{Name: "ID3", Floor: 1, Run: ruleID3, Doc: "a generated _id is assigned only when _id is absent or empty"},
		{Name: "PLAN1", Floor: 4, Run: rulePLAN1, Doc: "every candidate an input node emits is guarded by filter == nil || filter.Satisfy(doc) on the same document, and every input node is built with filter = Criteria() of the query being planned"},
		{Name: "PLAN2", Floor: 2, Run: rulePLAN2, Doc: "Range.Intersect is reached only where the visited node is known to be LogicalAnd; a range visitor returns no range for a non-conjunction"},
		{Name: "PLAN3", Floor: 5, Run: rulePLAN3, Doc: "the negation push-down never returns an unvisited child, and the range visitor derives nothing under Not"},
		{Name: "PLAN4", Floor: 2, Run: rulePLAN4, Doc: "in the plan builder no SetNext edge leads from the skip/limit node to a sort node or out of the consumer node"},
		{Name: "PLAN5", Floor: 2, Run: rulePLAN5, Doc: "every value stored into Query.sortOpts is nil, copied from a query, or built only from literals with Direction = +-1"},
		{Name: "PLAN6", Floor: 8, Run: rulePLAN6, Doc: "the negation table (Not over comparison -> complement) and the comparison->range table equal the mathematically fixed tables, row by row"},
		{Name: "CMP1", Floor: 30, Run: ruleCMP1, Doc: "TypeId, evaluated by type-tag abstract interpretation for the nine canonical types, yields single-digit ranks in the order nil < number < string < object < array < bool < time (numbers share one rank)"},
		{Name: "CMP2", Floor: 4, Run: ruleCMP2, Doc: "functions reachable from the comparators contain no subtraction of unbounded integers and no unguarded 64-bit sign conversion"},
		{Name: "CMP3", Floor: 90, Run: ruleCMP3, Doc: "for every pair of canonical dynamic types, abstract evaluation of Compare ends in a return on every path (no failing unchecked assertion, no panic) and different classes are ordered by rank alone; OrderedCode and IsNumber handle every canonical type"},
		{Name: "CMP4", Floor: 4, Run: ruleCMP4, Doc: "in package query every operand of internal.Compare is a document value or a result of internal.Normalize"},
		{Name: "CMP5", Floor: 20, Run: ruleCMP5, Doc: "Normalize's kind switch covers every numeric width, string, bool, struct, map, slice and array and returns the canonical type for each; every return is canonical, nil, or a listed pass-through; Document.Set touches the document only when normalisation succeeded"},
		{Name: "COD1", Floor: 3, Run: ruleCOD1, Doc: "the time wrapper is unreachable from Decode, the unwrapper from Encode, and each transformer recurses into itself"},
		{Name: "COD2", Floor: 3, Run: ruleCOD2, Doc: "the library uses only msgpack.Marshal/Unmarshal/RegisterExt (default, type-preserving configuration)"},
		{Name: "ADP1", Floor: 1, Run: ruleADP1, Doc: "every store.Tx.Get implementation maps the backend's not-found outcome to (nil, nil) before the generic error test"},
		{Name: "ADP2", Floor: 8, Run: ruleADP2, Doc: "no method of a store.Cursor implementation branches on the value component of the backend cursor position or of store.Item"},
	}
	m := map[string]*Rule{}
	for _, r := range rules {
		m[r.Name] = r
	}
	return m
}

type Property struct {
	Technique   string
	Rules       []string
	Explanation string
	NotDecided  string
	Assumptions []string
}

var commonAssumptions = []string{
	"collection names, field names and document ids contain no ';' (the properties' own quantifier)",
	"bbolt and badger transactions are atomic, isolated, and discard everything on rollback",
	"user callbacks are opaque: they may mutate the document they receive and return any document",
}

func propertyTable() map[string]*Property {
	return map[string]*Property{
		"C04": {
			Technique:   "static analysis: SSA dominance + effect summaries (transaction release/commit discipline, error-flow rules)",
			Rules:       []string{"TX1", "TX2", "TX3", "ERR1", "ERR2", "ERR3"},
			Explanation: "Decides structural clauses of C04 on every path of the current source: every transaction is released on every exit (TX1, no wedged handle), no store effect is acknowledged without Commit and Commit is the last act (TX2), no public operation spans two write transactions so no committed prefix can be left behind (TX3), and no store/plan error is dropped or converted into success (ERR1-ERR3).",
			NotDecided:  "The stores' own rollback semantics (trusted); enumeration of the k-th failing store call at run time; errors inside bbolt/badger.",
			Assumptions: commonAssumptions,
		},
	}
}
