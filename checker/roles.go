package main

import (
	"go/token"
	"go/types"
	"sort"

	"golang.org/x/tools/go/ssa"
)

// Roles: functions and key layouts discovered from the repository by what
// they do, not by what they are called.
type Roles struct {
	DocWriters  []*ssa.Function // functions that Tx.Set an encoded document
	MetaWriters []*ssa.Function // functions that Tx.Set JSON-encoded collection metadata
	MetaReaders []*ssa.Function // functions that Tx.Get a key of the catalog layout
	DocSkel     string          // key layout of document records
	CatalogSkel string          // key layout of the collection catalog
	IndexSkel   string          // key layout of index entries
	// DocWrappers: functions that hand two of their own parameters (document, key) to a
	// document writer or to another wrapper; value: the indexes of those parameters.
	// The obligations on a save are checked at the call sites of the outermost wrapper.
	DocWrappers map[*ssa.Function][2]int
	model       *keyModel
}

func (c *Ctx) Roles() *Roles {
	if c.roles != nil {
		return c.roles
	}
	r := &Roles{}
	c.roles = r
	r.model = c.keyModel()
	isW := map[*ssa.Function]bool{}
	isMW := map[*ssa.Function]bool{}
	for _, s := range r.model.sinks {
		if s.Op != "Set" {
			continue
		}
		val := s.Call.Common().Args[1]
		for _, o := range origins(val) {
			ex, ok := o.(*ssa.Extract)
			if !ok {
				continue
			}
			cl, ok := ex.Tuple.(*ssa.Call)
			if !ok {
				continue
			}
			if c.isDocEncode(cl) {
				if !isW[s.Fn] {
					isW[s.Fn] = true
					r.DocWriters = append(r.DocWriters, s.Fn)
				}
				for _, t := range s.Tmpls {
					if !t.onlyOpaque() && !t.isNil() {
						r.DocSkel = t.skeleton()
					}
				}
			}
			if c.isJSONEncode(cl, 0) {
				if !isMW[s.Fn] {
					isMW[s.Fn] = true
					r.MetaWriters = append(r.MetaWriters, s.Fn)
				}
				for _, t := range s.Tmpls {
					if !t.onlyOpaque() && !t.isNil() {
						r.CatalogSkel = t.skeleton()
					}
				}
			}
		}
		if isNilConst(val) {
			for _, t := range s.Tmpls {
				if !t.onlyOpaque() && !t.isNil() {
					r.IndexSkel = t.skeleton()
				}
			}
		}
	}
	r.DocWrappers = map[*ssa.Function][2]int{}
	for changed := true; changed; {
		changed = false
		for _, fn := range c.LibFuncs {
			if fn.Parent() != nil || isW[fn] {
				continue
			}
			if _, done := r.DocWrappers[fn]; done {
				continue
			}
			allCalls(fn, func(call ssa.CallInstruction) {
				g := staticCallee(call)
				if g == nil {
					return
				}
				g = c.declared(g)
				di, ki := -1, -1
				if isW[g] {
					di, ki = c.docParamIndex(g), c.keyParamIndex(g)
				} else if w, ok := r.DocWrappers[g]; ok {
					di, ki = w[0], w[1]
				}
				args := call.Common().Args
				if di < 0 || ki < 0 || di >= len(args) || ki >= len(args) {
					return
				}
				pd, pk := -1, -1
				if p, ok := args[di].(*ssa.Parameter); ok {
					pd = paramIndex(fn, p)
				}
				for _, og := range origins(stripConv(args[ki])) {
					if p, ok := stripConv(og).(*ssa.Parameter); ok {
						pk = paramIndex(fn, p)
					}
				}
				if pd >= 0 && pk >= 0 {
					r.DocWrappers[fn] = [2]int{pd, pk}
					changed = true
				}
			})
		}
	}
	isMR := map[*ssa.Function]bool{}
	for _, s := range r.model.sinks {
		if s.Op != "Get" || r.CatalogSkel == "" {
			continue
		}
		for _, t := range s.Tmpls {
			if t.skeleton() == r.CatalogSkel && !isMR[s.Fn] {
				isMR[s.Fn] = true
				r.MetaReaders = append(r.MetaReaders, s.Fn)
			}
		}
	}
	return r
}

func (r *Roles) isDocWriter(f *ssa.Function) bool {
	for _, w := range r.DocWriters {
		if w == f {
			return true
		}
	}
	return false
}

func (r *Roles) isMetaWriter(f *ssa.Function) bool {
	for _, w := range r.MetaWriters {
		if w == f {
			return true
		}
	}
	return false
}

func (r *Roles) isMetaReader(f *ssa.Function) bool {
	for _, w := range r.MetaReaders {
		if w == f {
			return true
		}
	}
	return false
}

// sinkHasSkel: the sink's key can be of the given layout.
func sinkHasSkel(s *keySink, skel string) bool {
	for _, t := range s.Tmpls {
		if t.skeleton() == skel {
			return true
		}
	}
	return false
}

// docParamIndex: index of the *Document parameter of a document writer.
func (c *Ctx) docParamIndex(f *ssa.Function) int {
	for i, p := range f.Params {
		if c.isDocPtr(p.Type()) {
			return i
		}
	}
	return -1
}

// keyParamIndex: index of the []byte/string key parameter.
func (c *Ctx) keyParamIndex(f *ssa.Function) int {
	for i, p := range f.Params {
		if isStringOrBytes(p.Type()) {
			return i
		}
	}
	return -1
}

// calleeEff: effects of the callee only (not of closures passed as arguments).
func (c *Ctx) calleeEff(call ssa.CallInstruction) Eff {
	var e Eff
	cc := call.Common()
	switch {
	case c.isInvokeOf(call, "store", "Tx", "Get"):
		e |= EffTxGet
	case c.isInvokeOf(call, "store", "Tx", "Set"):
		e |= EffTxSet
	case c.isInvokeOf(call, "store", "Tx", "Delete"):
		e |= EffTxDelete
	case c.isInvokeOf(call, "store", "Tx", "Cursor"):
		e |= EffCursor
	case c.isInvokeOf(call, "index", "Index", "Add"):
		e |= EffIdxAdd
	case c.isInvokeOf(call, "index", "Index", "Remove"):
		e |= EffIdxRemove
	case c.isInvokeOf(call, "index", "Index", "Drop"):
		e |= EffIdxDrop
	}
	if cc.IsInvoke() {
		if !c.methodIsStoreIface(cc.Method) {
			for _, f := range c.libImpls(cc.Method) {
				e |= c.eff(f)
			}
		}
	} else if g := staticCallee(call); g != nil {
		g = c.declared(g)
		if c.IsLib(g) {
			e |= c.eff(g)
		}
	} else {
		for _, g := range c.localClosureTargets(call) {
			e |= c.eff(g)
		}
	}
	return e
}

// derivesFrom: value a is d, shares an origin with d, or is the result of a
// call that takes d as receiver/argument (doc.ObjectId(), doc.Get(f)).
func derivesFrom(a, d ssa.Value) bool {
	if a == d || sameOrigin(a, d) {
		return true
	}
	for _, o := range origins(a) {
		var call *ssa.Call
		switch x := o.(type) {
		case *ssa.Call:
			call = x
		case *ssa.Extract:
			call, _ = x.Tuple.(*ssa.Call)
		}
		if call == nil {
			continue
		}
		for _, arg := range call.Common().Args {
			if arg == d || sameOrigin(arg, d) {
				return true
			}
		}
		if call.Common().IsInvoke() && (call.Common().Value == d || sameOrigin(call.Common().Value, d)) {
			return true
		}
	}
	return false
}

var _ types.Type

// metaStruct: the collection catalog record, found by role: the named struct of
// the root package with a field of type []index.Info.
func (c *Ctx) metaStruct() *types.Named {
	sp := c.LibPkgs[c.ModPath]
	if sp == nil {
		return nil
	}
	var names []string
	for n := range sp.Members {
		names = append(names, n)
	}
	sort.Strings(names)
	for _, n := range names {
		tn, ok := sp.Members[n].(*ssa.Type)
		if !ok {
			continue
		}
		named, ok := tn.Type().(*types.Named)
		if !ok {
			continue
		}
		st, ok := named.Underlying().(*types.Struct)
		if !ok {
			continue
		}
		for i := 0; i < st.NumFields(); i++ {
			if sl, ok := st.Field(i).Type().Underlying().(*types.Slice); ok && c.libNamedIs(sl.Elem(), "index", "Info") {
				return named
			}
		}
	}
	return nil
}

// isMetaPtr: t is a pointer to the catalog record.
func (c *Ctx) isMetaPtr(t types.Type) bool {
	p, ok := t.(*types.Pointer)
	if !ok {
		return false
	}
	m := c.metaStruct()
	return m != nil && types.Identical(p.Elem(), m)
}

// paramSources: the values a parameter receives at the static library call
// sites of its function (transitively through parameters, to depth 4). A
// parameter of a function without library callers yields itself.
func (c *Ctx) paramSources(v ssa.Value, depth int) []ssa.Value {
	var out []ssa.Value
	for _, og := range origins(v) {
		p, ok := og.(*ssa.Parameter)
		if !ok || depth > 4 {
			out = append(out, og)
			continue
		}
		fn := p.Parent()
		pi := paramIndex(fn, p)
		sites := c.staticCallers(fn)
		if len(sites) == 0 || pi < 0 || fn.Parent() != nil {
			out = append(out, og)
			continue
		}
		for _, s := range sites {
			args := s.Common().Args
			if pi < len(args) {
				out = append(out, c.paramSources(args[pi], depth+1)...)
			}
		}
	}
	return out
}

// callsMetaWriter: the call's static callee is, or statically reaches, a catalog writer.
func (c *Ctx) callsMetaWriter(call ssa.CallInstruction) bool {
	g := staticCallee(call)
	if g == nil {
		return false
	}
	g = c.declared(g)
	if !c.IsLib(g) {
		return false
	}
	r := c.Roles()
	if r.isMetaWriter(g) {
		return true
	}
	for f := range c.staticReach(g) {
		if r.isMetaWriter(f) {
			return true
		}
	}
	return false
}

// deepOrigins is origins made interprocedural for thin wrappers: a parameter
// is followed to the arguments of the static call sites of its function, the
// result of a static call to a library function to the values that function
// returns (result i of a tuple through its Extract). Depth-bounded; values
// that cannot be followed are returned as they are.
func (c *Ctx) deepOrigins(v ssa.Value) []ssa.Value {
	seen := map[ssa.Value]bool{}
	var out []ssa.Value
	var walk func(v ssa.Value, depth int)
	walk = func(v ssa.Value, depth int) {
		for _, og := range c.paramSources(v, 0) {
			if seen[og] {
				continue
			}
			seen[og] = true
			var call *ssa.Call
			idx := 0
			switch x := og.(type) {
			case *ssa.Call:
				call = x
			case *ssa.Extract:
				if cl, ok := x.Tuple.(*ssa.Call); ok {
					call, idx = cl, x.Index
				}
			}
			if call == nil || depth > 3 {
				out = append(out, og)
				continue
			}
			g := staticCallee(call)
			if g == nil || !c.IsLib(g) || len(g.Blocks) == 0 {
				out = append(out, og)
				continue
			}
			n := 0
			for _, ret := range returnsOf(g) {
				if rv, ok := returnedValue(ret, idx); ok {
					n++
					walk(rv, depth+1)
				}
			}
			if n == 0 {
				out = append(out, og)
			}
		}
	}
	walk(v, 0)
	return out
}

// existenceEdges: the conditional edges of fn on which a probe of a record key
// accepted by matchKey is known to have found (exists) or not found (absent) a
// record. A probe is Tx.Get(k) tested against nil, or a static call to a
// library helper that passes its parameter to Tx.Get and returns the outcome
// of that nil test as a boolean (`return value != nil, err`).
func (c *Ctx) existenceEdges(fn *ssa.Function, matchKey func(k ssa.Value) bool) (exists, absent []edge) {
	return c.existenceEdgesH(fn, matchKey, nil)
}

// existenceEdgesH additionally understands a helper that probes a key built from its own
// parameters and reports the outcome through its error result (load(tx, coll, id) (doc, error):
// every nil-error return lies behind the non-nil test of Tx.Get). matchIn decides whether the
// key probed inside the helper, with the helper's parameters bound to the call's arguments, is
// the key of interest (nil: matchKey is asked about the helper's own key expression).
func (c *Ctx) existenceEdgesH(fn *ssa.Function, matchKey func(k ssa.Value) bool, matchIn func(k ssa.Value, bind map[*ssa.Parameter]ssa.Value) bool) (exists, absent []edge) {
	allCalls(fn, func(ci ssa.CallInstruction) {
		call, ok := ci.(*ssa.Call)
		if !ok {
			return
		}
		if g := staticCallee(call); g != nil && c.IsLib(c.declared(g)) && errResultIndex(g.Signature) >= 0 && !c.isInvokeOf(call, "store", "Tx", "Get") {
			g = c.declared(g)
			ei := errResultIndex(g.Signature)
			bind := map[*ssa.Parameter]ssa.Value{}
			for i, p := range g.Params {
				if i < len(call.Common().Args) {
					bind[p] = call.Common().Args[i]
				}
			}
			allCalls(g, func(gi ssa.CallInstruction) {
				gc, ok := gi.(*ssa.Call)
				if !ok || !c.isInvokeOf(gc, "store", "Tx", "Get") {
					return
				}
				k := gc.Common().Args[0]
				if matchIn != nil {
					if !matchIn(k, bind) {
						return
					}
				} else if !matchKey(k) {
					return
				}
				var gex, gab []edge
				for _, v := range resultValues(gc, 0) {
					gex = append(gex, nonNilEdges(g, sameValue(v))...)
					gab = append(gab, nilEdges(g, sameValue(v))...)
				}
				allEx, allAb, n := true, true, 0
				for _, ret := range returnsOf(g) {
					if ev, ok := returnedValue(ret, ei); ok && c.provablyNonNil(g, ev, ret.Block()) {
						continue
					}
					n++
					if !guardedBy(g, ret.Block(), gex) {
						allEx = false
					}
					if !guardedBy(g, ret.Block(), gab) {
						allAb = false
					}
				}
				if n == 0 {
					return
				}
				for _, rv := range resultValues(call, ei) {
					if allEx {
						exists = append(exists, nilEdges(fn, sameValue(rv))...)
					}
					if allAb {
						absent = append(absent, nilEdges(fn, sameValue(rv))...)
					}
				}
			})
		}
		if c.isInvokeOf(call, "store", "Tx", "Get") {
			if !matchKey(call.Common().Args[0]) {
				return
			}
			for _, v := range resultValues(call, 0) {
				exists = append(exists, nonNilEdges(fn, sameValue(v))...)
				absent = append(absent, nilEdges(fn, sameValue(v))...)
			}
			return
		}
		g := staticCallee(call)
		if g == nil || !c.IsLib(c.declared(g)) {
			return
		}
		g = c.declared(g)
		// which parameter is probed, which result reports it, and with which polarity
		for ri := 0; ri < g.Signature.Results().Len(); ri++ {
			if bt, ok := g.Signature.Results().At(ri).Type().Underlying().(*types.Basic); !ok || bt.Kind() != types.Bool {
				continue
			}
			pi, trueMeansExists, found := -1, false, false
			for _, ret := range returnsOf(g) {
				rv, ok := returnedValue(ret, ri)
				if !ok {
					continue
				}
				for _, og := range origins(rv) {
					x, tnil, ok := nilTest(og)
					if !ok {
						continue
					}
					for _, xo := range origins(x) {
						ex, ok := xo.(*ssa.Extract)
						if !ok {
							continue
						}
						gc, ok := ex.Tuple.(*ssa.Call)
						if !ok || !c.isInvokeOf(gc, "store", "Tx", "Get") {
							continue
						}
						for _, ko := range origins(stripConv(gc.Common().Args[0])) {
							if p, ok := stripConv(ko).(*ssa.Parameter); ok {
								pi, trueMeansExists, found = paramIndex(g, p), !tnil, true
							}
						}
					}
				}
			}
			if !found || pi < 0 || pi >= len(call.Common().Args) || !matchKey(call.Common().Args[pi]) {
				continue
			}
			var vals []ssa.Value
			if g.Signature.Results().Len() == 1 {
				vals = []ssa.Value{call}
			} else {
				for _, e := range extractsOf(call, ri) {
					vals = append(vals, e)
				}
			}
			ifEdges(fn, func(cond ssa.Value, e edge) {
				neg := false
				for {
					if u, ok := cond.(*ssa.UnOp); ok && u.Op == token.NOT {
						cond, neg = u.X, !neg
						continue
					}
					break
				}
				for _, v := range vals {
					if cond == v {
						val := e.Branch != neg
						if val == trueMeansExists {
							exists = append(exists, e)
						} else {
							absent = append(absent, e)
						}
					}
				}
			})
		}
	})
	return
}

// sameKeyExpr: expression a (in a helper's frame, its parameters bound by bind) denotes the same
// key as b (in the caller's frame): the same value, or the same pure library function applied to
// pairwise equal arguments, or equal constants.
func (c *Ctx) sameKeyExpr(a, b ssa.Value, bind map[*ssa.Parameter]ssa.Value, depth int) bool {
	if a == nil || b == nil || depth > 6 {
		return false
	}
	a, b = stripConv(a), stripConv(b)
	if p, ok := a.(*ssa.Parameter); ok {
		if v, ok := bind[p]; ok {
			v = stripConv(v)
			return v == b || sameOrigin(v, b) || c.sameKeyExpr(v, b, nil, depth+1)
		}
	}
	if a == b || sameOrigin(a, b) {
		return true
	}
	if ca, ok := a.(*ssa.Const); ok {
		cb, ok := b.(*ssa.Const)
		return ok && ca.Value != nil && cb.Value != nil && ca.Value.ExactString() == cb.Value.ExactString()
	}
	for _, oa := range origins(a) {
		for _, ob := range origins(b) {
			ka, okA := oa.(*ssa.Call)
			kb, okB := ob.(*ssa.Call)
			if !okA || !okB {
				continue
			}
			ga, gb := staticCallee(ka), staticCallee(kb)
			if ga == nil || ga != gb || len(ka.Call.Args) != len(kb.Call.Args) {
				continue
			}
			if !c.IsLib(c.declared(ga)) && !(ga.Pkg != nil && (ga.Pkg.Pkg.Path() == "fmt" || ga.Pkg.Pkg.Path() == "strings")) {
				continue
			}
			all := true
			for i := range ka.Call.Args {
				if !c.sameKeyExpr(ka.Call.Args[i], kb.Call.Args[i], bind, depth+1) {
					all = false
				}
			}
			if all {
				return true
			}
		}
	}
	// a + b
	if ba, ok := a.(*ssa.BinOp); ok {
		if bb, ok := b.(*ssa.BinOp); ok && ba.Op == bb.Op {
			return c.sameKeyExpr(ba.X, bb.X, bind, depth+1) && c.sameKeyExpr(ba.Y, bb.Y, bind, depth+1)
		}
	}
	return false
}

// isJSONEncode: cl is encoding/json.Marshal, or a call of a library function that returns what such a call
// returned (encodeMetadata(meta) ([]byte, error) { return json.Marshal(meta) }).
func (c *Ctx) isJSONEncode(cl *ssa.Call, depth int) bool {
	if calleeFullName(cl) == "encoding/json.Marshal" {
		return true
	}
	if depth > 2 {
		return false
	}
	g := staticCallee(cl)
	if g == nil || !c.IsLib(c.declared(g)) {
		return false
	}
	g = c.declared(g)
	for _, ret := range returnsOf(g) {
		rv, has := returnedValue(ret, 0)
		if !has {
			continue
		}
		for _, og := range origins(rv) {
			switch x := og.(type) {
			case *ssa.Extract:
				if inner, ok := x.Tuple.(*ssa.Call); ok && c.isJSONEncode(inner, depth+1) {
					return true
				}
			case *ssa.Call:
				if c.isJSONEncode(x, depth+1) {
					return true
				}
			}
		}
	}
	return false
}
