package main

// Roles: functions and key families discovered from the repository by what
// they do, not by name (filled lazily by roles.go helpers).
type Roles struct {
	done bool
}
