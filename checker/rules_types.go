package main

import (
	"fmt"
	"go/constant"
	"go/token"
	"go/types"
	"sort"
	"strings"

	"golang.org/x/tools/go/ssa"
)

// Rules about types and conversions (round q).

// ---------------------------------------------------------------- TXC1

// TXC1: nothing that can fail follows the commit. Once an operation has committed its
// transaction (tx.Commit, or a nested public write operation that commits), an error it returns
// can only be that commit's: a later step whose failure is handed back (the written document
// unmarshalled into the caller's struct) reports a failure for a write that is durable.
func ruleTXC1(c *Ctx) []Ob {
	o := newObs(c, "TXC1")
	n, bad := 0, 0
	// commitInfo: does g commit a transaction - always (flag -1), or only when its boolean parameter
	// number flag is true (a helper `withTx(update bool, fn)` that commits update transactions only)
	type commitInfo struct {
		commits bool
		flag    int
	}
	memo := map[*ssa.Function]*commitInfo{}
	var infoOf func(g *ssa.Function, depth int) *commitInfo
	// commitsAt: the call ci (to a library function of the root package) commits
	commitsAt := func(ci ssa.CallInstruction, depth int) (bool, int) {
		if c.isInvokeOf(ci, "store", "Tx", "Commit") {
			return true, -1
		}
		h := staticCallee(ci)
		if h == nil || !c.IsLib(c.declared(h)) || c.pkgRel(c.declared(h)) != "" {
			return false, -1
		}
		hi := infoOf(c.declared(h), depth+1)
		if !hi.commits {
			return false, -1
		}
		if hi.flag < 0 {
			return true, -1
		}
		if hi.flag < len(ci.Common().Args) {
			a := ci.Common().Args[hi.flag]
			if k, ok := a.(*ssa.Const); ok && k.Value != nil && k.Value.Kind() == constant.Bool {
				return constant.BoolVal(k.Value), -1
			}
			if p, ok := a.(*ssa.Parameter); ok {
				return true, paramIndex(p.Parent(), p)
			}
		}
		return true, -1
	}
	infoOf = func(g *ssa.Function, depth int) *commitInfo {
		if ci, ok := memo[g]; ok {
			return ci
		}
		info := &commitInfo{flag: -1}
		memo[g] = info
		if depth > 3 {
			return info
		}
		always := false
		flags := map[int]bool{}
		allCalls(g, func(ci ssa.CallInstruction) {
			if _, isDefer := ci.(*ssa.Defer); isDefer {
				return
			}
			cm, fl := commitsAt(ci, depth)
			if !cm {
				return
			}
			if fl >= 0 {
				flags[fl] = true
				return
			}
			// behind a test of a boolean parameter?
			guarded := -1
			for pi, p := range g.Params {
				if bt, ok := p.Type().Underlying().(*types.Basic); !ok || bt.Kind() != types.Bool {
					continue
				}
				p := p
				es := guardEdges(g, func(cond ssa.Value, branch bool) bool { return cond == ssa.Value(p) && branch })
				if len(es) > 0 && guardedBy(g, ci.Block(), es) {
					guarded = pi
				}
			}
			if guarded >= 0 {
				flags[guarded] = true
			} else {
				always = true
			}
		})
		switch {
		case always:
			info.commits = true
		case len(flags) == 1:
			info.commits = true
			for f := range flags {
				info.flag = f
			}
		case len(flags) > 1:
			info.commits = true
		}
		return info
	}
	for _, fn := range c.LibFuncs {
		if c.pkgRel(fn) != "" || fn.Parent() != nil {
			continue
		}
		ei := errResultIndex(fn.Signature)
		if ei < 0 {
			continue
		}
		allCalls(fn, func(ci ssa.CallInstruction) {
			k, ok := ci.(*ssa.Call)
			if !ok {
				return
			}
			isCommit, _ := commitsAt(k, 0)
			if !isCommit {
				return
			}
			n++
			// the failure of the commit itself may be wrapped and reported
			kErr := func(x ssa.Value) bool {
				for _, eo := range origins(x) {
					if eo == ssa.Value(k) {
						return true
					}
					if e2, ok := eo.(*ssa.Extract); ok && e2.Tuple == ssa.Value(k) {
						return true
					}
				}
				return false
			}
			failEdges := nonNilEdges(fn, kErr)
			for _, ret := range returnsOf(fn) {
				if ret.Block() != k.Block() && !reachableFrom(k.Block(), false)[ret.Block()] {
					continue
				}
				rv, has := returnedValue(ret, ei)
				if !has || isNilConst(rv) {
					continue
				}
				for _, og := range origins(rv) {
					var k2 *ssa.Call
					switch x := og.(type) {
					case *ssa.Call:
						k2 = x
					case *ssa.Extract:
						k2, _ = x.Tuple.(*ssa.Call)
					}
					if k2 == nil || k2 == k || !reachesAfter(k, k2) || reachesAfter(k2, k) {
						continue
					}
					if guardedBy(fn, k2.Block(), failEdges) {
						continue // on the path where the commit itself failed
					}
					bad++
					o.add(VIOLATED, fmt.Sprintf("%s/nothing that can fail follows the commit #%d", c.fname(fn), bad), relPath(c, k2.Pos()), "after %s has committed (%s), the function still runs %s and returns its error: the caller is told the operation failed although the write is durable and visible", c.calleeName(k), relPath(c, k.Pos()), c.calleeName(k2))
				}
			}
		})
	}
	if bad == 0 {
		o.add(OK, "library/the commit is the last step that can fail", "-", "%d committing calls inspected: no later call's error is returned", n)
	}
	return o.list
}

// ---------------------------------------------------------------- COD9

// COD9: the walk that renames a document back for encoding/json looks into every kind of
// container the normaliser recurses into. Normalize treats slices AND arrays (and maps and
// structs) of structs; a rename walk whose kind switch has no case for reflect.Array leaves the
// elements of a [N]T under their clover names, and they come back as zero values.
func ruleCOD9(c *Ctx) []Ob {
	o := newObs(c, "COD9")
	norm := c.lookupFunc("internal", "Normalize")
	conv := c.lookupFunc("internal", "Convert")
	if norm == nil || conv == nil {
		o.add(UNDECIDED, "model", "-", "internal.Normalize / internal.Convert not found")
		return softenUndecided(o.list)
	}
	kindsOf := func(fn *ssa.Function) map[int64]bool {
		out := map[int64]bool{}
		for _, b := range fn.Blocks {
			for _, in := range b.Instrs {
				bo, ok := in.(*ssa.BinOp)
				if !ok || bo.Op != token.EQL {
					continue
				}
				for _, pair := range [][2]ssa.Value{{bo.X, bo.Y}, {bo.Y, bo.X}} {
					cl, isCall := pair[0].(*ssa.Call)
					if !isCall || !cl.Call.IsInvoke() || cl.Call.Method == nil || cl.Call.Method.Name() != "Kind" {
						continue
					}
					if k, isK := constInt(pair[1]); isK {
						out[k] = true
					}
				}
			}
		}
		return out
	}
	containers := map[string]int64{}
	for _, name := range []string{"Struct", "Map", "Slice", "Array"} {
		if k, ok := c.reflectKind(name); ok {
			containers[name] = k
		}
	}
	writer := kindsOf(norm)
	// the reader: the function reached from Convert whose kind tests tell containers apart
	var reader *ssa.Function
	for f := range c.staticReach(conv) {
		if c.pkgRel(f) != "internal" || f.Parent() != nil {
			continue
		}
		ks := kindsOf(f)
		cnt := 0
		for _, k := range containers {
			if ks[k] {
				cnt++
			}
		}
		if cnt >= 2 && (reader == nil || c.fname(f) < c.fname(reader)) {
			reader = f
		}
	}
	if reader == nil {
		o.add(INFO, "rename walk", "-", "no function reached from Convert tells the container kinds apart")
		return o.list
	}
	rk := kindsOf(reader)
	var names []string
	for name := range containers {
		names = append(names, name)
	}
	sort.Strings(names)
	for _, name := range names {
		k := containers[name]
		if !writer[k] {
			continue
		}
		key := c.fname(reader) + "/looks into reflect." + name
		if rk[k] {
			o.add(OK, key, relPath(c, reader.Pos()), "the kind the normaliser recurses into has a case in the rename walk")
		} else {
			o.add(VIOLATED, key, relPath(c, reader.Pos()), "internal.Normalize recurses into values of kind %s, but the walk that renames a document back has no case for it: the structs inside such a value keep their clover names, encoding/json does not find them, and they come back as zero values without an error", name)
		}
	}
	return o.list
}

// ---------------------------------------------------------------- EMPTY5

// EMPTY5: the list of documents handed to the JSON encoder by the export is never nil: a nil
// slice is written as `null`, which the import refuses - an empty collection could not be
// imported from its own export.
func ruleEMPTY5(c *Ctx) []Ob {
	o := newObs(c, "EMPTY5")
	n := 0
	var fresh func(v ssa.Value, depth int) (bool, string)
	seenF := map[ssa.Value]bool{}
	fresh = func(v ssa.Value, depth int) (bool, string) {
		if depth > 12 {
			return false, "not followed"
		}
		if seenF[v] {
			return true, "" // around the loop that grows the slice
		}
		seenF[v] = true
		for _, og := range origins(v) {
			switch x := og.(type) {
			case *ssa.MakeSlice:
			case *ssa.Slice:
				if _, isAlloc := x.X.(*ssa.Alloc); !isAlloc {
					if ok, why := fresh(x.X, depth+1); !ok {
						return false, why
					}
				}
			case *ssa.Call:
				if bi, isB := x.Call.Value.(*ssa.Builtin); isB && bi.Name() == "append" {
					if ok, why := fresh(x.Call.Args[0], depth+1); !ok {
						return false, why
					}
					continue
				}
				// a library helper that builds the list
				if h := staticCallee(x); h != nil && c.IsLib(c.declared(h)) && len(c.declared(h).Blocks) > 0 {
					h = c.declared(h)
					allFresh, cnt := true, 0
					for _, ret := range returnsOf(h) {
						if rv, has := returnedValue(ret, 0); has {
							cnt++
							if ok, _ := fresh(rv, depth+1); !ok {
								allFresh = false
							}
						}
					}
					if allFresh && cnt > 0 {
						continue
					}
				}
				return false, "the result of " + calleeFullName(x)
			case *ssa.Const:
				if x.IsNil() {
					return false, "a nil slice (declared without make): written as null when nothing is appended"
				}
			case *ssa.Parameter:
				// a helper's parameter: what its library callers pass
				g := x.Parent()
				sites := c.staticCallers(g)
				pi := paramIndex(g, x)
				if len(sites) == 0 || pi < 0 {
					return false, "the parameter " + x.Name()
				}
				for _, cs := range sites {
					if pi >= len(cs.Common().Args) {
						return false, "the parameter " + x.Name()
					}
					if ok, why := fresh(cs.Common().Args[pi], depth+1); !ok {
						return false, why
					}
				}
			default:
				return false, fmt.Sprintf("%T", og)
			}
		}
		return true, ""
	}
	for _, fn := range c.LibFuncs {
		if c.pkgRel(fn) != "" {
			continue
		}
		allCalls(fn, func(ci ssa.CallInstruction) {
			full := calleeFullName(ci)
			var arg ssa.Value
			switch full {
			case "encoding/json.Marshal", "encoding/json.MarshalIndent":
				arg = ci.Common().Args[0]
			case "(*encoding/json.Encoder).Encode":
				arg = ci.Common().Args[1]
			default:
				return
			}
			v := stripIfaceOnly(arg)
			if _, isSlice := v.Type().Underlying().(*types.Slice); !isSlice {
				return
			}
			n++
			key := c.fname(fn) + "/the list handed to the JSON encoder is not nil"
			seenF = map[ssa.Value]bool{}
			if ok, why := fresh(v, 0); ok {
				o.add(OK, key, relPath(c, ci.Pos()), "made by make() and grown by append")
			} else {
				o.add(VIOLATED, key, relPath(c, ci.Pos()), "the slice encoded here can be nil (%s): encoding/json writes null for it, and the import refuses a file that holds null instead of a list - an empty collection cannot be imported from its own export", why)
			}
		})
	}
	if n == 0 {
		o.add(INFO, "exports", "-", "no function of the root package hands a slice to encoding/json")
	}
	return o.list
}

// ---------------------------------------------------------------- ALIAS5

// ALIAS5: `x[:0]` reuses the memory of x: appending to it overwrites what x holds. The idiom
// is sound for a slice the function made itself; applied to a slice it was handed (a
// []interface{} operand found inside the value to normalise) it rewrites the caller's data in
// place - a query operand shared by several goroutines is written by each of them.
func ruleALIAS5(c *Ctx) []Ob {
	o := newObs(c, "ALIAS5")
	n, bad := 0, 0
	var own func(v ssa.Value, depth int) bool
	seenO := map[ssa.Value]bool{}
	own = func(v ssa.Value, depth int) bool {
		if depth > 12 {
			return false
		}
		if seenO[v] {
			return true
		}
		seenO[v] = true
		for _, og := range origins(v) {
			switch x := og.(type) {
			case *ssa.MakeSlice:
			case *ssa.Slice:
				if _, isAlloc := x.X.(*ssa.Alloc); !isAlloc && !own(x.X, depth+1) {
					return false
				}
			case *ssa.Call:
				if bi, isB := x.Call.Value.(*ssa.Builtin); isB && bi.Name() == "append" {
					if !own(x.Call.Args[0], depth+1) {
						return false
					}
					continue
				}
				return false
			case *ssa.Const:
			default:
				if _, f, _ := fieldLoad(og); f != "" {
					// a buffer kept in a field of the function's own object: ALIAS1 / ADP4 look at those
					continue
				}
				return false
			}
		}
		return true
	}
	for _, fn := range c.LibFuncs {
		for _, b := range fn.Blocks {
			for _, in := range b.Instrs {
				sl, ok := in.(*ssa.Slice)
				if !ok || sl.High == nil {
					continue
				}
				if k, isK := constInt(sl.High); !isK || k != 0 {
					continue
				}
				if _, isSlice := sl.X.Type().Underlying().(*types.Slice); !isSlice {
					continue
				}
				n++
				seenO = map[ssa.Value]bool{}
				if own(sl.X, 0) {
					continue
				}
				// is the emptied slice appended to or written through?
				grown := false
				seen := map[ssa.Value]bool{}
				var follow func(v ssa.Value, d int)
				follow = func(v ssa.Value, d int) {
					if d > 4 || seen[v] || v.Referrers() == nil {
						return
					}
					seen[v] = true
					for _, r := range *v.Referrers() {
						switch x := r.(type) {
						case *ssa.Call:
							if bi, isB := x.Call.Value.(*ssa.Builtin); isB && bi.Name() == "append" && len(x.Call.Args) > 0 && x.Call.Args[0] == v {
								grown = true
							}
						case *ssa.Phi:
							follow(x, d+1)
						}
					}
				}
				follow(sl, 0)
				if !grown {
					continue
				}
				bad++
				o.add(VIOLATED, fmt.Sprintf("%s/appending to x[:0] of a slice the function was handed #%d", c.fname(fn), bad), relPath(c, sl.Pos()), "the slice emptied here with [:0] and appended to was not made by this function (%s): the appends overwrite the memory of the value the caller handed in - a []interface{} operand of a query is rewritten in place on every evaluation, by every goroutine that runs the query", describeValue(c, sl.X))
			}
		}
	}
	if bad == 0 {
		o.add(OK, "library/x[:0] only of own slices", "-", "%d uses of x[:0] inspected: none reuses a slice the function was handed", n)
	}
	return o.list
}

// ---------------------------------------------------------------- ID7

// ID7: the id a by-id operation is given reaches the key of the record as it is. FindById /
// DeleteById / UpdateById / ReplaceById build the record key from the id parameter itself: an id
// re-rendered on the way (parsed as a UUID and printed again) makes the operation find the
// document under a spelling of the id that no stored document has.
func ruleID7(c *Ctx) []Ob {
	o := newObs(c, "ID7")
	n := 0
	// key builders: library functions of the root package returning a string built by concatenation
	// ending in one of their string parameters (the id), reached from the by-id operations
	for _, fn := range c.LibFuncs {
		if c.pkgRel(fn) != "" || fn.Parent() != nil || fn.Object() == nil || !fn.Object().Exported() {
			continue
		}
		if !strings.HasSuffix(fn.Name(), "ById") {
			continue
		}
		var idp *ssa.Parameter
		for _, p := range fn.Params {
			if isStringType(p.Type()) && strings.EqualFold(p.Name(), "id") {
				idp = p
			}
		}
		if idp == nil {
			continue
		}
		n++
		key := c.fname(fn) + "/the id reaches the record key as it is given"
		bad := ""
		// every string handed on to a library function in the id's place derives from the parameter alone
		allCalls(fn, func(ci ssa.CallInstruction) {
			g := staticCallee(ci)
			if g == nil || !c.IsLib(c.declared(g)) || c.pkgRel(c.declared(g)) != "" {
				return
			}
			g = c.declared(g)
			for i, a := range ci.Common().Args {
				if i >= len(g.Params) || !isStringType(a.Type()) || !strings.EqualFold(g.Params[i].Name(), "id") {
					continue
				}
				for _, og := range origins(a) {
					if og != ssa.Value(idp) {
						bad = fmt.Sprintf("%s: %s gets %s for the id", relPath(c, ci.Pos()), c.fname(g), describeValue(c, a))
					}
				}
			}
		})
		if bad != "" {
			o.add(VIOLATED, key, relPath(c, fn.Pos()), "%s, not the id the caller gave: the record is looked up under a re-rendered spelling (uuid.FromString accepts upper case, braces, urn:uuid: and 32 hex digits; String() prints the canonical form), so the operation acts on a document whose _id is not the id it was asked for", bad)
		} else {
			o.add(OK, key, relPath(c, fn.Pos()), "the helpers that take an id get the parameter itself")
		}
	}
	if n == 0 {
		o.add(INFO, "by-id operations", "-", "no exported ...ById operation with an id parameter")
	}
	return o.list
}

// ---------------------------------------------------------------- LIST1

// LIST1: the listing of the collections reports every catalog key it visits. Inside the loop
// over the catalog keys, the name is appended to the result behind nothing but the test that
// the key belongs to the catalog (HasPrefix), the cursor's validity and error tests: a
// condition on the length of the key or of the name leaves a collection out (`len(key) >
// len(prefix)` drops the collection whose name is the empty string).
func ruleLIST1(c *Ctx) []Ob {
	o := newObs(c, "LIST1")
	fn := c.lookupMethod("", "DB", "ListCollections")
	if fn == nil {
		o.add(INFO, "listing", "-", "DB.ListCollections not found")
		return o.list
	}
	n := 0
	var fns []*ssa.Function
	for f := range c.staticReach(fn) {
		if c.pkgRel(f) == "" && rootFunc(f) != nil {
			fns = append(fns, f)
		}
	}
	fns = append(fns, fn)
	sort.Slice(fns, func(i, j int) bool { return c.fname(fns[i]) < c.fname(fns[j]) })
	seenFn := map[*ssa.Function]bool{}
	for _, f := range fns {
		if seenFn[f] {
			continue
		}
		seenFn[f] = true
		for _, b := range f.Blocks {
			for _, in := range b.Instrs {
				call, ok := in.(*ssa.Call)
				if !ok {
					continue
				}
				bi, isB := call.Call.Value.(*ssa.Builtin)
				if !isB || bi.Name() != "append" {
					continue
				}
				st, isSlice := call.Type().Underlying().(*types.Slice)
				if !isSlice || !isStringType(st.Elem()) {
					continue
				}
				n++
				key := c.fname(f) + "/every catalog key visited is listed"
				bad := ""
				for _, dc := range dominatingConds(f, b) {
					cond := dc.cond
					for {
						u, ok := cond.(*ssa.UnOp)
						if !ok || u.Op != token.NOT {
							break
						}
						cond = u.X
					}
					switch x := cond.(type) {
					case *ssa.Call:
						continue // HasPrefix, Valid, errors.Is ...
					case *ssa.BinOp:
						if _, _, isNil := nilTest(x); isNil {
							continue
						}
						// a comparison of lengths decides whether the name is listed
						usesLen := false
						for _, opd := range []ssa.Value{x.X, x.Y} {
							if lc, ok := opd.(*ssa.Call); ok {
								if lb, ok := lc.Call.Value.(*ssa.Builtin); ok && lb.Name() == "len" {
									usesLen = true
								}
							}
						}
						if usesLen {
							bad = relPath(c, x.Pos())
						}
					}
				}
				if bad != "" {
					o.add(VIOLATED, key, relPath(c, call.Pos()), "whether a catalog key contributes its name depends on a comparison of lengths (%s): the collection whose name is empty (its key is the bare prefix) - or whatever the comparison leaves out - exists, answers HasCollection, and is missing from ListCollections", bad)
				} else {
					o.add(OK, key, relPath(c, call.Pos()), "the name is appended behind the prefix, validity and error tests only")
				}
			}
		}
	}
	if n == 0 {
		o.add(INFO, "listing", "-", "no append of a name found under DB.ListCollections")
	}
	return o.list
}

// ---------------------------------------------------------------- COD10 / IMP5 (round s)

// COD10: what the document encoder hands to msgpack is what the time-wrapping pass returned. A
// shortcut that marshals the raw value when a quick look found no time (`if !hasTimes(v) { return
// msgpack.Marshal(v) }`) stores every time the quick look missed - one inside an object inside an
// array - with msgpack's native timestamp, which has no zone offset.
func ruleCOD10(c *Ctx) []Ob {
	o := newObs(c, "COD10")
	n := 0
	for _, fn := range c.LibFuncs {
		if c.pkgRel(fn) != "internal" {
			continue
		}
		var marshals []*ssa.Call
		allCalls(fn, func(ci ssa.CallInstruction) {
			if cl, ok := ci.(*ssa.Call); ok && strings.HasSuffix(calleeFullName(ci), "msgpack/v5.Marshal") {
				marshals = append(marshals, cl)
			}
		})
		if len(marshals) == 0 {
			continue
		}
		// the pass: a library call whose result some Marshal of fn is given
		var pass *ssa.Function
		for _, m := range marshals {
			for _, a := range m.Call.Args {
				for _, og := range origins(a) {
					if cl, ok := og.(*ssa.Call); ok {
						if g := staticCallee(cl); g != nil && c.IsLib(c.declared(g)) {
							pass = c.declared(g)
						}
					}
				}
			}
		}
		if pass == nil {
			continue
		}
		for i, m := range marshals {
			n++
			key := fmt.Sprintf("%s/what is marshalled went through %s", c.fname(fn), c.fname(pass))
			if i > 0 {
				key += fmt.Sprintf(" #%d", i+1)
			}
			okAll := true
			for _, a := range m.Call.Args {
				for _, og := range origins(a) {
					cl, isCall := og.(*ssa.Call)
					if !isCall || staticCallee(cl) == nil || c.declared(staticCallee(cl)) != pass {
						okAll = false
					}
				}
			}
			if okAll {
				o.add(OK, key, relPath(c, m.Pos()), "the value handed to msgpack is the result of the pass")
			} else {
				o.add(VIOLATED, key, relPath(c, m.Pos()), "this path hands msgpack a value that did not go through %s: whatever decides to skip the pass has to find every time the pass would find (inside objects inside arrays, at any depth) - a time it misses is stored with msgpack's native timestamp, which keeps the instant and drops the zone offset", c.fname(pass))
			}
		}
	}
	if n == 0 {
		o.add(INFO, "encoder", "-", "no function of package internal marshals the result of a library pass")
	}
	return o.list
}

// IMP5: the expiration the import restores is the time the text denotes, zone included: the value
// put back into the document is what time.Parse returned, not a conversion of it (UTC(), Local(),
// In(), Truncate(), Round()): C19 compares times as their RFC 3339 text.
func ruleIMP5(c *Ctx) []Ob {
	o := newObs(c, "IMP5")
	imp := c.lookupMethod("", "DB", "ImportCollection")
	if imp == nil {
		o.add(INFO, "import", "-", "DB.ImportCollection not found")
		return o.list
	}
	n := 0
	var fns []*ssa.Function
	for f := range c.staticReach(imp) {
		if c.pkgRel(f) == "" {
			fns = append(fns, f)
		}
	}
	fns = append(fns, imp)
	sort.Slice(fns, func(i, j int) bool { return c.fname(fns[i]) < c.fname(fns[j]) })
	seen := map[*ssa.Function]bool{}
	for _, f := range fns {
		if seen[f] {
			continue
		}
		seen[f] = true
		parses := false
		allCalls(f, func(ci ssa.CallInstruction) {
			if calleeFullName(ci) == "time.Parse" {
				parses = true
			}
		})
		if !parses {
			continue
		}
		for _, b := range f.Blocks {
			for _, in := range b.Instrs {
				var val ssa.Value
				switch x := in.(type) {
				case *ssa.MapUpdate:
					val = x.Value
				case *ssa.Call:
					// doc.SetExpiresAt(t) / doc.Set(name, t)
					if g := staticCallee(x); g != nil && c.IsLib(c.declared(g)) && c.pkgRel(c.declared(g)) == "document" && len(x.Call.Args) > 1 {
						val = x.Call.Args[len(x.Call.Args)-1]
					}
				}
				if val == nil {
					continue
				}
				v := stripIfaceOnly(val)
				if !namedIs(v.Type(), "time", "Time") {
					continue
				}
				n++
				key := c.fname(f) + "/the restored time is the parsed one"
				bad := ""
				for _, og := range origins(v) {
					if cl, ok := og.(*ssa.Call); ok {
						switch calleeFullName(cl) {
						case "(time.Time).UTC", "(time.Time).Local", "(time.Time).In", "(time.Time).Truncate", "(time.Time).Round", "(time.Time).Add", "(time.Time).AddDate":
							bad = calleeFullName(cl)
						}
					}
				}
				if bad != "" {
					o.add(VIOLATED, key, relPath(c, in.Pos()), "the time put back into the imported document went through %s: the instant is the same but its RFC 3339 text is not (a +02:00 expiration comes back as Z), and the copy no longer equals the source as C19 compares times", bad)
				} else {
					o.add(OK, key, relPath(c, in.Pos()), "the value stored is what time.Parse returned")
				}
			}
		}
	}
	if n == 0 {
		o.add(INFO, "import", "-", "the import stores no parsed time")
	}
	return o.list
}
