package main

import (
	"encoding/json"
	"fmt"
	"os"
	"path/filepath"
	"sort"
	"strings"
)

// Status of an obligation.
const (
	OK        = "discharged"
	VIOLATED  = "violated"
	UNDECIDED = "undecided"
	INFO      = "info"
)

// Ob is one proof obligation produced by a rule at one construct of the source.
// Key is rule/function/construct and never contains a line number.
type Ob struct {
	Rule   string `json:"rule"`
	Key    string `json:"key"`
	Pos    string `json:"pos"`
	Status string `json:"status"`
	Msg    string `json:"msg,omitempty"`
}

// Rule is a checker for one rule of DESIGN.md §3.
type Rule struct {
	Name  string
	Doc   string // the rule applied, one sentence
	Floor int    // minimum number of non-info obligations; fewer => the rule went vacuous
	Run   func(c *Ctx) []Ob
}

type obs struct {
	c    *Ctx
	rule string
	list []Ob
}

func newObs(c *Ctx, rule string) *obs { return &obs{c: c, rule: rule} }

func (o *obs) add(status, key, pos, msg string, args ...interface{}) {
	o.list = append(o.list, Ob{Rule: o.rule, Key: o.rule + "/" + key, Pos: pos, Status: status, Msg: fmt.Sprintf(msg, args...)})
}

// dedupe merges obligations with identical keys: the worst status wins.
func dedupe(in []Ob) []Ob {
	rank := map[string]int{INFO: 0, OK: 1, UNDECIDED: 2, VIOLATED: 3}
	idx := map[string]int{}
	var out []Ob
	for _, o := range in {
		if i, ok := idx[o.Key]; ok {
			if rank[o.Status] > rank[out[i].Status] {
				out[i] = o
			}
			continue
		}
		idx[o.Key] = len(out)
		out = append(out, o)
	}
	return out
}

// ---------------------------------------------------------------- known findings

type Finding struct {
	Property string `json:"property"`
	Rule     string `json:"rule"`
	Key      string `json:"key"`
	What     string `json:"what"`
	Status   string `json:"status"` // known | fixed
	Commit   string `json:"commit,omitempty"`
}

type FindingsFile struct {
	Comment  string    `json:"comment"`
	Findings []Finding `json:"findings"`
}

func loadFindings(path string) (*FindingsFile, error) {
	b, err := os.ReadFile(path)
	if err != nil {
		if os.IsNotExist(err) {
			return &FindingsFile{}, nil
		}
		return nil, err
	}
	ff := &FindingsFile{}
	if err := json.Unmarshal(b, ff); err != nil {
		return nil, fmt.Errorf("%s: %v", path, err)
	}
	return ff, nil
}

// known returns the finding that lists (property, key) as known, if any.
func (ff *FindingsFile) known(prop, key string) *Finding {
	for i := range ff.Findings {
		f := &ff.Findings[i]
		if f.Status == "known" && f.Key == key && (f.Property == prop || f.Property == "*") {
			return f
		}
	}
	return nil
}

// ---------------------------------------------------------------- evidence

type Evidence struct {
	PropertyID  string                 `json:"property_id"`
	Tier        string                 `json:"tier"`
	Seed        int                    `json:"seed"`
	Level       string                 `json:"level"`
	Coverage    map[string]interface{} `json:"coverage"`
	Assumptions []string               `json:"assumptions"`
	WallS       float64                `json:"wall_s"`
	Violations  int                    `json:"violations"`
}

func writeJSON(path string, v interface{}) error {
	if err := os.MkdirAll(filepath.Dir(path), 0o755); err != nil {
		return err
	}
	b, err := json.MarshalIndent(v, "", " ")
	if err != nil {
		return err
	}
	tmp := path + ".tmp"
	if err := os.WriteFile(tmp, append(b, '\n'), 0o644); err != nil {
		return err
	}
	return os.Rename(tmp, path)
}

func sortObs(l []Ob) {
	sort.SliceStable(l, func(i, j int) bool {
		if l[i].Rule != l[j].Rule {
			return l[i].Rule < l[j].Rule
		}
		return l[i].Key < l[j].Key
	})
}

func summarise(l []Ob) (n, ok, viol, undec, info int) {
	for _, o := range l {
		switch o.Status {
		case OK:
			ok++
			n++
		case VIOLATED:
			viol++
			n++
		case UNDECIDED:
			undec++
			n++
		case INFO:
			info++
		}
	}
	return
}

func shortKey(k string) string {
	if i := strings.Index(k, "/"); i >= 0 {
		return k[i+1:]
	}
	return k
}
