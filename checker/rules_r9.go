package main

import (
	"fmt"
	"go/constant"
	"go/token"
	"go/types"
	"sort"
	"strings"

	"golang.org/x/tools/go/ssa"
)

// lenNonZeroEdges: the conditional edges of fn on which len(x) (x accepted by same) is known not to be zero.
func lenNonZeroEdges(fn *ssa.Function, same func(ssa.Value) bool) []edge {
	return guardEdges(fn, func(cond ssa.Value, branch bool) bool {
		bo, ok := cond.(*ssa.BinOp)
		if !ok {
			return false
		}
		lc, ok := bo.X.(*ssa.Call)
		if !ok {
			return false
		}
		bi, isB := lc.Call.Value.(*ssa.Builtin)
		if !isB || bi.Name() != "len" || len(lc.Call.Args) != 1 || !same(lc.Call.Args[0]) {
			return false
		}
		k, isK := constInt(bo.Y)
		if !isK || k != 0 {
			return false
		}
		return (bo.Op == token.GTR && branch) || (bo.Op == token.NEQ && branch) || (bo.Op == token.EQL && !branch) || (bo.Op == token.LEQ && !branch)
	})
}

// ---------------------------------------------------------------- EMPTY4

// EMPTY4: the copy of a container made by the document copy helper (util.CopyMap and
// what it calls) is never nil where the original is not: an empty array, an empty byte
// string and an empty object stay empty and non-nil. `append([]T(nil), s...)` - the
// usual clone idiom - yields nil for an empty s: msgpack and encoding/json write a nil
// slice as a null, so DB.Update (which stores Copy() + SetAll) turns every empty array
// or byte string of the document into a null, and ExportCollection (AsMap) exports
// `null` for `[]`.
func ruleEMPTY4(c *Ctx) []Ob {
	o := newObs(c, "EMPTY4")
	cp := c.lookupFunc("util", "CopyMap")
	if cp == nil {
		o.add(UNDECIDED, "model", "-", "util.CopyMap not found")
		return softenUndecided(o.list)
	}
	var fns []*ssa.Function
	for f := range c.staticReach(cp) {
		if c.pkgRel(f) == "util" {
			fns = append(fns, f)
		}
	}
	sort.Slice(fns, func(i, j int) bool { return c.fname(fns[i]) < c.fname(fns[j]) })
	isContainer := func(t types.Type) bool {
		switch t.Underlying().(type) {
		case *types.Slice, *types.Map:
			return true
		}
		return false
	}
	// nonNil: v, a container built by fn, is not nil (whenever the original at hand is not)
	var nonNil func(fn *ssa.Function, v ssa.Value, at *ssa.BasicBlock, depth int) (bool, string)
	nonNil = func(fn *ssa.Function, v ssa.Value, at *ssa.BasicBlock, depth int) (bool, string) {
		if depth > 4 {
			return false, "not followed"
		}
		for _, og := range origins(v) {
			switch x := og.(type) {
			case *ssa.MakeSlice, *ssa.MakeMap:
				continue
			case *ssa.Slice:
				// a[:] of a fresh array (a composite literal) or a slice of a non-nil slice
				if _, isAlloc := x.X.(*ssa.Alloc); isAlloc {
					continue
				}
				if ok, why := nonNil(fn, x.X, at, depth+1); !ok {
					return false, why
				}
				continue
			case *ssa.Call:
				if bi, isB := x.Call.Value.(*ssa.Builtin); isB && bi.Name() == "append" {
					base := x.Call.Args[0]
					if isNilConst(base) {
						if len(x.Call.Args) > 1 && (guardedBy(fn, x.Block(), lenNonZeroEdges(fn, sameValue(x.Call.Args[1]))) || guardedBy(fn, x.Block(), lenNonZeroEdges(fn, func(y ssa.Value) bool { return sameOrigin(y, x.Call.Args[1]) }))) {
							continue
						}
						return false, "append to a nil slice yields nil when nothing is appended"
					}
					if ok, why := nonNil(fn, base, at, depth+1); !ok {
						return false, why
					}
					continue
				}
				switch calleeFullName(x) {
				case "bytes.Clone", "slices.Clone", "maps.Clone":
					continue // nil only for a nil argument
				}
				if g := staticCallee(x); g != nil && c.IsLib(c.declared(g)) {
					g = c.declared(g)
					all := true
					why := ""
					for _, ret := range returnsOf(g) {
						rv, has := returnedValue(ret, 0)
						if !has {
							continue
						}
						if ok, w := nonNil(g, rv, ret.Block(), depth+1); !ok {
							all, why = false, w
						}
					}
					if all {
						continue
					}
					return false, why
				}
				return false, "result of " + calleeFullName(x) + " (not known to be non-nil)"
			case *ssa.Const:
				if x.Value == nil {
					// nil where the original is nil
					onNil := false
					for _, prm := range fn.Params {
						if guardedBy(fn, at, nilEdges(fn, sameValue(prm))) {
							onNil = true
						}
					}
					if onNil {
						continue
					}
					return false, "a nil constant"
				}
				continue
			default:
				return false, fmt.Sprintf("%T not followed", og)
			}
		}
		return true, ""
	}
	n := 0
	for _, fn := range fns {
		k := 0
		check := func(at ssa.Instruction, b *ssa.BasicBlock, val ssa.Value) {
			v := val
			if mi, ok := v.(*ssa.MakeInterface); ok {
				v = mi.X
			}
			if !isContainer(v.Type()) {
				return
			}
			// only copies: a value of the original handed through (ALIAS3) is not a copy
			for _, og := range origins(v) {
				switch x := og.(type) {
				case *ssa.Parameter:
					return
				case *ssa.Extract:
					if _, isTA := x.Tuple.(*ssa.TypeAssert); isTA {
						return
					}
					if _, isNext := x.Tuple.(*ssa.Next); isNext {
						return
					}
				}
			}
			n++
			k++
			key := fmt.Sprintf("%s/copy of a container is not nil #%d", c.fname(fn), k)
			if ok, why := nonNil(fn, v, b, 0); ok {
				o.add(OK, key, relPath(c, at.Pos()), "made by make(), a literal, or an append to one of these")
			} else {
				o.add(VIOLATED, key, relPath(c, at.Pos()), "the copy of an empty container can be nil (%s): an empty array or byte string of a document becomes a null in Copy()/AsMap()/ToMap() - DB.Update, which stores the copy, turns `[]` and []byte{} fields nobody touched into nil, and ExportCollection writes null for []", why)
			}
		}
		for _, b := range fn.Blocks {
			for _, in := range b.Instrs {
				switch x := in.(type) {
				case *ssa.MapUpdate:
					check(x, b, x.Value)
				case *ssa.Store:
					if _, isIA := x.Addr.(*ssa.IndexAddr); isIA {
						check(x, b, x.Val)
					}
				case *ssa.Return:
					for _, r := range x.Results {
						check(x, b, r)
					}
				}
			}
		}
	}
	if n == 0 {
		o.add(UNDECIDED, "copy helper", relPath(c, cp.Pos()), "no container built by util.CopyMap was recognised")
		return softenUndecided(o.list)
	}
	return o.list
}

// ---------------------------------------------------------------- IMM4

// IMM4: no function of the library writes into a slice or a map that it reached through
// a criteria object (the operand of a UnaryCriteria: the list of In / Contains) or a
// query: neither an element store, nor an entry store, nor an append onto (a re-slice
// of) it, which reuses its backing array. The criteria normaliser runs on every
// operation, Count and Exists included: building the normalised list in the operand's
// own array (`values[:0]`) rewrites the caller's query - and the variadic slice the
// caller passed to In() - on every read.
func ruleIMM4(c *Ctx) []Ob {
	o := newObs(c, "IMM4")
	isQueryStruct := func(n *types.Named) bool {
		if n == nil || n.Obj().Pkg() == nil || !strings.HasSuffix(n.Obj().Pkg().Path(), "/query") {
			return false
		}
		_, isS := n.Underlying().(*types.Struct)
		return isS
	}
	var from func(v ssa.Value, depth int, seen map[ssa.Value]bool) (bool, string)
	from = func(v ssa.Value, depth int, seen map[ssa.Value]bool) (bool, string) {
		if v == nil || seen[v] || depth > 10 {
			return false, ""
		}
		seen[v] = true
		for _, og := range origins(v) {
			if _, f, n := fieldLoad(og); f != "" && isQueryStruct(n) {
				return true, namedName(n) + "." + f
			}
			switch x := og.(type) {
			case *ssa.Parameter:
				g := x.Parent()
				idx := -1
				for i, p := range g.Params {
					if p == x {
						idx = i
					}
				}
				for _, cs := range c.staticCallers(g) {
					args := cs.Common().Args
					if idx < 0 || idx >= len(args) || !c.IsLib(cs.Parent()) {
						continue
					}
					if ok, w := from(args[idx], depth+1, seen); ok {
						return true, w
					}
				}
			case *ssa.TypeAssert:
				if ok, w := from(x.X, depth+1, seen); ok {
					return true, w
				}
			case *ssa.Extract:
				if _, isCall := x.Tuple.(*ssa.Call); isCall {
					continue
				}
				if ok, w := from(x.Tuple, depth+1, seen); ok {
					return true, w
				}
			case *ssa.Slice:
				if ok, w := from(x.X, depth+1, seen); ok {
					return true, w
				}
			case *ssa.UnOp:
				if x.Op == token.MUL {
					if ia, ok := x.X.(*ssa.IndexAddr); ok {
						if ok, w := from(ia.X, depth+1, seen); ok {
							return true, w
						}
					}
				}
			case *ssa.Lookup:
				if ok, w := from(x.X, depth+1, seen); ok {
					return true, w
				}
			case *ssa.Call:
				// an append onto it is still it (as far as the backing array goes)
				if bi, isB := x.Call.Value.(*ssa.Builtin); isB && bi.Name() == "append" {
					if ok, w := from(x.Call.Args[0], depth+1, seen); ok {
						return true, w
					}
				}
			}
		}
		return false, ""
	}
	n, bad := 0, 0
	for _, fn := range c.LibFuncs {
		k := 0
		rep := func(at ssa.Instruction, what, via string) {
			k++
			bad++
			o.add(VIOLATED, fmt.Sprintf("%s/writes into the criteria it was given #%d", c.fname(fn), k), relPath(c, at.Pos()), "%s reached through %s: the operation rewrites the query object (and the slice the caller passed to In/Contains) it was given - Count, Exists, FindFirst, ForEach and FindAll normalise the criteria on every call, so int/int8 elements become int64, pointers are replaced by what they pointed to at first use, and a list whose later element fails to normalise is left half rewritten", what, via)
		}
		for _, b := range fn.Blocks {
			for _, in := range b.Instrs {
				switch x := in.(type) {
				case *ssa.Store:
					if ia, ok := x.Addr.(*ssa.IndexAddr); ok {
						n++
						if yes, via := from(ia.X, 0, map[ssa.Value]bool{}); yes {
							rep(x, "an element is assigned in a slice", via)
						}
					}
				case *ssa.MapUpdate:
					n++
					if yes, via := from(x.Map, 0, map[ssa.Value]bool{}); yes {
						rep(x, "an entry is assigned in a map", via)
					}
				case *ssa.Call:
					if bi, isB := x.Call.Value.(*ssa.Builtin); isB && bi.Name() == "append" {
						n++
						if yes, via := from(x.Call.Args[0], 0, map[ssa.Value]bool{}); yes {
							rep(x, "append() extends (a re-slice of) a slice", via)
						}
					}
				}
			}
		}
	}
	if bad == 0 {
		o.add(OK, "library/no write into a criteria operand or a query's slices", "-", "%d element stores, entry stores and appends inspected: none targets a slice or map loaded from a field of a query / criteria struct", n)
	}
	return o.list
}

// ---------------------------------------------------------------- TERM1

// TERM1: a loop of a store adapter that repeats a cursor step until it yields a key
// (bbolt's Cursor.Prev returns a nil key on a page emptied by the running transaction,
// so the adapter retries) terminates: (a) it is repeated only where a key is known to
// exist strictly before the current one - bytes.Compare(first key of the bucket, from)
// < 0; with <= the retry goes on for ever when the cursor stands on the first key,
// where Prev has run off the beginning and yields nil from then on (a descending scan
// of an index of an empty collection); (b) the cursor is positioned afresh (Seek)
// between that test and the retries: the path a bbolt cursor keeps is not updated by
// the writes of its transaction, and once it is exhausted Prev yields nil for ever
// although the test (made with a fresh cursor) sees a key before.
func ruleTERM1(c *Ctx) []Ob {
	o := newObs(c, "TERM1")
	isPrev := func(ci ssa.CallInstruction) bool { return calleeFullName(ci) == "(*go.etcd.io/bbolt.Cursor).Prev" }
	isFirstKey := func(v ssa.Value) bool {
		for _, og := range origins(v) {
			if ex, ok := og.(*ssa.Extract); ok && ex.Index == 0 {
				if cl, ok := ex.Tuple.(*ssa.Call); ok && calleeFullName(cl) == "(*go.etcd.io/bbolt.Cursor).First" {
					return true
				}
			}
		}
		return false
	}
	// strictCond: on the given branch of cond, "first key of the bucket < the other operand" is known
	var strictCond func(cond ssa.Value, branch bool, depth int) bool
	strictCond = func(cond ssa.Value, branch bool, depth int) bool {
		if depth > 3 {
			return false
		}
		switch x := cond.(type) {
		case *ssa.UnOp:
			if x.Op == token.NOT {
				return strictCond(x.X, !branch, depth+1)
			}
		case *ssa.Call:
			// a boolean helper that answers true only where the strict comparison holds
			g := staticCallee(x)
			if g == nil || !c.IsLib(c.declared(g)) || !branch {
				return false
			}
			g = c.declared(g)
			if g.Signature.Results().Len() != 1 || len(g.Blocks) == 0 {
				return false
			}
			for _, ret := range returnsOf(g) {
				rv, has := returnedValue(ret, 0)
				if !has {
					return false
				}
				for _, og := range origins(rv) {
					if b, isC := constBool(og); isC && !b {
						continue
					}
					if strictCond(og, true, depth+1) {
						continue
					}
					// true returned under a strict guard
					ok := false
					if b, isC := constBool(og); isC && b {
						pb := ret.Block()
						if phi, isPhi := rv.(*ssa.Phi); isPhi {
							for i, e := range phi.Edges {
								if e == og {
									pb = phi.Block().Preds[i]
								}
							}
						}
						es := guardEdges(g, func(c2 ssa.Value, br bool) bool { return strictCond(c2, br, depth+1) })
						ok = guardedBy(g, pb, es)
					}
					if !ok {
						return false
					}
				}
			}
			return true
		case *ssa.BinOp:
			cmp, ok := x.X.(*ssa.Call)
			if !ok || calleeFullName(cmp) != "bytes.Compare" {
				return false
			}
			k, isK := constInt(x.Y)
			if !isK {
				return false
			}
			firstLeft := isFirstKey(cmp.Call.Args[0])
			firstRight := isFirstKey(cmp.Call.Args[1])
			if firstLeft == firstRight {
				return false
			}
			// relations r = sign(Compare(a, b)) on which the branch is taken
			for _, r := range []int64{-1, 0, 1} {
				var t bool
				switch x.Op {
				case token.LSS:
					t = r < k
				case token.LEQ:
					t = r <= k
				case token.GTR:
					t = r > k
				case token.GEQ:
					t = r >= k
				case token.EQL:
					t = r == k
				case token.NEQ:
					t = r != k
				default:
					return false
				}
				want := int64(-1)
				if firstRight {
					want = 1
				}
				if t == branch && r != want {
					return false
				}
			}
			return true
		}
		return false
	}
	strictEdgesOf := func(fn *ssa.Function) []edge {
		return guardEdges(fn, func(cond ssa.Value, branch bool) bool { return strictCond(cond, branch, 0) })
	}
	n := 0
	for _, fn := range c.LibFuncs {
		if !strings.HasPrefix(c.pkgRel(fn), "store/") {
			continue
		}
		strict := strictEdgesOf(fn)
		// the function may be a helper that is only ever called where a key is known to exist before
		calledStrict := false
		if sites := c.staticCallers(fn); len(sites) > 0 {
			calledStrict = true
			for _, cs := range sites {
				caller := cs.Parent()
				if caller == nil || !guardedBy(caller, cs.Block(), strictEdgesOf(caller)) {
					calledStrict = false
				}
			}
		}
		seen := map[*ssa.BasicBlock]bool{}
		allCalls(fn, func(p ssa.CallInstruction) {
			if !isPrev(p) || !c.inLoop(p.Block()) {
				return
			}
			h, body := c.innermostLoop(p.Block())
			if h == nil || seen[h] {
				return
			}
			// a retry loop: governed by a nil test of the key Prev returned
			retry := false
			for b := range body {
				if len(b.Instrs) == 0 {
					continue
				}
				if iff, ok := b.Instrs[len(b.Instrs)-1].(*ssa.If); ok {
					if x, _, isNil := nilTest(iff.Cond); isNil {
						for _, og := range origins(x) {
							if ex, ok := og.(*ssa.Extract); ok {
								if cl, ok := ex.Tuple.(*ssa.Call); ok && isPrev(cl) {
									retry = true
								}
							}
						}
					}
				}
			}
			if !retry {
				return
			}
			seen[h] = true
			n++
			key := c.fname(fn) + "/the retries of Cursor.Prev end"
			// (a) every repetition (the block of the Prev inside the loop) is reached only over a strict edge
			if !calledStrict && !guardedBy(fn, p.Block(), strict) {
				o.add(VIOLATED, key, relPath(c, p.Pos()), "Cursor.Prev is repeated while it yields no key without it being known that a key exists strictly before the current one (bytes.Compare(first key, from) < 0): when the cursor stands on the first key of the bucket, Prev has run off the beginning and returns nil from then on - a descending scan of an index of an emptied collection (the seek lands on the first key of the bucket) never returns")
				return
			}
			// (b) a Seek of the same cursor, after the test, before the repetitions
			fresh := false
			allCalls(fn, func(s ssa.CallInstruction) {
				if calleeFullName(s) != "(*go.etcd.io/bbolt.Cursor).Seek" {
					return
				}
				if !(s.Common().Args[0] == p.Common().Args[0] || sameOrigin(s.Common().Args[0], p.Common().Args[0])) {
					return
				}
				if (calledStrict || guardedBy(fn, s.Block(), strict)) && (s.Block() == p.Block() || s.Block().Dominates(p.Block())) {
					fresh = true
				}
			})
			if !fresh {
				o.add(VIOLATED, key, relPath(c, p.Pos()), "Cursor.Prev is repeated on the path the cursor has kept, which the writes of the transaction do not update: once that path is exhausted Prev yields nil for ever, although the test made with a fresh cursor sees a key before - a reverse cursor on the first key, a smaller key put in the same transaction, and Next() never returns. The cursor is to be positioned afresh (Seek) before the retries")
				return
			}
			o.add(OK, key, relPath(c, p.Pos()), "repeated only where a key exists strictly before the current one, on a cursor positioned afresh after that test")
		})
	}
	if n == 0 {
		o.add(INFO, "bbolt adapter", "-", "no loop retrying (*bbolt.Cursor).Prev in the adapters")
	}
	return o.list
}

// ---------------------------------------------------------------- CMP14

// CMP14: when a field takes a name in the record of depths (CMP6), what a field of a
// greater depth has stored under that name is removed or replaced before the walk goes
// on to the next field - on every path, also the one where the field itself is omitted
// (omitempty): `struct{ Base; Note string "clover:\"Note,omitempty\"" }` with Base.Note
// set and an empty Note converts to a document without Note, as in Go and encoding/json.
// The same holds for the walk back (the names encoding/json expects).
func ruleCMP14(c *Ctx) []Ob {
	o := newObs(c, "CMP14")
	n := 0
	for _, fn := range c.LibFuncs {
		if c.pkgRel(fn) != "internal" {
			continue
		}
		k := 0
		for _, b := range fn.Blocks {
			for i, in := range b.Instrs {
				bk, ok := in.(*ssa.MapUpdate)
				if !ok {
					continue
				}
				bp, isP := bk.Map.(*ssa.Parameter)
				if !isP {
					continue
				}
				mt, isMap := bp.Type().Underlying().(*types.Map)
				if !isMap {
					continue
				}
				if bt, isB := mt.Elem().Underlying().(*types.Basic); !isB || bt.Info()&types.IsInteger == 0 {
					continue
				}
				// the destination(s): map parameters with interface elements that receive the same key in fn
				var dsts []*ssa.Parameter
				for _, p := range fn.Params {
					if pm, ok := p.Type().Underlying().(*types.Map); ok {
						if _, isI := pm.Elem().Underlying().(*types.Interface); !isI {
							continue
						}
						// every map of field values the walk is given and never reads is a destination: a
						// recorder that stores nothing itself (the names behind a nil embedded pointer)
						// still has to remove what a deeper field stored
						read := false
						for _, b2 := range fn.Blocks {
							for _, in2 := range b2.Instrs {
								if lk, ok := in2.(*ssa.Lookup); ok && lk.X == ssa.Value(p) {
									read = true
								}
							}
						}
						if !read {
							dsts = append(dsts, p)
						}
					}
				}
				h, _ := c.innermostLoop(b)
				if len(dsts) == 0 || h == nil {
					continue
				}
				for _, dst := range dsts {
					n++
					k++
					key := fmt.Sprintf("%s/a field that takes a name removes what a deeper field stored under it #%d", c.fname(fn), k)
					settles := func(in2 ssa.Instruction) bool {
						switch x := in2.(type) {
						case *ssa.MapUpdate:
							return x.Map == ssa.Value(dst) && (x.Key == bk.Key || sameOrigin(x.Key, bk.Key))
						case *ssa.Call:
							if bi, isB := x.Call.Value.(*ssa.Builtin); isB && bi.Name() == "delete" && len(x.Call.Args) == 2 {
								return x.Call.Args[0] == ssa.Value(dst) && (x.Call.Args[1] == bk.Key || sameOrigin(x.Call.Args[1], bk.Key))
							}
						}
						return false
					}
					// is the loop header reachable from just after the record without a settling instruction?
					leak := false
					seenB := map[*ssa.BasicBlock]bool{}
					var walk func(bb *ssa.BasicBlock, fromIdx int)
					walk = func(bb *ssa.BasicBlock, fromIdx int) {
						for j := fromIdx; j < len(bb.Instrs); j++ {
							if settles(bb.Instrs[j]) {
								return
							}
						}
						for _, s := range bb.Succs {
							if s == h {
								leak = true
								continue
							}
							if !seenB[s] {
								seenB[s] = true
								walk(s, 0)
							}
						}
					}
					walk(b, i+1)
					if leak {
						o.add(VIOLATED, key, relPath(c, bk.Pos()), "after the name has been recorded as taken, the walk can move on to the next field with neither a store under that name nor a delete of it in the destination: when the field is omitted (omitempty) the value a field promoted from a greater depth has stored under the name stays - struct{ Article; ID string `clover:\"_id,omitempty\"` } with an empty ID converts to a document carrying the embedded article's _id (Save overwrites the stored article), and Unmarshal hands the hidden value to the struct's own field")
					} else {
						o.add(OK, key, relPath(c, bk.Pos()), "every path from the record to the next field stores under the name or deletes it")
					}
				}
			}
		}
	}
	if n == 0 {
		o.add(INFO, "struct walks", "-", "no walk of package internal keeps a record of the depths at which names were taken")
	}
	return o.list
}

// ---------------------------------------------------------------- COD5

// COD5: the entry of the walk that renames a document's fields back to the names
// encoding/json expects (the function whose result Convert marshals) never hands the
// document back unrenamed because of the KIND of the target: the per-type walker reaches
// structs through maps, slices and arrays, so a target that is itself a map of structs
// (Unmarshal(&map[string]Item{})) is renamed like the same map held in a field. An
// early `if rt.Kind() != reflect.Struct { return m }` silently drops every renamed field
// of such targets.
func ruleCOD5(c *Ctx) []Ob {
	o := newObs(c, "COD5")
	conv := c.lookupFunc("internal", "Convert")
	if conv == nil {
		o.add(UNDECIDED, "model", "-", "internal.Convert not found")
		return softenUndecided(o.list)
	}
	n := 0
	allCalls(conv, func(ci ssa.CallInstruction) {
		g := staticCallee(ci)
		if g == nil || !c.IsLib(c.declared(g)) {
			return
		}
		g = c.declared(g)
		// g takes the document's map and returns a map
		var mp *ssa.Parameter
		for _, p := range g.Params {
			if _, isMap := p.Type().Underlying().(*types.Map); isMap {
				mp = p
			}
		}
		if mp == nil || g.Signature.Results().Len() == 0 {
			return
		}
		if _, isMap := g.Signature.Results().At(0).Type().Underlying().(*types.Map); !isMap {
			return
		}
		kindEdges := guardEdges(g, func(cond ssa.Value, branch bool) bool {
			bo, ok := cond.(*ssa.BinOp)
			if !ok || (bo.Op != token.EQL && bo.Op != token.NEQ) {
				return false
			}
			for _, side := range []ssa.Value{bo.X, bo.Y} {
				if cl, ok := side.(*ssa.Call); ok {
					switch calleeFullName(cl) {
					case "(reflect.Type).Kind", "(reflect.Value).Kind", "(*reflect.rtype).Kind":
						return true
					}
					if cl.Call.IsInvoke() && cl.Call.Method != nil && cl.Call.Method.Name() == "Kind" {
						return true
					}
				}
			}
			return false
		})
		k := 0
		for _, ret := range returnsOf(g) {
			rv, has := returnedValue(ret, 0)
			if !has {
				continue
			}
			raw := false
			for _, og := range origins(rv) {
				if og == ssa.Value(mp) {
					raw = true
				}
			}
			if !raw {
				continue
			}
			k++
			n++
			key := fmt.Sprintf("%s/the document is handed back unrenamed for no kind of target #%d", c.fname(g), k)
			// the loop that follows pointers tests kinds too: only edges that decide this return count
			decided := false
			for _, e := range kindEdges {
				if guardedBy(g, ret.Block(), []edge{e}) {
					decided = true
				}
			}
			if decided {
				o.add(VIOLATED, key, relPath(c, ret.Pos()), "the document is returned as it is depending on the kind of the target: a target that is not a struct but holds structs (Unmarshal(&map[string]Item{}), a pointer to an interface holding a *Item) keeps the clover names, which encoding/json does not know - every renamed field comes back as its zero value, with no error")
			} else {
				o.add(OK, key, relPath(c, ret.Pos()), "not decided by a test of the target's kind")
			}
		}
		if k == 0 {
			n++
			o.add(OK, c.fname(g)+"/the document is handed back unrenamed for no kind of target", relPath(c, g.Pos()), "the function never returns the map it was given")
		}
		// the way to the target's type goes through an interface only where encoding/json decodes into what the
		// interface holds: a pointer that is not nil. (Anything else is replaced by the decoded value, so the
		// document must keep its own names.)
		kindIs := func(cond ssa.Value, kind string) (ssa.Value, bool, bool) {
			bo, ok := cond.(*ssa.BinOp)
			if !ok || (bo.Op != token.EQL && bo.Op != token.NEQ) {
				return nil, false, false
			}
			kv, okK := c.reflectKind(kind)
			if !okK {
				return nil, false, false
			}
			for _, pair := range [][2]ssa.Value{{bo.X, bo.Y}, {bo.Y, bo.X}} {
				cl, isCall := pair[0].(*ssa.Call)
				if !isCall || calleeFullName(cl) != "(reflect.Value).Kind" {
					continue
				}
				if kc, isK := constInt(pair[1]); isK && kc == kv {
					return cl.Call.Args[0], bo.Op == token.EQL, true
				}
			}
			return nil, false, false
		}
		isElem := func(v ssa.Value) bool {
			for _, og := range origins(v) {
				if cl, ok := og.(*ssa.Call); ok && calleeFullName(cl) == "(reflect.Value).Elem" {
					return true
				}
			}
			return false
		}
		ifEdges(g, func(cond ssa.Value, e edge) {
			_, eq, ok := kindIs(cond, "Interface")
			if !ok || e.Branch != eq {
				return
			}
			n++
			key := c.fname(g) + "/an interface is followed only where encoding/json decodes into what it holds"
			h, _ := c.innermostLoop(e.From)
			bad := ""
			seenB := map[*ssa.BasicBlock]bool{}
			var walk func(b *ssa.BasicBlock)
			walk = func(b *ssa.BasicBlock) {
				if b == nil || seenB[b] || b == h || bad != "" {
					return
				}
				seenB[b] = true
				for _, in := range b.Instrs {
					if cl, ok := in.(*ssa.Call); ok && calleeFullName(cl) == "(reflect.Value).Elem" {
						for _, r := range realReferrers(cl) {
							if _, isPhi := r.(*ssa.Phi); isPhi {
								bad = relPath(c, cl.Pos())
							}
						}
					}
				}
				if len(b.Instrs) > 0 {
					if iff, isIf := b.Instrs[len(b.Instrs)-1].(*ssa.If); isIf {
						if x, eq2, ok2 := kindIs(iff.Cond, "Ptr"); ok2 && isElem(x) {
							// beyond the edge on which what the interface holds is a pointer, following is right
							if eq2 {
								walk(b.Succs[1])
							} else {
								walk(b.Succs[0])
							}
							return
						}
					}
				}
				for _, sb := range b.Succs {
					walk(sb)
				}
			}
			walk(e.to())
			if bad == "" {
				o.add(OK, key, relPath(c, e.From.Instrs[len(e.From.Instrs)-1].Pos()), "behind the interface test, Elem() is adopted only where what the interface holds was found to be a pointer")
			} else {
				o.add(VIOLATED, key, bad, "the walk to the target's type goes through an interface whatever it holds: encoding/json decodes into the content of an interface only when it is a pointer that is not nil, and replaces anything else - with var y interface{} = Item{} (or a nil *Item), Unmarshal(&y) returns the document keyed by Item's json names instead of its own")
			}
		})
	})
	if n == 0 {
		o.add(UNDECIDED, "rename entry", relPath(c, conv.Pos()), "Convert calls no library function from map to map")
		return softenUndecided(o.list)
	}
	return o.list
}

// ---------------------------------------------------------------- CMP15

// CMP15: the walk that builds a document from a struct (value driven: it follows the
// embedded pointers it finds) records the names of the fields BEHIND A NIL EMBEDDED
// POINTER as well: Go and encoding/json assign a name by the types alone, so with
// struct{ *Shallow; Mid } (Shallow{ID}, Mid{Deep{ID}}) and a nil *Shallow the name ID
// belongs to Shallow.ID, which is omitted; if the walk skips the nil pointer, Deep.ID is
// stored under ID and Unmarshal hands its value to a freshly allocated Shallow. A walker
// that keeps a record of depths and takes a reflect.Value calls a recorder driven by
// reflect.Type with that same record.
func ruleCMP15(c *Ctx) []Ob {
	o := newObs(c, "CMP15")
	n := 0
	isRecord := func(p *ssa.Parameter) bool {
		mt, ok := p.Type().Underlying().(*types.Map)
		if !ok {
			return false
		}
		bt, isB := mt.Elem().Underlying().(*types.Basic)
		return isB && bt.Info()&types.IsInteger != 0
	}
	writesRecord := func(fn *ssa.Function, rec *ssa.Parameter) bool {
		for _, b := range fn.Blocks {
			for _, in := range b.Instrs {
				if mu, ok := in.(*ssa.MapUpdate); ok && mu.Map == ssa.Value(rec) {
					return true
				}
			}
		}
		return false
	}
	for _, fn := range c.LibFuncs {
		if c.pkgRel(fn) != "internal" || fn.Parent() != nil {
			continue
		}
		var rec *ssa.Parameter
		valueDriven := false
		for _, p := range fn.Params {
			if isRecord(p) && writesRecord(fn, p) {
				rec = p
			}
			if namedIs(p.Type(), "reflect", "Value") {
				valueDriven = true
			}
		}
		if rec == nil || !valueDriven {
			continue
		}
		n++
		key := c.fname(fn) + "/the fields behind a nil embedded pointer take their names"
		found := ""
		var recCall ssa.CallInstruction
		allCalls(fn, func(ci ssa.CallInstruction) {
			g := staticCallee(ci)
			if g == nil || !c.IsLib(c.declared(g)) || c.declared(g) == fn {
				return
			}
			g = c.declared(g)
			typeDriven, hasValue := false, false
			var grec *ssa.Parameter
			for i, p := range g.Params {
				if namedIs(p.Type(), "reflect", "Type") {
					typeDriven = true
				}
				if namedIs(p.Type(), "reflect", "Value") {
					hasValue = true
				}
				if isRecord(p) && i < len(ci.Common().Args) && ci.Common().Args[i] == ssa.Value(rec) && writesRecord(g, p) {
					grec = p
				}
			}
			if typeDriven && !hasValue && grec != nil {
				found = c.fname(g)
				recCall = ci
			}
		})
		if found == "" {
			// or the walk is itself driven by the type and calls itself, for a nil embedded pointer, with the
			// zero reflect.Value (no value to take the fields from) and the same record
			hasType := false
			for _, p := range fn.Params {
				if namedIs(p.Type(), "reflect", "Type") {
					hasType = true
				}
			}
			if hasType {
				allCalls(fn, func(ci ssa.CallInstruction) {
					if g := staticCallee(ci); g == nil || c.declared(g) != fn {
						return
					}
					zeroVal, sameRec := false, false
					for i, p := range fn.Params {
						if i >= len(ci.Common().Args) {
							continue
						}
						a := ci.Common().Args[i]
						if namedIs(p.Type(), "reflect", "Value") && isZeroValue(a) {
							zeroVal = true
						}
						if p == rec && a == ssa.Value(rec) {
							sameRec = true
						}
					}
					if zeroVal && sameRec {
						found = c.fname(fn) + " itself (called with the zero reflect.Value)"
						if recCall == nil {
							recCall = ci
						}
					}
				})
			}
		}
		// ... and the nil pointer itself is not stored as a field of its own (under the name of its type it
		// would take that name from a promoted field, and encoding/json omits it): from the call of the
		// recorder the walk reaches the next field without a store into a map of field values
		if found != "" && recCall != nil {
			h, _ := c.innermostLoop(recCall.Block())
			if h != nil {
				leak := ""
				seenB := map[*ssa.BasicBlock]bool{}
				var walk func(bb *ssa.BasicBlock, from int)
				walk = func(bb *ssa.BasicBlock, from int) {
					for j := from; j < len(bb.Instrs); j++ {
						if mu, ok := bb.Instrs[j].(*ssa.MapUpdate); ok {
							if p, isP := mu.Map.(*ssa.Parameter); isP {
								if mt, isM := p.Type().Underlying().(*types.Map); isM {
									if _, isI := mt.Elem().Underlying().(*types.Interface); isI {
										leak = relPath(c, mu.Pos())
										return
									}
								}
							}
						}
					}
					for _, sb := range bb.Succs {
						if sb == h || seenB[sb] {
							continue
						}
						seenB[sb] = true
						walk(sb, 0)
					}
				}
				idx := 0
				for j, in := range recCall.Block().Instrs {
					if in == ssa.Instruction(recCall) {
						idx = j + 1
					}
				}
				walk(recCall.Block(), idx)
				if leak != "" {
					o.add(VIOLATED, c.fname(fn)+"/a nil embedded pointer is not a field of its own", leak, "after the names behind a nil embedded pointer have been recorded the walk goes on to store the pointer itself under the name of its type: struct{ *Shallow; Mid } with Mid{ Deep; Shallow string } and a nil *Shallow converts to {Shallow: nil} - the nil takes the name from the promoted string, which is lost (encoding/json omits a nil embedded pointer and keeps the string) - and every struct with a nil embedded pointer gets a spurious null field")
				} else {
					o.add(OK, c.fname(fn)+"/a nil embedded pointer is not a field of its own", relPath(c, recCall.Pos()), "after the recorder the walk moves on to the next field")
				}
			}
		}
		if found != "" {
			o.add(OK, key, relPath(c, fn.Pos()), "the walk hands its record of depths to %s, which records names by the types alone", found)
		} else {
			o.add(VIOLATED, key, relPath(c, fn.Pos()), "the walk records the names of the fields it visits through the values only: the fields behind a nil embedded pointer never take their names, so with struct{ *Shallow; Mid } (Shallow{ID}, Mid{Deep{ID}}) and a nil *Shallow, Deep.ID is stored under ID - and Unmarshal (encoding/json assigns ID to the smallest depth, allocating the pointer) returns Shallow = &{ID: deep}")
		}
	}
	if n == 0 {
		o.add(INFO, "struct walk", "-", "no value-driven walk of package internal keeps a record of depths")
	}
	return o.list
}

// ---------------------------------------------------------------- NIL7

// NIL7: the zero value of an exported struct type is a value callers can make
// (&document.Document{}): a method that stores into a map held in a field of its receiver
// - directly, or through a helper that writes the map it is given (when told to) or hands
// it back - first makes sure the map exists (a nil test of the field whose nil branch
// assigns a fresh map). Without it Set, SetAll and DB.Save(c, &Document{}) panic with
// "assignment to entry in nil map".
func ruleNIL7(c *Ctx) []Ob {
	o := newObs(c, "NIL7")
	// writesParam: g stores into the map it receives as parameter i; flag >= 0: only when bool parameter flag is true
	type wsum struct {
		writes  bool
		flag    int
		returns bool
	}
	sumCache := map[*ssa.Function]map[int]wsum{}
	summary := func(g *ssa.Function, i int) wsum {
		if m := sumCache[g]; m != nil {
			if s, ok := m[i]; ok {
				return s
			}
		} else {
			sumCache[g] = map[int]wsum{}
		}
		s := wsum{flag: -1}
		if i >= len(g.Params) {
			return s
		}
		p := g.Params[i]
		derived := func(v ssa.Value) bool {
			for _, og := range origins(v) {
				if og == ssa.Value(p) {
					return true
				}
			}
			return false
		}
		for _, b := range g.Blocks {
			for _, in := range b.Instrs {
				switch x := in.(type) {
				case *ssa.MapUpdate:
					if derived(x.Map) {
						s.writes = true
						for j, q := range g.Params {
							if bt, ok := q.Type().Underlying().(*types.Basic); ok && bt.Kind() == types.Bool {
								q := q
								onTrue := guardEdges(g, func(cond ssa.Value, branch bool) bool { return cond == ssa.Value(q) && branch })
								if guardedBy(g, b, onTrue) {
									s.flag = j
								}
							}
						}
					}
				case *ssa.Return:
					for _, r := range x.Results {
						if _, isMap := r.Type().Underlying().(*types.Map); isMap && derived(r) {
							s.returns = true
						}
					}
				}
			}
		}
		sumCache[g][i] = s
		return s
	}
	n := 0
	for _, fn := range c.LibFuncs {
		if fn.Signature.Recv() == nil || len(fn.Params) == 0 || fn.Parent() != nil {
			continue
		}
		recv := fn.Params[0]
		pt, isPtr := recv.Type().Underlying().(*types.Pointer)
		if !isPtr {
			continue
		}
		named, _ := pt.Elem().(*types.Named)
		if named == nil || !named.Obj().Exported() || strings.Contains(c.pkgRel(fn), "internal") {
			continue
		}
		st, isStruct := named.Underlying().(*types.Struct)
		if !isStruct {
			continue
		}
		for fi := 0; fi < st.NumFields(); fi++ {
			if _, isMap := st.Field(fi).Type().Underlying().(*types.Map); !isMap {
				continue
			}
			fname := st.Field(fi).Name()
			isFieldLoad := func(v ssa.Value) bool {
				base, f, nn := fieldLoad(v)
				return f == fname && nn == named && (base == ssa.Value(recv) || sameOrigin(base, recv))
			}
			// the values of fn that may be the receiver's map
			var sinks []ssa.Instruction
			var follow func(v ssa.Value, depth int)
			seen := map[ssa.Value]bool{}
			follow = func(v ssa.Value, depth int) {
				if v == nil || seen[v] || depth > 6 || v.Referrers() == nil {
					return
				}
				seen[v] = true
				for _, r := range *v.Referrers() {
					switch x := r.(type) {
					case *ssa.MapUpdate:
						if x.Map == v {
							sinks = append(sinks, x)
						}
					case *ssa.Phi:
						follow(x, depth+1)
					case *ssa.Extract:
						follow(x, depth+1)
					case ssa.CallInstruction:
						g := staticCallee(x)
						if g == nil || !c.IsLib(c.declared(g)) {
							continue
						}
						g = c.declared(g)
						for ai, a := range x.Common().Args {
							if a != v {
								continue
							}
							s := summary(g, ai)
							if s.writes {
								told := true
								if s.flag >= 0 && s.flag < len(x.Common().Args) {
									if k, ok := x.Common().Args[s.flag].(*ssa.Const); ok && k.Value != nil && k.Value.String() == "false" {
										told = false
									}
								}
								if told {
									sinks = append(sinks, x)
								}
							}
							if s.returns {
								if val, ok := x.(ssa.Value); ok {
									follow(val, depth+1)
								}
							}
						}
					}
				}
			}
			var loads []ssa.Value
			for _, b := range fn.Blocks {
				for _, in := range b.Instrs {
					if v, ok := in.(ssa.Value); ok && isFieldLoad(v) {
						loads = append(loads, v)
					}
				}
			}
			for _, l := range loads {
				follow(l, 0)
			}
			// the map obtained from a method of the same receiver that hands out the field: if that method
			// makes sure the map exists (every return of the field comes after the nil test that assigns a
			// fresh map), what is done with its result needs nothing more
			helperSinks := 0
			unsureHelper := ""
			allCalls(fn, func(ci ssa.CallInstruction) {
				g := staticCallee(ci)
				if g == nil || !c.IsLib(c.declared(g)) || c.declared(g) == fn {
					return
				}
				g = c.declared(g)
				if g.Signature.Recv() == nil || len(g.Params) == 0 || len(ci.Common().Args) == 0 {
					return
				}
				if a0 := ci.Common().Args[0]; !(a0 == ssa.Value(recv) || sameOrigin(a0, recv)) {
					return
				}
				val, isVal := ci.(ssa.Value)
				if !isVal {
					return
				}
				if _, isMap := val.Type().Underlying().(*types.Map); !isMap {
					return
				}
				grecv := g.Params[0]
				handsOut, sure := false, true
				for _, ret := range returnsOf(g) {
					rv, has := returnedValue(ret, 0)
					if !has {
						continue
					}
					for _, og := range origins(rv) {
						base, f, nn := fieldLoad(og)
						if f != fname || nn != named || !(base == ssa.Value(grecv) || sameOrigin(base, grecv)) {
							continue
						}
						handsOut = true
						// the nil test + allocation before this return
						ok := false
						for _, b := range g.Blocks {
							if len(b.Instrs) == 0 {
								continue
							}
							iff, isIf := b.Instrs[len(b.Instrs)-1].(*ssa.If)
							if !isIf {
								continue
							}
							x, tnil, isNil := nilTest(iff.Cond)
							if !isNil {
								continue
							}
							if xb, xf, xn := fieldLoad(x); xf != fname || xn != named || !(xb == ssa.Value(grecv) || sameOrigin(xb, grecv)) {
								continue
							}
							nb := b.Succs[1]
							if tnil {
								nb = b.Succs[0]
							}
							for _, in := range nb.Instrs {
								if stt, isSt := in.(*ssa.Store); isSt {
									if sb, sf, sn := fieldOfAddr(stt.Addr); sf == fname && sn == named && (sb == ssa.Value(grecv) || sameOrigin(sb, grecv)) {
										if _, isMk := stt.Val.(*ssa.MakeMap); isMk && (b == ret.Block() || b.Dominates(ret.Block())) {
											ok = true
										}
									}
								}
							}
						}
						if !ok {
							sure = false
						}
					}
				}
				if !handsOut {
					return
				}
				before := len(sinks)
				follow(val, 0)
				if len(sinks) > before {
					if sure {
						helperSinks += len(sinks) - before
						sinks = sinks[:before]
					} else {
						unsureHelper = c.fname(g)
					}
				}
			})
			_ = unsureHelper
			if len(sinks) == 0 && helperSinks == 0 {
				continue
			}
			n++
			key := fmt.Sprintf("%s/field %s exists before it is written", c.fname(fn), fname)
			// a nil test of the field whose nil branch assigns a fresh map, before every sink
			ensured := func(at ssa.Instruction) bool {
				for _, b := range fn.Blocks {
					if len(b.Instrs) == 0 {
						continue
					}
					iff, ok := b.Instrs[len(b.Instrs)-1].(*ssa.If)
					if !ok {
						continue
					}
					x, tnil, isNil := nilTest(iff.Cond)
					if !isNil || !isFieldLoad(x) {
						continue
					}
					nb := b.Succs[1]
					if tnil {
						nb = b.Succs[0]
					}
					assigns := false
					for _, in := range nb.Instrs {
						if stt, ok := in.(*ssa.Store); ok {
							if base, f, nn := fieldOfAddr(stt.Addr); f == fname && nn == named && (base == ssa.Value(recv) || sameOrigin(base, recv)) {
								if _, isMk := stt.Val.(*ssa.MakeMap); isMk {
									assigns = true
								}
							}
						}
					}
					if assigns && (b == at.Block() || b.Dominates(at.Block())) {
						return true
					}
				}
				return false
			}
			bad := ""
			for _, s := range sinks {
				if !ensured(s) {
					bad = relPath(c, s.Pos())
				}
			}
			if bad == "" {
				o.add(OK, key, relPath(c, fn.Pos()), "every store into the receiver's map (direct, or through a helper that writes or hands back the map it is given) comes after a nil test of the field that assigns a fresh map")
			} else {
				o.add(VIOLATED, key, bad, "the method stores into the map held in field %s of its receiver without making sure it exists: on the zero value of the exported type (&%s{}) it panics with \"assignment to entry in nil map\" - document.Set, SetAll, and DB.Save / Insert of such a document", fname, named.Obj().Name())
			}
		}
	}
	if n == 0 {
		o.add(INFO, "receivers", "-", "no method of an exported struct type stores into a map held in a field of its receiver")
	}
	return o.list
}

// ---------------------------------------------------------------- ID6

// ID6: the validation performed when a document is saved does not write the document.
// The record key, the duplicate check and the index entries are computed from the
// document BEFORE it is validated and encoded (insertDocs, UpdateById, replaceDocs call
// saveDocument last): a validator that "repairs" what it checks - rewrites a
// non-canonical _id to its canonical spelling - makes the stored document differ from
// the one the key was built from: FindById(c, id) returns a document whose _id is not
// id, and the canonical spelling can be inserted a second time.
func ruleID6(c *Ctx) []Ob {
	o := newObs(c, "ID6")
	val := c.lookupFunc("document", "Validate")
	if val == nil {
		o.add(UNDECIDED, "model", "-", "document.Validate not found")
		return softenUndecided(o.list)
	}
	// the writers of package document: functions that store into the map of fields (a MapUpdate, a store to the
	// field, a delete) or hand it to a helper told to create what is missing, or call such a function
	direct := map[*ssa.Function]string{}
	for _, fn := range c.LibFuncs {
		if c.pkgRel(fn) != "document" {
			continue
		}
		for _, b := range fn.Blocks {
			for _, in := range b.Instrs {
				switch x := in.(type) {
				case *ssa.MapUpdate:
					if _, isI := x.Map.Type().Underlying().(*types.Map).Elem().Underlying().(*types.Interface); isI {
						direct[fn] = "stores an entry of a map of field values"
					}
				case *ssa.Store:
					if _, f, n := fieldOfAddr(x.Addr); f != "" && n != nil && n.Obj().Name() == "Document" {
						direct[fn] = "assigns field " + f + " of the document"
					}
				case *ssa.Call:
					if bi, isB := x.Call.Value.(*ssa.Builtin); isB && bi.Name() == "delete" {
						direct[fn] = "deletes an entry of a map of field values"
					}
				}
			}
		}
	}
	// a writer that stores only when a bool parameter is true (lookupField's force) does not write when told false
	flagOf := func(g *ssa.Function) int {
		flag := -1
		for j, q := range g.Params {
			bt, ok := q.Type().Underlying().(*types.Basic)
			if !ok || bt.Kind() != types.Bool {
				continue
			}
			q := q
			onTrue := guardEdges(g, func(cond ssa.Value, branch bool) bool { return cond == ssa.Value(q) && branch })
			all := true
			for _, b := range g.Blocks {
				for _, in := range b.Instrs {
					w := false
					switch x := in.(type) {
					case *ssa.MapUpdate:
						w = true
					case *ssa.Call:
						if bi, isB := x.Call.Value.(*ssa.Builtin); isB && bi.Name() == "delete" {
							w = true
						}
					case *ssa.Store:
						if _, f, nn := fieldOfAddr(x.Addr); f != "" && nn != nil && nn.Obj().Name() == "Document" {
							w = true
						}
					}
					if w && !guardedBy(g, b, onTrue) {
						all = false
					}
				}
			}
			if all {
				flag = j
			}
		}
		return flag
	}
	takesDoc := func(f *ssa.Function) bool {
		for _, p := range f.Params {
			if pt, ok := p.Type().Underlying().(*types.Pointer); ok {
				if nn, ok := pt.Elem().(*types.Named); ok && nn.Obj().Name() == "Document" {
					return true
				}
			}
			if _, isMap := p.Type().Underlying().(*types.Map); isMap {
				return true
			}
		}
		return false
	}
	n := 0
	bad := false
	seenF := map[*ssa.Function]bool{val: true}
	work := []*ssa.Function{val}
	for len(work) > 0 {
		f := work[0]
		work = work[1:]
		n++
		var calls []ssa.CallInstruction
		allCalls(f, func(ci ssa.CallInstruction) { calls = append(calls, ci) })
		for _, ci := range calls {
			g := staticCallee(ci)
			if g == nil || !c.IsLib(c.declared(g)) {
				continue
			}
			g = c.declared(g)
			if why, isW := direct[g]; isW && takesDoc(g) {
				told := true
				if fl := flagOf(g); fl >= 0 && fl < len(ci.Common().Args) {
					if k, ok := ci.Common().Args[fl].(*ssa.Const); ok && k.Value != nil && k.Value.String() == "false" {
						told = false
					}
				}
				if told {
					bad = true
					o.add(VIOLATED, "document.Validate/reaches "+c.fname(g), relPath(c, ci.Pos()), "the validation of a document being saved reaches %s (called by %s), which %s: the record key, the duplicate check and the index entries have been computed from the document as it was - a validator that rewrites a non-canonical _id stores the document under the caller's spelling with another _id inside (FindById(c, id) returns a document whose _id is not id; the canonical spelling can be inserted again)", c.fname(g), c.fname(f), why)
				}
				continue
			}
			if !seenF[g] {
				seenF[g] = true
				work = append(work, g)
			}
		}
	}
	if !bad {
		o.add(OK, "document.Validate/writes nothing", relPath(c, val.Pos()), "none of the %d library functions reachable from Validate stores into a document", n)
	}
	return o.list
}

// ---------------------------------------------------------------- KEY13

// KEY13: inside a container every element leaves its type rank in the key, nil
// included. The primitive encoder appends the rank (TypeId) when told to include it -
// which the container encoders do for every element - and a nil element has nothing
// else: if the nil case returns before the rank is appended, [nil] and [] get one key,
// [3, nil] and [3] too, and [nil, 5] sorts where [5] does although nil ranks below
// every number. On every path of the encoder on which the flag is true, a successful
// return is preceded by an orderedcode.Append of an item derived from TypeId.
func ruleKEY13(c *Ctx) []Ob {
	o := newObs(c, "KEY13")
	fromTypeId := func(v ssa.Value) bool {
		seen := map[ssa.Value]bool{}
		var walk func(v ssa.Value, d int) bool
		walk = func(v ssa.Value, d int) bool {
			if v == nil || seen[v] || d > 8 {
				return false
			}
			seen[v] = true
			switch x := v.(type) {
			case *ssa.MakeInterface:
				return walk(x.X, d+1)
			case *ssa.Convert:
				return walk(x.X, d+1)
			case *ssa.ChangeType:
				return walk(x.X, d+1)
			case *ssa.Phi:
				for _, e := range x.Edges {
					if walk(e, d+1) {
						return true
					}
				}
			case *ssa.Call:
				if g := staticCallee(x); g != nil && g.Name() == "TypeId" && c.IsLib(c.declared(g)) {
					return true
				}
			case *ssa.UnOp:
				for _, og := range origins(x) {
					if og != ssa.Value(x) && walk(og, d+1) {
						return true
					}
				}
			}
			return false
		}
		return walk(v, 0)
	}
	n := 0
	for _, fn := range c.LibFuncs {
		if c.pkgRel(fn) != "internal" || fn.Parent() != nil {
			continue
		}
		// the blocks in which the rank is appended
		rank := map[*ssa.BasicBlock]bool{}
		allCalls(fn, func(ci ssa.CallInstruction) {
			items := c.appendItemsArg(ci)
			if items == nil {
				return
			}
			for _, og := range origins(items) {
				sl, ok := og.(*ssa.Slice)
				if !ok {
					continue
				}
				al, ok := sl.X.(*ssa.Alloc)
				if !ok {
					continue
				}
				for _, r := range realReferrers(al) {
					ia, ok := r.(*ssa.IndexAddr)
					if !ok {
						continue
					}
					for _, rr := range realReferrers(ia) {
						if st, ok := rr.(*ssa.Store); ok && fromTypeId(st.Val) {
							rank[ci.Block()] = true
						}
					}
				}
			}
		})
		if len(rank) == 0 {
			continue
		}
		// the flag: a bool parameter on whose true edge (only) the rank is appended
		var flag *ssa.Parameter
		for _, q := range fn.Params {
			bt, ok := q.Type().Underlying().(*types.Basic)
			if !ok || bt.Kind() != types.Bool {
				continue
			}
			q := q
			onTrue := guardEdges(fn, func(cond ssa.Value, branch bool) bool { return cond == ssa.Value(q) && branch })
			all := true
			for b := range rank {
				if !guardedBy(fn, b, onTrue) {
					all = false
				}
			}
			if all {
				flag = q
			}
		}
		n++
		key := c.fname(fn) + "/every element leaves its type rank in the key"
		// a successful return reachable from the entry without crossing a rank block, taking the flag's true edges only
		bad := ""
		seenB := map[*ssa.BasicBlock]bool{}
		var walk func(b *ssa.BasicBlock)
		walk = func(b *ssa.BasicBlock) {
			if seenB[b] || rank[b] || bad != "" {
				return
			}
			seenB[b] = true
			if len(b.Instrs) == 0 {
				return
			}
			switch last := b.Instrs[len(b.Instrs)-1].(type) {
			case *ssa.Return:
				ei := len(last.Results) - 1
				if ei < 0 {
					return
				}
				ev, has := returnedValue(last, ei)
				if !has {
					return
				}
				if !isNilConst(ev) && guardedBy(fn, b, nonNilEdges(fn, sameValue(ev))) {
					return // a failure
				}
				bad = relPath(c, last.Pos())
			case *ssa.If:
				if flag != nil && last.Cond == ssa.Value(flag) {
					walk(b.Succs[0])
					return
				}
				for _, s := range b.Succs {
					walk(s)
				}
			default:
				for _, s := range b.Succs {
					walk(s)
				}
			}
		}
		walk(fn.Blocks[0])
		if bad == "" {
			o.add(OK, key, relPath(c, fn.Pos()), "with the flag set, no successful return is reachable before the type rank has been appended")
		} else {
			o.add(VIOLATED, key, bad, "the encoder can return successfully, although told to include the type rank, before it has appended it: a nil element of an array or object (its rank is all it has) leaves no byte in the key - [nil] and [] share one key, [3, nil] and [3] too, and [nil, 5] is filed where [5] is, after [3], although nil ranks below every number: a range scan or a sort through the index disagrees with the comparison")
		}
	}
	if n == 0 {
		o.add(INFO, "encoder", "-", "no function of package internal appends an item derived from TypeId")
	}
	return o.list
}

// ---------------------------------------------------------------- EXP1

// EXP1: a file the library writes replaces what was at its path. os.WriteFile and
// os.Create truncate; an os.OpenFile opened for writing does so only with O_TRUNC (or
// refuses an existing file with O_EXCL). Without it ExportCollection over a longer
// previous export leaves the old tail after the closing bracket: the export reports
// success and ImportCollection rejects (or mis-reads) the file.
func ruleEXP1(c *Ctx) []Ob {
	o := newObs(c, "EXP1")
	// the platform's values, read from package os as the program was built
	var oWRONLY, oRDWR, oAPPEND, oEXCL, oTRUNC int64 = 0x1, 0x2, 0x400, 0x80, 0x200
	if len(c.LibFuncs) > 0 {
		if osp := c.LibFuncs[0].Prog.ImportedPackage("os"); osp != nil {
			get := func(name string, into *int64) {
				if k := osp.Const(name); k != nil && k.Value != nil {
					if v, ok := constInt(k.Value); ok {
						*into = v
					}
				}
			}
			get("O_WRONLY", &oWRONLY)
			get("O_RDWR", &oRDWR)
			get("O_APPEND", &oAPPEND)
			get("O_EXCL", &oEXCL)
			get("O_TRUNC", &oTRUNC)
		}
	}
	n := 0
	for _, fn := range c.LibFuncs {
		if strings.HasPrefix(c.pkgRel(fn), "store/") {
			continue // the backends' own files are not replaced on open
		}
		k := 0
		allCalls(fn, func(ci ssa.CallInstruction) {
			full := calleeFullName(ci)
			switch full {
			case "os.WriteFile", "os.Create", "io/ioutil.WriteFile":
				n++
				k++
				o.add(OK, fmt.Sprintf("%s/a written file replaces what was at its path #%d", c.fname(fn), k), relPath(c, ci.Pos()), "%s truncates", full)
			case "os.OpenFile":
				args := ci.Common().Args
				if len(args) < 2 {
					return
				}
				flags, isK := constInt(args[1])
				if isK && flags&(oWRONLY|oRDWR) == 0 {
					return // read only
				}
				n++
				k++
				key := fmt.Sprintf("%s/a written file replaces what was at its path #%d", c.fname(fn), k)
				switch {
				case !isK:
					o.add(UNDECIDED, key, relPath(c, ci.Pos()), "the flags of os.OpenFile are not a constant")
				case flags&oTRUNC != 0 || flags&oEXCL != 0:
					o.add(OK, key, relPath(c, ci.Pos()), "opened with O_TRUNC / O_EXCL")
				default:
					what := "overwritten from its beginning, and whatever the previous content had beyond the new length stays"
					if flags&oAPPEND != 0 {
						what = "appended to"
					}
					o.add(VIOLATED, key, relPath(c, ci.Pos()), "the file is opened for writing with neither O_TRUNC nor O_EXCL: an existing file is %s - exporting a collection to the path of a longer previous export leaves the old tail after the closing bracket; ExportCollection reports success and ImportCollection refuses the file", what)
				}
			}
		})
	}
	if n == 0 {
		o.add(INFO, "files", "-", "the library writes no file outside the store adapters")
	}
	return o.list
}

// ---------------------------------------------------------------- NIL8

// NIL8: a pointer that can be nil does not reach, through a container, code that uses it
// untested. A library function with a single pointer result that returns nil for "no
// value" (unaryCriteriaToRange for an operator that does not bound the field) may have
// that result stored into a map, slice or array only behind a nil test - as long as
// some function of the library takes pointers of that type out of a container and
// dereferences them, calls a method on them, or hands them to a library function that
// does so on that parameter, without a test of its own (Range.Intersect on the ranges
// collected per field). The link between the store and the load is the element type.
func ruleNIL8(c *Ctx) []Ob {
	o := newObs(c, "NIL8")
	mayNil := map[*ssa.Function]bool{}
	for changed := true; changed; {
		changed = false
		for _, g := range c.LibFuncs {
			if mayNil[g] || g.Parent() != nil || g.Signature.Results().Len() != 1 {
				continue
			}
			if _, isPtr := g.Signature.Results().At(0).Type().Underlying().(*types.Pointer); !isPtr {
				continue
			}
			for _, ret := range returnsOf(g) {
				rv, ok := returnedValue(ret, 0)
				if !ok {
					continue
				}
				for _, og := range origins(rv) {
					if isNilConst(og) {
						mayNil[g] = true
						changed = true
					}
					if cl, ok := og.(*ssa.Call); ok {
						if h := staticCallee(cl); h != nil && mayNil[c.declared(h)] {
							if !guardedBy(g, ret.Block(), nonNilEdges(g, sameValue(cl))) {
								mayNil[g] = true
								changed = true
							}
						}
					}
				}
			}
		}
	}
	// needsNonNil: g uses its parameter idx (method call, dereference, field access) without a nil test
	needsNonNil := func(g *ssa.Function, idx int) bool {
		if g == nil || len(g.Blocks) == 0 || idx >= len(g.Params) {
			return false
		}
		p := g.Params[idx]
		nn := nonNilEdges(g, sameValue(p))
		for _, r := range realReferrers(p) {
			if derefUse(r, p) != "" && !guardedBy(g, r.Block(), nn) {
				return true
			}
		}
		return false
	}
	// consumers: element types whose values are taken out of a container and used untested
	type use struct{ pos, what string }
	consumers := map[string]use{}
	for _, fn := range c.LibFuncs {
		for _, b := range fn.Blocks {
			for _, in := range b.Instrs {
				v, ok := in.(ssa.Value)
				if !ok {
					continue
				}
				if _, isPtr := v.Type().Underlying().(*types.Pointer); !isPtr {
					continue
				}
				loaded := false
				switch x := v.(type) {
				case *ssa.Lookup:
					loaded = !x.CommaOk
				case *ssa.Extract:
					switch t := x.Tuple.(type) {
					case *ssa.Next:
						loaded = x.Index == 2
					case *ssa.Lookup:
						loaded = t.CommaOk && x.Index == 0
					}
				case *ssa.UnOp:
					if x.Op == token.MUL {
						_, loaded = x.X.(*ssa.IndexAddr)
					}
				}
				if !loaded {
					continue
				}
				nn := nonNilEdges(fn, sameValue(v))
				for _, r := range realReferrers(v) {
					what := derefUse(r, v)
					if what == "" {
						if ci, isCall := r.(ssa.CallInstruction); isCall {
							if g := staticCallee(ci); g != nil && c.IsLib(c.declared(g)) {
								for ai, a := range ci.Common().Args {
									if a == v && needsNonNil(c.declared(g), ai) {
										what = "it is handed to " + c.fname(c.declared(g)) + ", which uses that parameter without a nil test"
									}
								}
							}
						}
					}
					if what != "" && !guardedBy(fn, r.Block(), nn) {
						consumers[types.TypeString(v.Type(), nil)] = use{relPath(c, r.Pos()), c.fname(fn) + ": " + what}
					}
				}
			}
		}
	}
	n := 0
	for _, fn := range c.LibFuncs {
		k := 0
		allCalls(fn, func(ci ssa.CallInstruction) {
			call, ok := ci.(*ssa.Call)
			if !ok {
				return
			}
			g := staticCallee(call)
			if g == nil || !mayNil[c.declared(g)] {
				return
			}
			nn := nonNilEdges(fn, sameValue(call))
			for _, r := range realReferrers(call) {
				into := ""
				switch x := r.(type) {
				case *ssa.MapUpdate:
					if x.Value == ssa.Value(call) {
						into = "a map"
					}
				case *ssa.Store:
					if ia, isIA := x.Addr.(*ssa.IndexAddr); isIA && x.Val == ssa.Value(call) {
						into = "a slice or array"
						// the argument list of append(): the value is handed on, as in NIL4 (what the
						// receiving code does with the elements is its own obligation)
						if al, isAlloc := ia.X.(*ssa.Alloc); isAlloc {
							for _, ar := range realReferrers(al) {
								if sl, isSl := ar.(*ssa.Slice); isSl {
									for _, sr := range realReferrers(sl) {
										if cl, isCall := sr.(*ssa.Call); isCall {
											if bi, isB := cl.Call.Value.(*ssa.Builtin); isB && bi.Name() == "append" {
												into = ""
											}
										}
									}
								}
							}
						}
					}
				}
				if into == "" {
					continue
				}
				n++
				k++
				key := fmt.Sprintf("%s/result of %s goes into a container #%d", c.fname(fn), shortCallee(call), k)
				u, used := consumers[types.TypeString(call.Type(), nil)]
				switch {
				case guardedBy(fn, r.Block(), nn):
					o.add(OK, key, relPath(c, r.Pos()), "stored behind a nil test")
				case !used:
					o.add(OK, key, relPath(c, r.Pos()), "no function of the library uses a %s taken out of a container without testing it", types.TypeString(call.Type(), nil))
				default:
					o.add(VIOLATED, key, relPath(c, r.Pos()), "%s can return nil, and its result is stored into %s without a nil test, while values of that type taken out of a container are used untested (%s at %s): an And of a comparison and an operator that does not bound the same indexed field - Field(\"age\").GtEq(20).And(Field(\"age\").In(10, 30)) - panics with a nil pointer dereference", c.fname(c.declared(g)), into, u.what, u.pos)
				}
			}
		})
	}
	if n == 0 {
		o.add(INFO, "nil results", "-", "no result of a library function that can return nil goes into a container")
	}
	return o.list
}

// isZeroValue: v is the zero value of its type (a constant, or a local that is never assigned).
func isZeroValue(v ssa.Value) bool {
	for _, og := range origins(v) {
		switch x := og.(type) {
		case *ssa.Const:
			continue
		case *ssa.UnOp:
			if al, ok := x.X.(*ssa.Alloc); ok && x.Op == token.MUL && len(storesTo(al)) == 0 {
				continue
			}
			return false
		default:
			return false
		}
	}
	return true
}

// ---------------------------------------------------------------- COD6

// COD6: the stored form of a time keeps its zone offset also where the offset is not a
// whole number of minutes (the local mean times of the tz database: every date before
// 1883 in America/New_York is at -4:56:02). time.Time's binary encoding (version 2)
// holds the seconds of such an offset as a signed byte; the decoder of the time package
// this program is built with is inspected: where it adds that byte unsigned
// (`offset += int(buf[2])`, go1.23) a negative offset is read back 256 seconds too
// large, and a library function that calls (*time.Time).GobDecode / UnmarshalBinary must
// derive the offset from the bytes itself and re-zone the time (time.FixedZone).
func ruleCOD6(c *Ctx) []Ob {
	o := newObs(c, "COD6")
	if len(c.LibFuncs) == 0 {
		return o.list
	}
	prog := c.LibFuncs[0].Prog
	tp := prog.ImportedPackage("time")
	buggy, inspected := false, false
	if tp != nil {
		tp.Build()
		if tt := tp.Type("Time"); tt != nil {
			ms := prog.MethodSets.MethodSet(types.NewPointer(tt.Type()))
			for i := 0; i < ms.Len(); i++ {
				if ms.At(i).Obj().Name() != "UnmarshalBinary" {
					continue
				}
				f := prog.MethodValue(ms.At(i))
				if f == nil || len(f.Blocks) == 0 {
					continue
				}
				inspected = true
				for _, b := range f.Blocks {
					for _, in := range b.Instrs {
						cv, ok := in.(*ssa.Convert)
						if !ok {
							continue
						}
						from, okF := cv.X.Type().Underlying().(*types.Basic)
						to, okT := cv.Type().Underlying().(*types.Basic)
						if !okF || !okT || from.Kind() != types.Uint8 || to.Kind() != types.Int {
							continue
						}
						// used as a summand of the offset
						for _, r := range realReferrers(cv) {
							if bo, ok := r.(*ssa.BinOp); ok && bo.Op == token.ADD {
								buggy = true
							}
						}
					}
				}
			}
		}
	}
	n := 0
	for _, fn := range c.LibFuncs {
		var dec ssa.CallInstruction
		allCalls(fn, func(ci ssa.CallInstruction) {
			switch calleeFullName(ci) {
			case "(*time.Time).GobDecode", "(*time.Time).UnmarshalBinary":
				dec = ci
			}
		})
		if dec == nil {
			continue
		}
		n++
		key := c.fname(fn) + "/the zone offset decoded by the time package is not taken on trust"
		rezones := false
		for g := range c.staticReach(fn) {
			allCalls(g, func(ci ssa.CallInstruction) {
				if calleeFullName(ci) == "time.FixedZone" {
					rezones = true
				}
			})
		}
		switch {
		case !inspected:
			o.add(UNDECIDED, key, relPath(c, dec.Pos()), "the body of (*time.Time).UnmarshalBinary was not loaded")
		case !buggy:
			o.add(OK, key, relPath(c, dec.Pos()), "the time package this program is built with does not add the seconds of the offset as an unsigned byte")
		case rezones:
			o.add(OK, key, relPath(c, dec.Pos()), "the time package adds the seconds of the offset unsigned; the function re-zones the decoded time (time.FixedZone)")
		default:
			o.add(VIOLATED, key, relPath(c, dec.Pos()), "the time package this program is built with reads the seconds of a zone offset (binary encoding version 2) as an unsigned byte, and the decoded time is used as it is: a time at -4:56:02 (America/New_York before 1883) is read back at -4:51:46 - the same instant with another zone offset")
		}
	}
	if n == 0 {
		o.add(INFO, "time codec", "-", "no library function decodes a time with (*time.Time).GobDecode / UnmarshalBinary")
	}
	return o.list
}

// ---------------------------------------------------------------- NORM6

// NORM6: the `$` that marks a string operand as a field reference is removed ONCE: the
// name of the field is what follows the marker. strings.TrimLeft(s, "$") (or Trim) strips
// every leading `$`: "$$a", the reference to a field named "$a", reads field "a", while
// Field("$a") reads "$a" - the two spellings of one reference disagree.
func ruleNORM6(c *Ctx) []Ob {
	o := newObs(c, "NORM6")
	n := 0
	for _, fn := range c.LibFuncs {
		k := 0
		allCalls(fn, func(ci ssa.CallInstruction) {
			full := calleeFullName(ci)
			args := ci.Common().Args
			isMarker := func(v ssa.Value) bool {
				kst, ok := v.(*ssa.Const)
				return ok && kst.Value != nil && kst.Value.Kind() == constant.String && constant.StringVal(kst.Value) == "$"
			}
			switch full {
			case "strings.TrimLeft", "strings.Trim", "strings.TrimPrefix", "strings.CutPrefix":
				if len(args) != 2 || !isMarker(args[1]) {
					return
				}
			default:
				return
			}
			n++
			k++
			key := fmt.Sprintf("%s/the reference marker is removed once #%d", c.fname(fn), k)
			if full == "strings.TrimPrefix" || full == "strings.CutPrefix" {
				o.add(OK, key, relPath(c, ci.Pos()), "%s removes one marker", full)
			} else {
				o.add(VIOLATED, key, relPath(c, ci.Pos()), "%s(s, \"$\") removes every leading `$`, not the marker alone: the operand \"$$a\" - the reference to the field named \"$a\" - reads field \"a\", while Field(\"$a\") reads \"$a\": with {\"$a\": 1, \"a\": 2, \"one\": 1}, Field(\"one\").Eq(Field(\"$a\")) matches and Field(\"one\").Eq(\"$$a\") does not", full)
			}
		})
	}
	if n == 0 {
		o.add(INFO, "marker", "-", "no strings.Trim* call with the cutset \"$\" (the marker is removed otherwise)")
	}
	return o.list
}

// ---------------------------------------------------------------- GUARD3

// GUARD3: a name that becomes a ';'-terminated variable part of the key layouts - the name
// of a collection being created, the field of an index being created - is refused when
// it contains the reserved separator. Nothing escapes names: the documents of a
// collection "a;d:b" lie inside the document prefix of "a" (c:a;d:), the entries of an
// index on "x;y" inside the prefix of the index on "x": FindAll returns foreign
// documents, Update writes them into the wrong collection, DropIndex deletes another
// collection's documents. The catalog record of a NEW collection is written, and the
// field of a new index is recorded, only where the name was found free of ';'.
func ruleGUARD3(c *Ctx) []Ob {
	o := newObs(c, "GUARD3")
	hasSep := func(v ssa.Value) bool {
		k, ok := v.(*ssa.Const)
		if !ok || k.Value == nil {
			return false
		}
		switch k.Value.Kind() {
		case constant.String:
			return strings.Contains(constant.StringVal(k.Value), ";")
		case constant.Int:
			n, _ := constant.Int64Val(k.Value)
			return n == ';'
		}
		return false
	}
	// freeOn: (branch on which src is known to be free of ';', ok)
	var freeOn func(cond ssa.Value, same func(ssa.Value) bool, depth int) (bool, bool)
	freeOn = func(cond ssa.Value, same func(ssa.Value) bool, depth int) (bool, bool) {
		if depth > 3 {
			return false, false
		}
		switch x := cond.(type) {
		case *ssa.UnOp:
			if x.Op == token.NOT {
				b, ok := freeOn(x.X, same, depth+1)
				return !b, ok
			}
		case *ssa.Call:
			full := calleeFullName(x)
			args := x.Call.Args
			switch full {
			case "strings.Contains", "strings.ContainsRune", "strings.ContainsAny", "bytes.Contains", "bytes.ContainsRune", "bytes.ContainsAny":
				if len(args) == 2 && same(args[0]) && hasSep(args[1]) {
					return false, true
				}
			}
			// a library predicate about its own parameter
			if g := staticCallee(x); g != nil && c.IsLib(c.declared(g)) {
				g = c.declared(g)
				if g.Signature.Results().Len() != 1 {
					return false, false
				}
				for i, a := range args {
					if !same(a) || i >= len(g.Params) {
						continue
					}
					p := g.Params[i]
					sameP := func(v ssa.Value) bool { return v == ssa.Value(p) || sameOrigin(v, p) }
					rets := returnsOf(g)
					if len(rets) != 1 {
						continue
					}
					rv, has := returnedValue(rets[0], 0)
					if !has {
						continue
					}
					if b, ok := freeOn(rv, sameP, depth+1); ok {
						return b, true
					}
				}
			}
		case *ssa.BinOp:
			cl, ok := x.X.(*ssa.Call)
			if !ok {
				return false, false
			}
			switch calleeFullName(cl) {
			case "strings.Index", "strings.IndexByte", "strings.IndexRune", "strings.IndexAny", "bytes.IndexByte", "bytes.Index":
			default:
				return false, false
			}
			if len(cl.Call.Args) != 2 || !same(cl.Call.Args[0]) || !hasSep(cl.Call.Args[1]) {
				return false, false
			}
			k, isK := constInt(x.Y)
			if !isK {
				return false, false
			}
			switch {
			case x.Op == token.LSS && k == 0, x.Op == token.EQL && k == -1, x.Op == token.LEQ && k == -1:
				return true, true
			case x.Op == token.GEQ && k == 0, x.Op == token.NEQ && k == -1, x.Op == token.GTR && k == -1:
				return false, true
			}
		}
		return false, false
	}
	freeEdges := func(fn *ssa.Function, src ssa.Value) []edge {
		same := func(v ssa.Value) bool { return v == src || sameOrigin(v, src) }
		return guardEdges(fn, func(cond ssa.Value, branch bool) bool {
			b, ok := freeOn(cond, same, 0)
			return ok && b == branch
		})
	}
	n := 0
	// (a) the field of a new index
	for _, fn := range c.LibFuncs {
		if c.pkgRel(fn) != "" {
			continue
		}
		for _, b := range fn.Blocks {
			for _, in := range b.Instrs {
				st, ok := in.(*ssa.Store)
				if !ok {
					continue
				}
				_, f, nm := fieldOfAddr(st.Addr)
				if f != "Field" || nm == nil || !c.libNamedIs(nm, "index", "Info") {
					continue
				}
				var src ssa.Value
				for _, og := range origins(st.Val) {
					if p, ok := og.(*ssa.Parameter); ok {
						src = p
					}
				}
				if src == nil {
					continue
				}
				n++
				key := c.fname(fn) + "/the field of a new index is free of the separator"
				if guardedBy(fn, b, freeEdges(fn, src)) {
					o.add(OK, key, relPath(c, st.Pos()), "recorded only where the name was found free of ';'")
				} else {
					o.add(VIOLATED, key, relPath(c, st.Pos()), "the caller's field name becomes a ';'-terminated part of the index keys without having been found free of ';': the entries of an index on \"x;y\" (c:coll;i:x;y;t:...) lie inside the prefix of the index on \"x\" (c:coll;i:x;) - a scan of x yields every document twice, UpdateFunc runs twice on each, Delete through it drives the counter negative, and DropIndex(x) empties the other index")
				}
			}
		}
	}
	// (b) the name of a new collection: the catalog record written for a freshly made metadata object
	// the catalog writer, by role: a function of the root package given a name and a pointer to a struct, which
	// marshals the struct (encoding/json) and puts it into the store
	var savers []*ssa.Function
	for _, fn := range c.LibFuncs {
		if c.pkgRel(fn) != "" || fn.Parent() != nil {
			continue
		}
		var sp, mp *ssa.Parameter
		for _, p := range fn.Params {
			if isStringType(p.Type()) && sp == nil {
				sp = p
			}
			if pt, ok := p.Type().Underlying().(*types.Pointer); ok {
				if nn, ok := pt.Elem().(*types.Named); ok {
					if _, isS := nn.Underlying().(*types.Struct); isS && nn.Obj().Pkg() != nil && nn.Obj().Pkg().Path() == c.ModPath {
						mp = p
					}
				}
			}
		}
		if sp == nil || mp == nil {
			continue
		}
		marshals, sets := false, false
		allCalls(fn, func(ci ssa.CallInstruction) {
			if calleeFullName(ci) == "encoding/json.Marshal" && len(ci.Common().Args) == 1 {
				for _, og := range origins(ci.Common().Args[0]) {
					if og == ssa.Value(mp) {
						marshals = true
					}
				}
			}
			if ci.Common().IsInvoke() && ci.Common().Method != nil && ci.Common().Method.Name() == "Set" {
				sets = true
			}
		})
		if marshals && sets {
			savers = append(savers, fn)
		}
	}
	for _, save := range savers {
		for _, cs := range c.staticCallers(save) {
			fn := cs.Parent()
			if fn == nil || !c.IsLib(fn) {
				continue
			}
			args := cs.Common().Args
			var name, meta ssa.Value
			// the arguments at the positions of the writer's name and struct parameters
			for i, p := range save.Params {
				if i >= len(args) {
					continue
				}
				if isStringType(p.Type()) && name == nil {
					name = args[i]
				}
				if pt, ok := p.Type().Underlying().(*types.Pointer); ok {
					if nn, ok := pt.Elem().(*types.Named); ok {
						if _, isS := nn.Underlying().(*types.Struct); isS && nn.Obj().Pkg() != nil && nn.Obj().Pkg().Path() == c.ModPath {
							meta = args[i] // the last such parameter (the receiver comes first)
						}
					}
				}
			}
			if name == nil || meta == nil {
				continue
			}
			fresh := false
			for _, og := range origins(meta) {
				if _, isAlloc := og.(*ssa.Alloc); isAlloc {
					fresh = true
				}
			}
			if !fresh {
				continue
			}
			n++
			key := c.fname(fn) + "/the name of a new collection is free of the separator"
			if guardedBy(fn, cs.Block(), freeEdges(fn, name)) {
				o.add(OK, key, relPath(c, cs.Pos()), "the catalog record of a new collection is written only where the name was found free of ';'")
			} else {
				o.add(VIOLATED, key, relPath(c, cs.Pos()), "the catalog record of a new collection is written without the name having been found free of ';': the documents of a collection \"a;d:b\" (c:a;d:b;d:<id>) lie inside the document prefix of \"a\" (c:a;d:) - FindAll(\"a\") returns them, Update(\"a\") writes them into a, Delete leaves them behind and drives the counter negative, DropIndex(\"c\", \"x\") deletes the documents of \"c;i:x\"")
			}
		}
	}
	if n == 0 {
		o.add(UNDECIDED, "names", "-", "neither the record of a new index field nor the catalog record of a new collection was recognised")
		return softenUndecided(o.list)
	}
	return o.list
}
