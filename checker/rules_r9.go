package main

import (
	"fmt"
	"go/constant"
	"go/token"
	"go/types"
	"math/big"
	"sort"
	"strings"

	"golang.org/x/tools/go/ssa"
)

// lenNonZeroEdges: the conditional edges of fn on which len(x) (x accepted by same) is known not to be zero.
func lenNonZeroEdges(fn *ssa.Function, same func(ssa.Value) bool) []edge {
	return guardEdges(fn, func(cond ssa.Value, branch bool) bool {
		bo, ok := cond.(*ssa.BinOp)
		if !ok {
			return false
		}
		lc, ok := bo.X.(*ssa.Call)
		if !ok {
			return false
		}
		bi, isB := lc.Call.Value.(*ssa.Builtin)
		if !isB || bi.Name() != "len" || len(lc.Call.Args) != 1 || !same(lc.Call.Args[0]) {
			return false
		}
		k, isK := constInt(bo.Y)
		if !isK || k != 0 {
			return false
		}
		return (bo.Op == token.GTR && branch) || (bo.Op == token.NEQ && branch) || (bo.Op == token.EQL && !branch) || (bo.Op == token.LEQ && !branch)
	})
}

// ---------------------------------------------------------------- EMPTY4

// EMPTY4: the copy of a container made by the document copy helper (util.CopyMap and
// what it calls) is never nil where the original is not: an empty array, an empty byte
// string and an empty object stay empty and non-nil. `append([]T(nil), s...)` - the
// usual clone idiom - yields nil for an empty s: msgpack and encoding/json write a nil
// slice as a null, so DB.Update (which stores Copy() + SetAll) turns every empty array
// or byte string of the document into a null, and ExportCollection (AsMap) exports
// `null` for `[]`.
func ruleEMPTY4(c *Ctx) []Ob {
	o := newObs(c, "EMPTY4")
	cp := c.lookupFunc("util", "CopyMap")
	if cp == nil {
		o.add(UNDECIDED, "model", "-", "util.CopyMap not found")
		return softenUndecided(o.list)
	}
	var fns []*ssa.Function
	for f := range c.staticReach(cp) {
		if c.pkgRel(f) == "util" {
			fns = append(fns, f)
		}
	}
	sort.Slice(fns, func(i, j int) bool { return c.fname(fns[i]) < c.fname(fns[j]) })
	isContainer := func(t types.Type) bool {
		switch t.Underlying().(type) {
		case *types.Slice, *types.Map:
			return true
		}
		return false
	}
	// nonNil: v, a container built by fn, is not nil (whenever the original at hand is not)
	var nonNil func(fn *ssa.Function, v ssa.Value, at *ssa.BasicBlock, depth int) (bool, string)
	nonNil = func(fn *ssa.Function, v ssa.Value, at *ssa.BasicBlock, depth int) (bool, string) {
		if depth > 4 {
			return false, "not followed"
		}
		for _, og := range origins(v) {
			switch x := og.(type) {
			case *ssa.MakeSlice, *ssa.MakeMap:
				continue
			case *ssa.Slice:
				// a[:] of a fresh array (a composite literal) or a slice of a non-nil slice
				if _, isAlloc := x.X.(*ssa.Alloc); isAlloc {
					continue
				}
				if ok, why := nonNil(fn, x.X, at, depth+1); !ok {
					return false, why
				}
				continue
			case *ssa.Call:
				if bi, isB := x.Call.Value.(*ssa.Builtin); isB && bi.Name() == "append" {
					base := x.Call.Args[0]
					if isNilConst(base) {
						if len(x.Call.Args) > 1 && (guardedBy(fn, x.Block(), lenNonZeroEdges(fn, sameValue(x.Call.Args[1]))) || guardedBy(fn, x.Block(), lenNonZeroEdges(fn, func(y ssa.Value) bool { return sameOrigin(y, x.Call.Args[1]) }))) {
							continue
						}
						return false, "append to a nil slice yields nil when nothing is appended"
					}
					if ok, why := nonNil(fn, base, at, depth+1); !ok {
						return false, why
					}
					continue
				}
				switch calleeFullName(x) {
				case "bytes.Clone", "slices.Clone", "maps.Clone":
					continue // nil only for a nil argument
				}
				if g := staticCallee(x); g != nil && c.IsLib(c.declared(g)) {
					g = c.declared(g)
					all := true
					why := ""
					for _, ret := range returnsOf(g) {
						rv, has := returnedValue(ret, 0)
						if !has {
							continue
						}
						if ok, w := nonNil(g, rv, ret.Block(), depth+1); !ok {
							all, why = false, w
						}
					}
					if all {
						continue
					}
					return false, why
				}
				return false, "result of " + calleeFullName(x) + " (not known to be non-nil)"
			case *ssa.Const:
				if x.Value == nil {
					// nil where the original is nil
					onNil := false
					for _, prm := range fn.Params {
						if guardedBy(fn, at, nilEdges(fn, sameValue(prm))) {
							onNil = true
						}
					}
					if onNil {
						continue
					}
					return false, "a nil constant"
				}
				continue
			case *ssa.Parameter:
				// the original itself handed back (a nil kept nil): nil only where the original is
				// (that it is not a copy is ALIAS3's matter)
				continue
			default:
				return false, fmt.Sprintf("%T not followed", og)
			}
		}
		return true, ""
	}
	n := 0
	for _, fn := range fns {
		k := 0
		check := func(at ssa.Instruction, b *ssa.BasicBlock, val ssa.Value) {
			v := val
			if mi, ok := v.(*ssa.MakeInterface); ok {
				v = mi.X
			}
			if !isContainer(v.Type()) {
				return
			}
			// only copies: a value of the original handed through (ALIAS3) is not a copy
			for _, og := range origins(v) {
				switch x := og.(type) {
				case *ssa.Parameter:
					return
				case *ssa.Extract:
					if _, isTA := x.Tuple.(*ssa.TypeAssert); isTA {
						return
					}
					if _, isNext := x.Tuple.(*ssa.Next); isNext {
						return
					}
				}
			}
			n++
			k++
			key := fmt.Sprintf("%s/copy of a container is not nil #%d", c.fname(fn), k)
			if ok, why := nonNil(fn, v, b, 0); ok {
				o.add(OK, key, relPath(c, at.Pos()), "made by make(), a literal, or an append to one of these")
			} else {
				o.add(VIOLATED, key, relPath(c, at.Pos()), "the copy of an empty container can be nil (%s): an empty array or byte string of a document becomes a null in Copy()/AsMap()/ToMap() - DB.Update, which stores the copy, turns `[]` and []byte{} fields nobody touched into nil, and ExportCollection writes null for []", why)
			}
		}
		for _, b := range fn.Blocks {
			for _, in := range b.Instrs {
				switch x := in.(type) {
				case *ssa.MapUpdate:
					check(x, b, x.Value)
				case *ssa.Store:
					if _, isIA := x.Addr.(*ssa.IndexAddr); isIA {
						check(x, b, x.Val)
					}
				case *ssa.Return:
					for _, r := range x.Results {
						check(x, b, r)
					}
				}
			}
		}
	}
	if n == 0 {
		o.add(UNDECIDED, "copy helper", relPath(c, cp.Pos()), "no container built by util.CopyMap was recognised")
		return softenUndecided(o.list)
	}
	return o.list
}

// ---------------------------------------------------------------- IMM4

// IMM4: no function of the library writes into a slice or a map that it reached through
// a criteria object (the operand of a UnaryCriteria: the list of In / Contains) or a
// query: neither an element store, nor an entry store, nor an append onto (a re-slice
// of) it, which reuses its backing array. The criteria normaliser runs on every
// operation, Count and Exists included: building the normalised list in the operand's
// own array (`values[:0]`) rewrites the caller's query - and the variadic slice the
// caller passed to In() - on every read.
func ruleIMM4(c *Ctx) []Ob {
	o := newObs(c, "IMM4")
	isQueryStruct := func(n *types.Named) bool {
		if n == nil || n.Obj().Pkg() == nil || !strings.HasSuffix(n.Obj().Pkg().Path(), "/query") {
			return false
		}
		_, isS := n.Underlying().(*types.Struct)
		return isS
	}
	var from func(v ssa.Value, depth int, seen map[ssa.Value]bool) (bool, string)
	from = func(v ssa.Value, depth int, seen map[ssa.Value]bool) (bool, string) {
		if v == nil || seen[v] || depth > 10 {
			return false, ""
		}
		seen[v] = true
		for _, og := range origins(v) {
			if _, f, n := fieldLoad(og); f != "" && isQueryStruct(n) {
				return true, namedName(n) + "." + f
			}
			switch x := og.(type) {
			case *ssa.Parameter:
				g := x.Parent()
				idx := -1
				for i, p := range g.Params {
					if p == x {
						idx = i
					}
				}
				for _, cs := range c.staticCallers(g) {
					args := cs.Common().Args
					if idx < 0 || idx >= len(args) || !c.IsLib(cs.Parent()) {
						continue
					}
					if ok, w := from(args[idx], depth+1, seen); ok {
						return true, w
					}
				}
			case *ssa.TypeAssert:
				if ok, w := from(x.X, depth+1, seen); ok {
					return true, w
				}
			case *ssa.Extract:
				if _, isCall := x.Tuple.(*ssa.Call); isCall {
					continue
				}
				if ok, w := from(x.Tuple, depth+1, seen); ok {
					return true, w
				}
			case *ssa.Slice:
				if ok, w := from(x.X, depth+1, seen); ok {
					return true, w
				}
			case *ssa.UnOp:
				if x.Op == token.MUL {
					if ia, ok := x.X.(*ssa.IndexAddr); ok {
						if ok, w := from(ia.X, depth+1, seen); ok {
							return true, w
						}
					}
				}
			case *ssa.Lookup:
				if ok, w := from(x.X, depth+1, seen); ok {
					return true, w
				}
			case *ssa.Call:
				// an append onto it is still it (as far as the backing array goes)
				if bi, isB := x.Call.Value.(*ssa.Builtin); isB && bi.Name() == "append" {
					if ok, w := from(x.Call.Args[0], depth+1, seen); ok {
						return true, w
					}
				}
			}
		}
		return false, ""
	}
	n, bad := 0, 0
	for _, fn := range c.LibFuncs {
		k := 0
		rep := func(at ssa.Instruction, what, via string) {
			k++
			bad++
			o.add(VIOLATED, fmt.Sprintf("%s/writes into the criteria it was given #%d", c.fname(fn), k), relPath(c, at.Pos()), "%s reached through %s: the operation rewrites the query object (and the slice the caller passed to In/Contains) it was given - Count, Exists, FindFirst, ForEach and FindAll normalise the criteria on every call, so int/int8 elements become int64, pointers are replaced by what they pointed to at first use, and a list whose later element fails to normalise is left half rewritten", what, via)
		}
		for _, b := range fn.Blocks {
			for _, in := range b.Instrs {
				switch x := in.(type) {
				case *ssa.Store:
					if ia, ok := x.Addr.(*ssa.IndexAddr); ok {
						n++
						if yes, via := from(ia.X, 0, map[ssa.Value]bool{}); yes {
							rep(x, "an element is assigned in a slice", via)
						}
					}
				case *ssa.MapUpdate:
					n++
					if yes, via := from(x.Map, 0, map[ssa.Value]bool{}); yes {
						rep(x, "an entry is assigned in a map", via)
					}
				case *ssa.Call:
					if bi, isB := x.Call.Value.(*ssa.Builtin); isB && bi.Name() == "append" {
						n++
						if yes, via := from(x.Call.Args[0], 0, map[ssa.Value]bool{}); yes {
							rep(x, "append() extends (a re-slice of) a slice", via)
						}
					}
				}
			}
		}
	}
	if bad == 0 {
		o.add(OK, "library/no write into a criteria operand or a query's slices", "-", "%d element stores, entry stores and appends inspected: none targets a slice or map loaded from a field of a query / criteria struct", n)
	}
	return o.list
}

// ---------------------------------------------------------------- TERM1

// TERM1: a loop of a store adapter that repeats a cursor step until it yields a key
// (bbolt's Cursor.Prev returns a nil key on a page emptied by the running transaction,
// so the adapter retries) terminates: (a) it is repeated only where a key is known to
// exist strictly before the current one - bytes.Compare(first key of the bucket, from)
// < 0; with <= the retry goes on for ever when the cursor stands on the first key,
// where Prev has run off the beginning and yields nil from then on (a descending scan
// of an index of an empty collection); (b) the cursor is positioned afresh (Seek)
// between that test and the retries: the path a bbolt cursor keeps is not updated by
// the writes of its transaction, and once it is exhausted Prev yields nil for ever
// although the test (made with a fresh cursor) sees a key before.
func ruleTERM1(c *Ctx) []Ob {
	o := newObs(c, "TERM1")
	isPrev := func(ci ssa.CallInstruction) bool { return calleeFullName(ci) == "(*go.etcd.io/bbolt.Cursor).Prev" }
	isFirstKey := func(v ssa.Value) bool {
		for _, og := range origins(v) {
			if ex, ok := og.(*ssa.Extract); ok && ex.Index == 0 {
				if cl, ok := ex.Tuple.(*ssa.Call); ok && calleeFullName(cl) == "(*go.etcd.io/bbolt.Cursor).First" {
					return true
				}
			}
		}
		return false
	}
	// strictCond: on the given branch of cond, "first key of the bucket < the other operand" is known
	var strictCond func(cond ssa.Value, branch bool, depth int) bool
	strictCond = func(cond ssa.Value, branch bool, depth int) bool {
		if depth > 3 {
			return false
		}
		switch x := cond.(type) {
		case *ssa.UnOp:
			if x.Op == token.NOT {
				return strictCond(x.X, !branch, depth+1)
			}
		case *ssa.Call:
			// a boolean helper that answers true only where the strict comparison holds
			g := staticCallee(x)
			if g == nil || !c.IsLib(c.declared(g)) {
				return false
			}
			g = c.declared(g)
			if g.Signature.Results().Len() != 1 || len(g.Blocks) == 0 {
				return false
			}
			if !branch {
				// a helper that answers FALSE only where the strict comparison holds (atFirstKey(k): "no key
				// comes before k" - false means one does)
				for _, ret := range returnsOf(g) {
					rv, has := returnedValue(ret, 0)
					if !has {
						return false
					}
					for _, og := range origins(rv) {
						if b, isC := constBool(og); isC && b {
							continue // not a way of answering false
						}
						if strictCond(og, false, depth+1) {
							continue
						}
						return false
					}
				}
				return true
			}
			for _, ret := range returnsOf(g) {
				rv, has := returnedValue(ret, 0)
				if !has {
					return false
				}
				for _, og := range origins(rv) {
					if b, isC := constBool(og); isC && !b {
						continue
					}
					if strictCond(og, true, depth+1) {
						continue
					}
					// true returned under a strict guard
					ok := false
					if b, isC := constBool(og); isC && b {
						pb := ret.Block()
						if phi, isPhi := rv.(*ssa.Phi); isPhi {
							for i, e := range phi.Edges {
								if e == og {
									pb = phi.Block().Preds[i]
								}
							}
						}
						es := guardEdges(g, func(c2 ssa.Value, br bool) bool { return strictCond(c2, br, depth+1) })
						ok = guardedBy(g, pb, es)
					}
					if !ok {
						return false
					}
				}
			}
			return true
		case *ssa.BinOp:
			cmp, ok := x.X.(*ssa.Call)
			if !ok || calleeFullName(cmp) != "bytes.Compare" {
				return false
			}
			k, isK := constInt(x.Y)
			if !isK {
				return false
			}
			firstLeft := isFirstKey(cmp.Call.Args[0])
			firstRight := isFirstKey(cmp.Call.Args[1])
			if firstLeft == firstRight {
				return false
			}
			// relations r = sign(Compare(a, b)) on which the branch is taken
			for _, r := range []int64{-1, 0, 1} {
				var t bool
				switch x.Op {
				case token.LSS:
					t = r < k
				case token.LEQ:
					t = r <= k
				case token.GTR:
					t = r > k
				case token.GEQ:
					t = r >= k
				case token.EQL:
					t = r == k
				case token.NEQ:
					t = r != k
				default:
					return false
				}
				want := int64(-1)
				if firstRight {
					want = 1
				}
				if t == branch && r != want {
					return false
				}
			}
			return true
		}
		return false
	}
	strictEdgesOf := func(fn *ssa.Function) []edge {
		return guardEdges(fn, func(cond ssa.Value, branch bool) bool { return strictCond(cond, branch, 0) })
	}
	n := 0
	for _, fn := range c.LibFuncs {
		if !strings.HasPrefix(c.pkgRel(fn), "store/") {
			continue
		}
		strict := strictEdgesOf(fn)
		// the function may be a helper that is only ever called where a key is known to exist before
		calledStrict := false
		if sites := c.staticCallers(fn); len(sites) > 0 {
			calledStrict = true
			for _, cs := range sites {
				caller := cs.Parent()
				if caller == nil || !guardedBy(caller, cs.Block(), strictEdgesOf(caller)) {
					calledStrict = false
				}
			}
		}
		seen := map[*ssa.BasicBlock]bool{}
		allCalls(fn, func(p ssa.CallInstruction) {
			if !isPrev(p) || !c.inLoop(p.Block()) {
				return
			}
			h, body := c.innermostLoop(p.Block())
			if h == nil || seen[h] {
				return
			}
			// a retry loop: governed by a nil test of the key Prev returned
			retry := false
			for b := range body {
				if len(b.Instrs) == 0 {
					continue
				}
				if iff, ok := b.Instrs[len(b.Instrs)-1].(*ssa.If); ok {
					if x, _, isNil := nilTest(iff.Cond); isNil {
						for _, og := range origins(x) {
							if ex, ok := og.(*ssa.Extract); ok {
								if cl, ok := ex.Tuple.(*ssa.Call); ok && isPrev(cl) {
									retry = true
								}
							}
						}
					}
				}
			}
			if !retry {
				return
			}
			seen[h] = true
			n++
			key := c.fname(fn) + "/the retries of Cursor.Prev end"
			// (a) every repetition (the block of the Prev inside the loop) is reached only over a strict edge
			if !calledStrict && !guardedBy(fn, p.Block(), strict) {
				o.add(VIOLATED, key, relPath(c, p.Pos()), "Cursor.Prev is repeated while it yields no key without it being known that a key exists strictly before the current one (bytes.Compare(first key, from) < 0): when the cursor stands on the first key of the bucket, Prev has run off the beginning and returns nil from then on - a descending scan of an index of an emptied collection (the seek lands on the first key of the bucket) never returns")
				return
			}
			// (b) a Seek of the same cursor, after the test, before the repetitions
			fresh := false
			allCalls(fn, func(s ssa.CallInstruction) {
				if calleeFullName(s) != "(*go.etcd.io/bbolt.Cursor).Seek" {
					return
				}
				if !(s.Common().Args[0] == p.Common().Args[0] || sameOrigin(s.Common().Args[0], p.Common().Args[0])) {
					return
				}
				if (calledStrict || guardedBy(fn, s.Block(), strict)) && (s.Block() == p.Block() || s.Block().Dominates(p.Block())) {
					fresh = true
				}
			})
			if !fresh {
				o.add(VIOLATED, key, relPath(c, p.Pos()), "Cursor.Prev is repeated on the path the cursor has kept, which the writes of the transaction do not update: once that path is exhausted Prev yields nil for ever, although the test made with a fresh cursor sees a key before - a reverse cursor on the first key, a smaller key put in the same transaction, and Next() never returns. The cursor is to be positioned afresh (Seek) before the retries")
				return
			}
			o.add(OK, key, relPath(c, p.Pos()), "repeated only where a key exists strictly before the current one, on a cursor positioned afresh after that test")
		})
	}
	if n == 0 {
		o.add(INFO, "bbolt adapter", "-", "no loop retrying (*bbolt.Cursor).Prev in the adapters")
	}
	return o.list
}

// ---------------------------------------------------------------- CMP14

// CMP14: when a field takes a name in the record of depths (CMP6), what a field of a
// greater depth has stored under that name is removed or replaced before the walk goes
// on to the next field - on every path, also the one where the field itself is omitted
// (omitempty): `struct{ Base; Note string "clover:\"Note,omitempty\"" }` with Base.Note
// set and an empty Note converts to a document without Note, as in Go and encoding/json.
// The same holds for the walk back (the names encoding/json expects).
func ruleCMP14(c *Ctx) []Ob {
	o := newObs(c, "CMP14")
	n := 0
	for _, fn := range c.LibFuncs {
		if c.pkgRel(fn) != "internal" {
			continue
		}
		k := 0
		for _, b := range fn.Blocks {
			for i, in := range b.Instrs {
				bk, ok := in.(*ssa.MapUpdate)
				if !ok {
					continue
				}
				// the record of depths: a map parameter of the walk, or a map kept in a field of the walk's state
				// (a struct the function is given): then the destinations are the maps of field values in the
				// other fields of that struct, and "the next field" is the return to the caller's loop
				if _, isP := bk.Map.(*ssa.Parameter); !isP {
					base, _, nm := fieldLoad(bk.Map)
					bpar, baseIsParam := base.(*ssa.Parameter)
					mt2, isMap2 := bk.Map.Type().Underlying().(*types.Map)
					if nm == nil || !baseIsParam || !isMap2 {
						continue
					}
					if bt, isB := mt2.Elem().Underlying().(*types.Basic); !isB || bt.Info()&types.IsInteger == 0 {
						continue
					}
					st, isStruct := nm.Underlying().(*types.Struct)
					if !isStruct {
						continue
					}
					for fi := 0; fi < st.NumFields(); fi++ {
						pm, ok := st.Field(fi).Type().Underlying().(*types.Map)
						if !ok {
							continue
						}
						if _, isI := pm.Elem().Underlying().(*types.Interface); !isI {
							continue
						}
						dstField := st.Field(fi).Name()
						// a map of field values the walk reads (the document it renames) is not a destination
						readHere := false
						for _, b2 := range fn.Blocks {
							for _, in2 := range b2.Instrs {
								if lk, ok := in2.(*ssa.Lookup); ok {
									if _, f2, _ := fieldLoad(lk.X); f2 == dstField {
										readHere = true
									}
								}
								if rg, ok := in2.(*ssa.Range); ok {
									if _, f2, _ := fieldLoad(rg.X); f2 == dstField {
										readHere = true
									}
								}
							}
						}
						if readHere {
							continue
						}
						n++
						k++
						key := fmt.Sprintf("%s/a field that takes a name removes what a deeper field stored under it #%d", c.fname(fn), k)
						isDst := func(v ssa.Value) bool {
							b2, f2, _ := fieldLoad(v)
							return f2 == dstField && (b2 == ssa.Value(bpar) || sameOrigin(b2, bpar))
						}
						settles := func(in2 ssa.Instruction) bool {
							switch x := in2.(type) {
							case *ssa.MapUpdate:
								return isDst(x.Map) && (x.Key == bk.Key || sameOrigin(x.Key, bk.Key))
							case *ssa.Call:
								if bi, isB := x.Call.Value.(*ssa.Builtin); isB && bi.Name() == "delete" && len(x.Call.Args) == 2 {
									return isDst(x.Call.Args[0]) && (x.Call.Args[1] == bk.Key || sameOrigin(x.Call.Args[1], bk.Key))
								}
							}
							return false
						}
						leak := false
						hdr, _ := c.innermostLoop(b)
						seenB := map[*ssa.BasicBlock]bool{}
						var walk func(bb *ssa.BasicBlock, fromIdx int)
						walk = func(bb *ssa.BasicBlock, fromIdx int) {
							for j := fromIdx; j < len(bb.Instrs); j++ {
								if settles(bb.Instrs[j]) {
									return
								}
								if _, isRet := bb.Instrs[j].(*ssa.Return); isRet {
									if hdr == nil {
										leak = true
									}
									return
								}
							}
							for _, s2 := range bb.Succs {
								if hdr != nil && s2 == hdr {
									leak = true
									continue
								}
								if !seenB[s2] {
									seenB[s2] = true
									walk(s2, 0)
								}
							}
						}
						walk(b, i+1)
						if leak {
							o.add(VIOLATED, key, relPath(c, bk.Pos()), "after the name has been recorded as taken, the helper can return with neither a store under that name nor a delete of it in %s.%s: what a deeper field stored under the name stays", namedName(nm), dstField)
						} else {
							o.add(OK, key, relPath(c, bk.Pos()), "every path from the record to the return stores under the name or deletes it")
						}
					}
					continue
				}
				bp := bk.Map.(*ssa.Parameter)
				mt, isMap := bp.Type().Underlying().(*types.Map)
				if !isMap {
					continue
				}
				if bt, isB := mt.Elem().Underlying().(*types.Basic); !isB || bt.Info()&types.IsInteger == 0 {
					continue
				}
				// the destination(s): map parameters with interface elements that receive the same key in fn
				var dsts []*ssa.Parameter
				for _, p := range fn.Params {
					if pm, ok := p.Type().Underlying().(*types.Map); ok {
						if _, isI := pm.Elem().Underlying().(*types.Interface); !isI {
							continue
						}
						// every map of field values the walk is given and never reads is a destination: a
						// recorder that stores nothing itself (the names behind a nil embedded pointer)
						// still has to remove what a deeper field stored
						read := false
						for _, b2 := range fn.Blocks {
							for _, in2 := range b2.Instrs {
								if lk, ok := in2.(*ssa.Lookup); ok && lk.X == ssa.Value(p) {
									read = true
								}
							}
						}
						if !read {
							dsts = append(dsts, p)
						}
					}
				}
				h, _ := c.innermostLoop(b)
				if len(dsts) == 0 || h == nil {
					continue
				}
				for _, dst := range dsts {
					n++
					k++
					key := fmt.Sprintf("%s/a field that takes a name removes what a deeper field stored under it #%d", c.fname(fn), k)
					settles := func(in2 ssa.Instruction) bool {
						switch x := in2.(type) {
						case *ssa.MapUpdate:
							return x.Map == ssa.Value(dst) && (x.Key == bk.Key || sameOrigin(x.Key, bk.Key))
						case *ssa.Call:
							if bi, isB := x.Call.Value.(*ssa.Builtin); isB && bi.Name() == "delete" && len(x.Call.Args) == 2 {
								return x.Call.Args[0] == ssa.Value(dst) && (x.Call.Args[1] == bk.Key || sameOrigin(x.Call.Args[1], bk.Key))
							}
						}
						return false
					}
					// is the loop header reachable from just after the record without a settling instruction?
					leak := false
					seenB := map[*ssa.BasicBlock]bool{}
					var walk func(bb *ssa.BasicBlock, fromIdx int)
					walk = func(bb *ssa.BasicBlock, fromIdx int) {
						for j := fromIdx; j < len(bb.Instrs); j++ {
							if settles(bb.Instrs[j]) {
								return
							}
						}
						for _, s := range bb.Succs {
							if s == h {
								leak = true
								continue
							}
							if !seenB[s] {
								seenB[s] = true
								walk(s, 0)
							}
						}
					}
					walk(b, i+1)
					if leak {
						o.add(VIOLATED, key, relPath(c, bk.Pos()), "after the name has been recorded as taken, the walk can move on to the next field with neither a store under that name nor a delete of it in the destination: when the field is omitted (omitempty) the value a field promoted from a greater depth has stored under the name stays - struct{ Article; ID string `clover:\"_id,omitempty\"` } with an empty ID converts to a document carrying the embedded article's _id (Save overwrites the stored article), and Unmarshal hands the hidden value to the struct's own field")
					} else {
						o.add(OK, key, relPath(c, bk.Pos()), "every path from the record to the next field stores under the name or deletes it")
					}
				}
			}
		}
	}
	// ... and every field that reaches the naming step takes its name: from the loop header, the next
	// field is reached only through the record, through the edge on which the name was found taken already,
	// through a call that hands the record on (the embedded struct's own walk, the recorder for a nil
	// pointer), or for a field that is skipped as unexported. `if omitempty && isEmpty { continue }` BEFORE
	// the record lets an omitted empty field stop hiding the promoted one.
	for _, fn := range c.LibFuncs {
		if c.pkgRel(fn) != "internal" || fn.Parent() != nil {
			continue
		}
		var rec *ssa.Parameter
		var recBlocks = map[*ssa.BasicBlock]bool{}
		for _, b := range fn.Blocks {
			for _, in := range b.Instrs {
				if mu, ok := in.(*ssa.MapUpdate); ok {
					if p, isP := mu.Map.(*ssa.Parameter); isP {
						if mt, isM := p.Type().Underlying().(*types.Map); isM {
							if bt, isB := mt.Elem().Underlying().(*types.Basic); isB && bt.Info()&types.IsInteger != 0 {
								rec = p
								recBlocks[b] = true
							}
						}
					}
				}
			}
		}
		if rec == nil {
			continue
		}
		var h *ssa.BasicBlock
		for b := range recBlocks {
			h, _ = c.innermostLoop(b)
		}
		if h == nil {
			continue
		}
		// blocks that settle the obligation: the record, a call passing the record on
		settle := map[*ssa.BasicBlock]bool{}
		for b := range recBlocks {
			settle[b] = true
		}
		allCalls(fn, func(ci ssa.CallInstruction) {
			for _, a := range ci.Common().Args {
				if a == ssa.Value(rec) {
					settle[ci.Block()] = true
				}
			}
		})
		// edges after which a field may be left without a record: the name found in the record (ok flag of the
		// lookup, true branch), the field unexported (PkgPath found not empty)
		excuse := map[edge]bool{}
		ifEdges(fn, func(cond ssa.Value, e edge) {
			switch x := cond.(type) {
			case *ssa.Extract:
				if lk, ok := x.Tuple.(*ssa.Lookup); ok && lk.X == ssa.Value(rec) && x.Index == 1 && e.Branch {
					excuse[e] = true
				}
			case *ssa.BinOp:
				if x.Op != token.EQL && x.Op != token.NEQ {
					return
				}
				for _, pair := range [][2]ssa.Value{{x.X, x.Y}, {x.Y, x.X}} {
					k, isK := pair[1].(*ssa.Const)
					if !isK || k.Value == nil || k.Value.Kind() != constant.String || constant.StringVal(k.Value) != "" {
						continue
					}
					isPkgPath := false
					if _, f, nm := fieldLoad(pair[0]); f == "PkgPath" && nm != nil && nm.Obj().Name() == "StructField" {
						isPkgPath = true
					}
					if isPkgPath && e.Branch == (x.Op == token.NEQ) {
						excuse[e] = true
					}
				}
			}
		})
		n++
		key := c.fname(fn) + "/every field that reaches the naming step takes its name"
		leak := ""
		type st struct {
			b  *ssa.BasicBlock
			ex bool
		}
		seenS := map[st]bool{}
		_, body := c.innermostLoop(h)
		var walkB func(b *ssa.BasicBlock, first, ex bool)
		walkB = func(b *ssa.BasicBlock, first, ex bool) {
			if leak != "" || settle[b] {
				return
			}
			if !first && b == h {
				if !ex {
					leak = "x"
				}
				return
			}
			if seenS[st{b, ex}] {
				return
			}
			seenS[st{b, ex}] = true
			isIf := false
			if len(b.Instrs) > 0 {
				_, isIf = b.Instrs[len(b.Instrs)-1].(*ssa.If)
			}
			for i, sb := range b.Succs {
				if body != nil && !body[sb] {
					continue // leaving the loop is not the next field
				}
				walkB(sb, false, ex || (isIf && excuse[edge{b, i == 0}]))
			}
		}
		walkB(h, true, false)
		if leak == "" {
			o.add(OK, key, relPath(c, fn.Pos()), "the next field is reached only through the record, the name found taken, a call that hands the record on, or for an unexported field")
		} else {
			o.add(VIOLATED, key, relPath(c, fn.Pos()), "the walk can move on to the next field without the field at hand having recorded its name (and without the name having been found taken): an empty field tagged omitempty that is skipped BEFORE the record stops hiding the field of the same name promoted from an embedded struct - struct{ Base; Owner string `clover:\",omitempty\"` } with Base.Owner set and an empty Owner converts to a document with Owner (Go and encoding/json hide it), and Unmarshal puts the value into the outer field")
		}
	}
	if n == 0 {
		o.add(INFO, "struct walks", "-", "no walk of package internal keeps a record of the depths at which names were taken")
	}
	return o.list
}

// ---------------------------------------------------------------- COD5

// COD5: the entry of the walk that renames a document's fields back to the names
// encoding/json expects (the function whose result Convert marshals) never hands the
// document back unrenamed because of the KIND of the target: the per-type walker reaches
// structs through maps, slices and arrays, so a target that is itself a map of structs
// (Unmarshal(&map[string]Item{})) is renamed like the same map held in a field. An
// early `if rt.Kind() != reflect.Struct { return m }` silently drops every renamed field
// of such targets.
func ruleCOD5(c *Ctx) []Ob {
	o := newObs(c, "COD5")
	conv := c.lookupFunc("internal", "Convert")
	if conv == nil {
		o.add(UNDECIDED, "model", "-", "internal.Convert not found")
		return softenUndecided(o.list)
	}
	n := 0
	allCalls(conv, func(ci ssa.CallInstruction) {
		g := staticCallee(ci)
		if g == nil || !c.IsLib(c.declared(g)) {
			return
		}
		g = c.declared(g)
		// g takes the document's map and returns a map
		var mp *ssa.Parameter
		for _, p := range g.Params {
			if _, isMap := p.Type().Underlying().(*types.Map); isMap {
				mp = p
			}
		}
		if mp == nil || g.Signature.Results().Len() == 0 {
			return
		}
		if _, isMap := g.Signature.Results().At(0).Type().Underlying().(*types.Map); !isMap {
			return
		}
		kindEdges := guardEdges(g, func(cond ssa.Value, branch bool) bool {
			bo, ok := cond.(*ssa.BinOp)
			if !ok || (bo.Op != token.EQL && bo.Op != token.NEQ) {
				return false
			}
			for _, side := range []ssa.Value{bo.X, bo.Y} {
				if cl, ok := side.(*ssa.Call); ok {
					switch calleeFullName(cl) {
					case "(reflect.Type).Kind", "(reflect.Value).Kind", "(*reflect.rtype).Kind":
						return true
					}
					if cl.Call.IsInvoke() && cl.Call.Method != nil && cl.Call.Method.Name() == "Kind" {
						return true
					}
				}
			}
			return false
		})
		k := 0
		for _, ret := range returnsOf(g) {
			rv, has := returnedValue(ret, 0)
			if !has {
				continue
			}
			raw := false
			for _, og := range origins(rv) {
				if og == ssa.Value(mp) {
					raw = true
				}
			}
			if !raw {
				continue
			}
			k++
			n++
			key := fmt.Sprintf("%s/the document is handed back unrenamed for no kind of target #%d", c.fname(g), k)
			// the loop that follows pointers tests kinds too: only edges that decide this return count
			decided := false
			for _, e := range kindEdges {
				if guardedBy(g, ret.Block(), []edge{e}) {
					decided = true
				}
			}
			if decided {
				o.add(VIOLATED, key, relPath(c, ret.Pos()), "the document is returned as it is depending on the kind of the target: a target that is not a struct but holds structs (Unmarshal(&map[string]Item{}), a pointer to an interface holding a *Item) keeps the clover names, which encoding/json does not know - every renamed field comes back as its zero value, with no error")
			} else {
				o.add(OK, key, relPath(c, ret.Pos()), "not decided by a test of the target's kind")
			}
		}
		if k == 0 {
			n++
			o.add(OK, c.fname(g)+"/the document is handed back unrenamed for no kind of target", relPath(c, g.Pos()), "the function never returns the map it was given")
		}
		// the way to the target's type goes through an interface only where encoding/json decodes into what the
		// interface holds: a pointer that is not nil. (Anything else is replaced by the decoded value, so the
		// document must keep its own names.)
		kindIs := func(cond ssa.Value, kind string) (ssa.Value, bool, bool) {
			bo, ok := cond.(*ssa.BinOp)
			if !ok || (bo.Op != token.EQL && bo.Op != token.NEQ) {
				return nil, false, false
			}
			kv, okK := c.reflectKind(kind)
			if !okK {
				return nil, false, false
			}
			for _, pair := range [][2]ssa.Value{{bo.X, bo.Y}, {bo.Y, bo.X}} {
				cl, isCall := pair[0].(*ssa.Call)
				if !isCall || calleeFullName(cl) != "(reflect.Value).Kind" {
					continue
				}
				if kc, isK := constInt(pair[1]); isK && kc == kv {
					return cl.Call.Args[0], bo.Op == token.EQL, true
				}
			}
			return nil, false, false
		}
		isElem := func(v ssa.Value) bool {
			for _, og := range origins(v) {
				if cl, ok := og.(*ssa.Call); ok && calleeFullName(cl) == "(reflect.Value).Elem" {
					return true
				}
			}
			return false
		}
		ifEdges(g, func(cond ssa.Value, e edge) {
			_, eq, ok := kindIs(cond, "Interface")
			if !ok || e.Branch != eq {
				return
			}
			n++
			key := c.fname(g) + "/an interface is followed only where encoding/json decodes into what it holds"
			h, _ := c.innermostLoop(e.From)
			bad := ""
			seenB := map[*ssa.BasicBlock]bool{}
			var walk func(b *ssa.BasicBlock)
			walk = func(b *ssa.BasicBlock) {
				if b == nil || seenB[b] || b == h || bad != "" {
					return
				}
				seenB[b] = true
				for _, in := range b.Instrs {
					if cl, ok := in.(*ssa.Call); ok && calleeFullName(cl) == "(reflect.Value).Elem" {
						for _, r := range realReferrers(cl) {
							if _, isPhi := r.(*ssa.Phi); isPhi {
								bad = relPath(c, cl.Pos())
							}
						}
					}
				}
				if len(b.Instrs) > 0 {
					if iff, isIf := b.Instrs[len(b.Instrs)-1].(*ssa.If); isIf {
						if x, eq2, ok2 := kindIs(iff.Cond, "Ptr"); ok2 && isElem(x) {
							// beyond the edge on which what the interface holds is a pointer, following is right
							if eq2 {
								walk(b.Succs[1])
							} else {
								walk(b.Succs[0])
							}
							return
						}
					}
				}
				for _, sb := range b.Succs {
					walk(sb)
				}
			}
			walk(e.to())
			if bad == "" {
				o.add(OK, key, relPath(c, e.From.Instrs[len(e.From.Instrs)-1].Pos()), "behind the interface test, Elem() is adopted only where what the interface holds was found to be a pointer")
			} else {
				o.add(VIOLATED, key, bad, "the walk to the target's type goes through an interface whatever it holds: encoding/json decodes into the content of an interface only when it is a pointer that is not nil, and replaces anything else - with var y interface{} = Item{} (or a nil *Item), Unmarshal(&y) returns the document keyed by Item's json names instead of its own")
			}
		})
	})
	if n == 0 {
		o.add(UNDECIDED, "rename entry", relPath(c, conv.Pos()), "Convert calls no library function from map to map")
		return softenUndecided(o.list)
	}
	return o.list
}

// ---------------------------------------------------------------- CMP15

// CMP15: the walk that builds a document from a struct (value driven: it follows the
// embedded pointers it finds) records the names of the fields BEHIND A NIL EMBEDDED
// POINTER as well: Go and encoding/json assign a name by the types alone, so with
// struct{ *Shallow; Mid } (Shallow{ID}, Mid{Deep{ID}}) and a nil *Shallow the name ID
// belongs to Shallow.ID, which is omitted; if the walk skips the nil pointer, Deep.ID is
// stored under ID and Unmarshal hands its value to a freshly allocated Shallow. A walker
// that keeps a record of depths and takes a reflect.Value calls a recorder driven by
// reflect.Type with that same record.
func ruleCMP15(c *Ctx) []Ob {
	o := newObs(c, "CMP15")
	n := 0
	isRecord := func(p *ssa.Parameter) bool {
		mt, ok := p.Type().Underlying().(*types.Map)
		if !ok {
			return false
		}
		bt, isB := mt.Elem().Underlying().(*types.Basic)
		return isB && bt.Info()&types.IsInteger != 0
	}
	writesRecord := func(fn *ssa.Function, rec *ssa.Parameter) bool {
		for _, b := range fn.Blocks {
			for _, in := range b.Instrs {
				if mu, ok := in.(*ssa.MapUpdate); ok && mu.Map == ssa.Value(rec) {
					return true
				}
			}
		}
		return false
	}
	for _, fn := range c.LibFuncs {
		if c.pkgRel(fn) != "internal" || fn.Parent() != nil {
			continue
		}
		var rec *ssa.Parameter
		valueDriven := false
		for _, p := range fn.Params {
			if isRecord(p) && writesRecord(fn, p) {
				rec = p
			}
			if namedIs(p.Type(), "reflect", "Value") {
				valueDriven = true
			}
		}
		if rec == nil || !valueDriven {
			continue
		}
		n++
		key := c.fname(fn) + "/the fields behind a nil embedded pointer take their names"
		found := ""
		var recCall ssa.CallInstruction
		allCalls(fn, func(ci ssa.CallInstruction) {
			g := staticCallee(ci)
			if g == nil || !c.IsLib(c.declared(g)) || c.declared(g) == fn {
				return
			}
			g = c.declared(g)
			typeDriven, hasValue := false, false
			var grec *ssa.Parameter
			for i, p := range g.Params {
				if namedIs(p.Type(), "reflect", "Type") {
					typeDriven = true
				}
				if namedIs(p.Type(), "reflect", "Value") {
					hasValue = true
				}
				if isRecord(p) && i < len(ci.Common().Args) && ci.Common().Args[i] == ssa.Value(rec) && writesRecord(g, p) {
					grec = p
				}
			}
			if typeDriven && !hasValue && grec != nil {
				found = c.fname(g)
				recCall = ci
			}
		})
		if found == "" {
			// or the walk is itself driven by the type and calls itself, for a nil embedded pointer, with the
			// zero reflect.Value (no value to take the fields from) and the same record
			hasType := false
			for _, p := range fn.Params {
				if namedIs(p.Type(), "reflect", "Type") {
					hasType = true
				}
			}
			if hasType {
				allCalls(fn, func(ci ssa.CallInstruction) {
					if g := staticCallee(ci); g == nil || c.declared(g) != fn {
						return
					}
					zeroVal, sameRec := false, false
					for i, p := range fn.Params {
						if i >= len(ci.Common().Args) {
							continue
						}
						a := ci.Common().Args[i]
						if namedIs(p.Type(), "reflect", "Value") && isZeroValue(a) {
							zeroVal = true
						}
						if p == rec && a == ssa.Value(rec) {
							sameRec = true
						}
					}
					if zeroVal && sameRec {
						found = c.fname(fn) + " itself (called with the zero reflect.Value)"
						if recCall == nil {
							recCall = ci
						}
					}
				})
			}
		}
		// ... and the nil pointer itself is not stored as a field of its own (under the name of its type it
		// would take that name from a promoted field, and encoding/json omits it): from the call of the
		// recorder the walk reaches the next field without a store into a map of field values
		if found != "" && recCall != nil {
			h, _ := c.innermostLoop(recCall.Block())
			if h != nil {
				leak := ""
				seenB := map[*ssa.BasicBlock]bool{}
				var walk func(bb *ssa.BasicBlock, from int)
				walk = func(bb *ssa.BasicBlock, from int) {
					for j := from; j < len(bb.Instrs); j++ {
						if mu, ok := bb.Instrs[j].(*ssa.MapUpdate); ok {
							if p, isP := mu.Map.(*ssa.Parameter); isP {
								if mt, isM := p.Type().Underlying().(*types.Map); isM {
									if _, isI := mt.Elem().Underlying().(*types.Interface); isI {
										leak = relPath(c, mu.Pos())
										return
									}
								}
							}
						}
					}
					for _, sb := range bb.Succs {
						if sb == h || seenB[sb] {
							continue
						}
						seenB[sb] = true
						walk(sb, 0)
					}
				}
				idx := 0
				for j, in := range recCall.Block().Instrs {
					if in == ssa.Instruction(recCall) {
						idx = j + 1
					}
				}
				walk(recCall.Block(), idx)
				if leak != "" {
					o.add(VIOLATED, c.fname(fn)+"/a nil embedded pointer is not a field of its own", leak, "after the names behind a nil embedded pointer have been recorded the walk goes on to store the pointer itself under the name of its type: struct{ *Shallow; Mid } with Mid{ Deep; Shallow string } and a nil *Shallow converts to {Shallow: nil} - the nil takes the name from the promoted string, which is lost (encoding/json omits a nil embedded pointer and keeps the string) - and every struct with a nil embedded pointer gets a spurious null field")
				} else {
					o.add(OK, c.fname(fn)+"/a nil embedded pointer is not a field of its own", relPath(c, recCall.Pos()), "after the recorder the walk moves on to the next field")
				}
			}
		}
		if found != "" {
			o.add(OK, key, relPath(c, fn.Pos()), "the walk hands its record of depths to %s, which records names by the types alone", found)
		} else {
			o.add(VIOLATED, key, relPath(c, fn.Pos()), "the walk records the names of the fields it visits through the values only: the fields behind a nil embedded pointer never take their names, so with struct{ *Shallow; Mid } (Shallow{ID}, Mid{Deep{ID}}) and a nil *Shallow, Deep.ID is stored under ID - and Unmarshal (encoding/json assigns ID to the smallest depth, allocating the pointer) returns Shallow = &{ID: deep}")
		}
	}
	if n == 0 {
		o.add(INFO, "struct walk", "-", "no value-driven walk of package internal keeps a record of depths")
	}
	return o.list
}

// ---------------------------------------------------------------- NIL7

// NIL7: the zero value of an exported struct type is a value callers can make
// (&document.Document{}): a method that stores into a map held in a field of its receiver
// - directly, or through a helper that writes the map it is given (when told to) or hands
// it back - first makes sure the map exists (a nil test of the field whose nil branch
// assigns a fresh map). Without it Set, SetAll and DB.Save(c, &Document{}) panic with
// "assignment to entry in nil map".
func ruleNIL7(c *Ctx) []Ob {
	o := newObs(c, "NIL7")
	// writesParam: g stores into the map it receives as parameter i; flag >= 0: only when bool parameter flag is true
	type wsum struct {
		writes  bool
		flag    int
		returns bool
	}
	sumCache := map[*ssa.Function]map[int]wsum{}
	summary := func(g *ssa.Function, i int) wsum {
		if m := sumCache[g]; m != nil {
			if s, ok := m[i]; ok {
				return s
			}
		} else {
			sumCache[g] = map[int]wsum{}
		}
		s := wsum{flag: -1}
		if i >= len(g.Params) {
			return s
		}
		p := g.Params[i]
		derived := func(v ssa.Value) bool {
			for _, og := range origins(v) {
				if og == ssa.Value(p) {
					return true
				}
			}
			return false
		}
		for _, b := range g.Blocks {
			for _, in := range b.Instrs {
				switch x := in.(type) {
				case *ssa.MapUpdate:
					if derived(x.Map) {
						s.writes = true
						for j, q := range g.Params {
							if bt, ok := q.Type().Underlying().(*types.Basic); ok && bt.Kind() == types.Bool {
								q := q
								onTrue := guardEdges(g, func(cond ssa.Value, branch bool) bool { return cond == ssa.Value(q) && branch })
								if guardedBy(g, b, onTrue) {
									s.flag = j
								}
							}
						}
					}
				case *ssa.Return:
					for _, r := range x.Results {
						if _, isMap := r.Type().Underlying().(*types.Map); isMap && derived(r) {
							s.returns = true
						}
					}
				}
			}
		}
		sumCache[g][i] = s
		return s
	}
	n := 0
	for _, fn := range c.LibFuncs {
		if fn.Signature.Recv() == nil || len(fn.Params) == 0 || fn.Parent() != nil {
			continue
		}
		recv := fn.Params[0]
		pt, isPtr := recv.Type().Underlying().(*types.Pointer)
		if !isPtr {
			continue
		}
		named, _ := pt.Elem().(*types.Named)
		if named == nil || !named.Obj().Exported() || strings.Contains(c.pkgRel(fn), "internal") {
			continue
		}
		st, isStruct := named.Underlying().(*types.Struct)
		if !isStruct {
			continue
		}
		for fi := 0; fi < st.NumFields(); fi++ {
			if _, isMap := st.Field(fi).Type().Underlying().(*types.Map); !isMap {
				continue
			}
			fname := st.Field(fi).Name()
			isFieldLoad := func(v ssa.Value) bool {
				base, f, nn := fieldLoad(v)
				return f == fname && nn == named && (base == ssa.Value(recv) || sameOrigin(base, recv))
			}
			// the values of fn that may be the receiver's map
			var sinks []ssa.Instruction
			var follow func(v ssa.Value, depth int)
			seen := map[ssa.Value]bool{}
			follow = func(v ssa.Value, depth int) {
				if v == nil || seen[v] || depth > 6 || v.Referrers() == nil {
					return
				}
				seen[v] = true
				for _, r := range *v.Referrers() {
					switch x := r.(type) {
					case *ssa.MapUpdate:
						if x.Map == v {
							sinks = append(sinks, x)
						}
					case *ssa.Phi:
						follow(x, depth+1)
					case *ssa.Extract:
						follow(x, depth+1)
					case ssa.CallInstruction:
						g := staticCallee(x)
						if g == nil || !c.IsLib(c.declared(g)) {
							continue
						}
						g = c.declared(g)
						for ai, a := range x.Common().Args {
							if a != v {
								continue
							}
							s := summary(g, ai)
							if s.writes {
								told := true
								if s.flag >= 0 && s.flag < len(x.Common().Args) {
									if k, ok := x.Common().Args[s.flag].(*ssa.Const); ok && k.Value != nil && k.Value.String() == "false" {
										told = false
									}
								}
								if told {
									sinks = append(sinks, x)
								}
							}
							if s.returns {
								if val, ok := x.(ssa.Value); ok {
									follow(val, depth+1)
								}
							}
						}
					}
				}
			}
			var loads []ssa.Value
			for _, b := range fn.Blocks {
				for _, in := range b.Instrs {
					if v, ok := in.(ssa.Value); ok && isFieldLoad(v) {
						loads = append(loads, v)
					}
				}
			}
			for _, l := range loads {
				follow(l, 0)
			}
			// the map obtained from a method of the same receiver that hands out the field: if that method
			// makes sure the map exists (every return of the field comes after the nil test that assigns a
			// fresh map), what is done with its result needs nothing more
			helperSinks := 0
			unsureHelper := ""
			allCalls(fn, func(ci ssa.CallInstruction) {
				g := staticCallee(ci)
				if g == nil || !c.IsLib(c.declared(g)) || c.declared(g) == fn {
					return
				}
				g = c.declared(g)
				if g.Signature.Recv() == nil || len(g.Params) == 0 || len(ci.Common().Args) == 0 {
					return
				}
				if a0 := ci.Common().Args[0]; !(a0 == ssa.Value(recv) || sameOrigin(a0, recv)) {
					return
				}
				val, isVal := ci.(ssa.Value)
				if !isVal {
					return
				}
				if _, isMap := val.Type().Underlying().(*types.Map); !isMap {
					return
				}
				grecv := g.Params[0]
				handsOut, sure := false, true
				for _, ret := range returnsOf(g) {
					rv, has := returnedValue(ret, 0)
					if !has {
						continue
					}
					for _, og := range origins(rv) {
						base, f, nn := fieldLoad(og)
						if f != fname || nn != named || !(base == ssa.Value(grecv) || sameOrigin(base, grecv)) {
							continue
						}
						handsOut = true
						// the nil test + allocation before this return
						ok := false
						for _, b := range g.Blocks {
							if len(b.Instrs) == 0 {
								continue
							}
							iff, isIf := b.Instrs[len(b.Instrs)-1].(*ssa.If)
							if !isIf {
								continue
							}
							x, tnil, isNil := nilTest(iff.Cond)
							if !isNil {
								continue
							}
							if xb, xf, xn := fieldLoad(x); xf != fname || xn != named || !(xb == ssa.Value(grecv) || sameOrigin(xb, grecv)) {
								continue
							}
							nb := b.Succs[1]
							if tnil {
								nb = b.Succs[0]
							}
							for _, in := range nb.Instrs {
								if stt, isSt := in.(*ssa.Store); isSt {
									if sb, sf, sn := fieldOfAddr(stt.Addr); sf == fname && sn == named && (sb == ssa.Value(grecv) || sameOrigin(sb, grecv)) {
										if _, isMk := stt.Val.(*ssa.MakeMap); isMk && (b == ret.Block() || b.Dominates(ret.Block())) {
											ok = true
										}
									}
								}
							}
						}
						if !ok {
							sure = false
						}
					}
				}
				if !handsOut {
					return
				}
				before := len(sinks)
				follow(val, 0)
				if len(sinks) > before {
					if sure {
						helperSinks += len(sinks) - before
						sinks = sinks[:before]
					} else {
						unsureHelper = c.fname(g)
					}
				}
			})
			_ = unsureHelper
			if len(sinks) == 0 && helperSinks == 0 {
				continue
			}
			n++
			key := fmt.Sprintf("%s/field %s exists before it is written", c.fname(fn), fname)
			// a nil test of the field whose nil branch assigns a fresh map, before every sink
			ensured := func(at ssa.Instruction) bool {
				for _, b := range fn.Blocks {
					if len(b.Instrs) == 0 {
						continue
					}
					iff, ok := b.Instrs[len(b.Instrs)-1].(*ssa.If)
					if !ok {
						continue
					}
					x, tnil, isNil := nilTest(iff.Cond)
					if !isNil || !isFieldLoad(x) {
						continue
					}
					nb := b.Succs[1]
					if tnil {
						nb = b.Succs[0]
					}
					assigns := false
					for _, in := range nb.Instrs {
						if stt, ok := in.(*ssa.Store); ok {
							if base, f, nn := fieldOfAddr(stt.Addr); f == fname && nn == named && (base == ssa.Value(recv) || sameOrigin(base, recv)) {
								if _, isMk := stt.Val.(*ssa.MakeMap); isMk {
									assigns = true
								}
							}
						}
					}
					if assigns && (b == at.Block() || b.Dominates(at.Block())) {
						return true
					}
				}
				return false
			}
			bad := ""
			for _, s := range sinks {
				if !ensured(s) {
					bad = relPath(c, s.Pos())
				}
			}
			if bad == "" {
				o.add(OK, key, relPath(c, fn.Pos()), "every store into the receiver's map (direct, or through a helper that writes or hands back the map it is given) comes after a nil test of the field that assigns a fresh map")
			} else {
				o.add(VIOLATED, key, bad, "the method stores into the map held in field %s of its receiver without making sure it exists: on the zero value of the exported type (&%s{}) it panics with \"assignment to entry in nil map\" - document.Set, SetAll, and DB.Save / Insert of such a document", fname, named.Obj().Name())
			}
		}
	}
	if n == 0 {
		o.add(INFO, "receivers", "-", "no method of an exported struct type stores into a map held in a field of its receiver")
	}
	return o.list
}

// ---------------------------------------------------------------- ID6

// ID6: the validation performed when a document is saved does not write the document.
// The record key, the duplicate check and the index entries are computed from the
// document BEFORE it is validated and encoded (insertDocs, UpdateById, replaceDocs call
// saveDocument last): a validator that "repairs" what it checks - rewrites a
// non-canonical _id to its canonical spelling - makes the stored document differ from
// the one the key was built from: FindById(c, id) returns a document whose _id is not
// id, and the canonical spelling can be inserted a second time.
func ruleID6(c *Ctx) []Ob {
	o := newObs(c, "ID6")
	val := c.lookupFunc("document", "Validate")
	if val == nil {
		o.add(UNDECIDED, "model", "-", "document.Validate not found")
		return softenUndecided(o.list)
	}
	// the writers of package document: functions that store into the map of fields (a MapUpdate, a store to the
	// field, a delete) or hand it to a helper told to create what is missing, or call such a function
	direct := map[*ssa.Function]string{}
	for _, fn := range c.LibFuncs {
		if c.pkgRel(fn) != "document" {
			continue
		}
		for _, b := range fn.Blocks {
			for _, in := range b.Instrs {
				switch x := in.(type) {
				case *ssa.MapUpdate:
					if _, isI := x.Map.Type().Underlying().(*types.Map).Elem().Underlying().(*types.Interface); isI {
						direct[fn] = "stores an entry of a map of field values"
					}
				case *ssa.Store:
					if _, f, n := fieldOfAddr(x.Addr); f != "" && n != nil && n.Obj().Name() == "Document" {
						direct[fn] = "assigns field " + f + " of the document"
					}
				case *ssa.Call:
					if bi, isB := x.Call.Value.(*ssa.Builtin); isB && bi.Name() == "delete" {
						direct[fn] = "deletes an entry of a map of field values"
					}
				}
			}
		}
	}
	// a writer that stores only when a bool parameter is true (lookupField's force) does not write when told false
	flagOf := func(g *ssa.Function) int {
		flag := -1
		for j, q := range g.Params {
			bt, ok := q.Type().Underlying().(*types.Basic)
			if !ok || bt.Kind() != types.Bool {
				continue
			}
			q := q
			onTrue := guardEdges(g, func(cond ssa.Value, branch bool) bool { return cond == ssa.Value(q) && branch })
			all := true
			for _, b := range g.Blocks {
				for _, in := range b.Instrs {
					w := false
					switch x := in.(type) {
					case *ssa.MapUpdate:
						w = true
					case *ssa.Call:
						if bi, isB := x.Call.Value.(*ssa.Builtin); isB && bi.Name() == "delete" {
							w = true
						}
					case *ssa.Store:
						if _, f, nn := fieldOfAddr(x.Addr); f != "" && nn != nil && nn.Obj().Name() == "Document" {
							w = true
						}
					}
					if w && !guardedBy(g, b, onTrue) {
						all = false
					}
				}
			}
			if all {
				flag = j
			}
		}
		return flag
	}
	takesDoc := func(f *ssa.Function) bool {
		for _, p := range f.Params {
			if pt, ok := p.Type().Underlying().(*types.Pointer); ok {
				if nn, ok := pt.Elem().(*types.Named); ok && nn.Obj().Name() == "Document" {
					return true
				}
			}
			if _, isMap := p.Type().Underlying().(*types.Map); isMap {
				return true
			}
		}
		return false
	}
	n := 0
	bad := false
	seenF := map[*ssa.Function]bool{val: true}
	work := []*ssa.Function{val}
	for len(work) > 0 {
		f := work[0]
		work = work[1:]
		n++
		var calls []ssa.CallInstruction
		allCalls(f, func(ci ssa.CallInstruction) { calls = append(calls, ci) })
		for _, ci := range calls {
			g := staticCallee(ci)
			if g == nil || !c.IsLib(c.declared(g)) {
				continue
			}
			g = c.declared(g)
			if why, isW := direct[g]; isW && takesDoc(g) {
				told := true
				if fl := flagOf(g); fl >= 0 && fl < len(ci.Common().Args) {
					if k, ok := ci.Common().Args[fl].(*ssa.Const); ok && k.Value != nil && k.Value.String() == "false" {
						told = false
					}
				}
				if told {
					bad = true
					o.add(VIOLATED, "document.Validate/reaches "+c.fname(g), relPath(c, ci.Pos()), "the validation of a document being saved reaches %s (called by %s), which %s: the record key, the duplicate check and the index entries have been computed from the document as it was - a validator that rewrites a non-canonical _id stores the document under the caller's spelling with another _id inside (FindById(c, id) returns a document whose _id is not id; the canonical spelling can be inserted again)", c.fname(g), c.fname(f), why)
				}
				continue
			}
			if !seenF[g] {
				seenF[g] = true
				work = append(work, g)
			}
		}
	}
	if !bad {
		o.add(OK, "document.Validate/writes nothing", relPath(c, val.Pos()), "none of the %d library functions reachable from Validate stores into a document", n)
	}
	return o.list
}

// ---------------------------------------------------------------- KEY13

// KEY13: inside a container every element leaves its type rank in the key, nil
// included. The primitive encoder appends the rank (TypeId) when told to include it -
// which the container encoders do for every element - and a nil element has nothing
// else: if the nil case returns before the rank is appended, [nil] and [] get one key,
// [3, nil] and [3] too, and [nil, 5] sorts where [5] does although nil ranks below
// every number. On every path of the encoder on which the flag is true, a successful
// return is preceded by an orderedcode.Append of an item derived from TypeId.
func ruleKEY13(c *Ctx) []Ob {
	o := newObs(c, "KEY13")
	fromTypeId := func(v ssa.Value) bool {
		seen := map[ssa.Value]bool{}
		var walk func(v ssa.Value, d int) bool
		walk = func(v ssa.Value, d int) bool {
			if v == nil || seen[v] || d > 8 {
				return false
			}
			seen[v] = true
			switch x := v.(type) {
			case *ssa.MakeInterface:
				return walk(x.X, d+1)
			case *ssa.Convert:
				return walk(x.X, d+1)
			case *ssa.ChangeType:
				return walk(x.X, d+1)
			case *ssa.Phi:
				for _, e := range x.Edges {
					if walk(e, d+1) {
						return true
					}
				}
			case *ssa.Call:
				if g := staticCallee(x); g != nil && g.Name() == "TypeId" && c.IsLib(c.declared(g)) {
					return true
				}
			case *ssa.UnOp:
				for _, og := range origins(x) {
					if og != ssa.Value(x) && walk(og, d+1) {
						return true
					}
				}
			}
			return false
		}
		return walk(v, 0)
	}
	n := 0
	for _, fn := range c.LibFuncs {
		if c.pkgRel(fn) != "internal" || fn.Parent() != nil {
			continue
		}
		// the blocks in which the rank is appended
		rank := map[*ssa.BasicBlock]bool{}
		allCalls(fn, func(ci ssa.CallInstruction) {
			items := c.appendItemsArg(ci)
			if items == nil {
				return
			}
			for _, og := range origins(items) {
				sl, ok := og.(*ssa.Slice)
				if !ok {
					continue
				}
				al, ok := sl.X.(*ssa.Alloc)
				if !ok {
					continue
				}
				for _, r := range realReferrers(al) {
					ia, ok := r.(*ssa.IndexAddr)
					if !ok {
						continue
					}
					for _, rr := range realReferrers(ia) {
						if st, ok := rr.(*ssa.Store); ok && fromTypeId(st.Val) {
							rank[ci.Block()] = true
						}
					}
				}
			}
		})
		if len(rank) == 0 {
			continue
		}
		// the flag: a bool parameter on whose true edge (only) the rank is appended
		var flag *ssa.Parameter
		for _, q := range fn.Params {
			bt, ok := q.Type().Underlying().(*types.Basic)
			if !ok || bt.Kind() != types.Bool {
				continue
			}
			q := q
			onTrue := guardEdges(fn, func(cond ssa.Value, branch bool) bool { return cond == ssa.Value(q) && branch })
			all := true
			for b := range rank {
				if !guardedBy(fn, b, onTrue) {
					all = false
				}
			}
			if all {
				flag = q
			}
		}
		n++
		key := c.fname(fn) + "/every element leaves its type rank in the key"
		// a successful return reachable from the entry without crossing a rank block, taking the flag's true edges only
		bad := ""
		seenB := map[*ssa.BasicBlock]bool{}
		var walk func(b *ssa.BasicBlock)
		walk = func(b *ssa.BasicBlock) {
			if seenB[b] || rank[b] || bad != "" {
				return
			}
			seenB[b] = true
			if len(b.Instrs) == 0 {
				return
			}
			switch last := b.Instrs[len(b.Instrs)-1].(type) {
			case *ssa.Return:
				ei := len(last.Results) - 1
				if ei < 0 {
					return
				}
				ev, has := returnedValue(last, ei)
				if !has {
					return
				}
				if !isNilConst(ev) && guardedBy(fn, b, nonNilEdges(fn, sameValue(ev))) {
					return // a failure
				}
				bad = relPath(c, last.Pos())
			case *ssa.If:
				if flag != nil && last.Cond == ssa.Value(flag) {
					walk(b.Succs[0])
					return
				}
				for _, s := range b.Succs {
					walk(s)
				}
			default:
				for _, s := range b.Succs {
					walk(s)
				}
			}
		}
		walk(fn.Blocks[0])
		if bad == "" {
			o.add(OK, key, relPath(c, fn.Pos()), "with the flag set, no successful return is reachable before the type rank has been appended")
		} else {
			o.add(VIOLATED, key, bad, "the encoder can return successfully, although told to include the type rank, before it has appended it: a nil element of an array or object (its rank is all it has) leaves no byte in the key - [nil] and [] share one key, [3, nil] and [3] too, and [nil, 5] is filed where [5] is, after [3], although nil ranks below every number: a range scan or a sort through the index disagrees with the comparison")
		}
	}
	if n == 0 {
		o.add(INFO, "encoder", "-", "no function of package internal appends an item derived from TypeId")
	}
	return o.list
}

// ---------------------------------------------------------------- EXP1

// EXP1: a file the library writes replaces what was at its path. os.WriteFile and
// os.Create truncate; an os.OpenFile opened for writing does so only with O_TRUNC (or
// refuses an existing file with O_EXCL). Without it ExportCollection over a longer
// previous export leaves the old tail after the closing bracket: the export reports
// success and ImportCollection rejects (or mis-reads) the file.
func ruleEXP1(c *Ctx) []Ob {
	o := newObs(c, "EXP1")
	// the platform's values, read from package os as the program was built
	var oWRONLY, oRDWR, oAPPEND, oEXCL, oTRUNC int64 = 0x1, 0x2, 0x400, 0x80, 0x200
	if len(c.LibFuncs) > 0 {
		if osp := c.LibFuncs[0].Prog.ImportedPackage("os"); osp != nil {
			get := func(name string, into *int64) {
				if k := osp.Const(name); k != nil && k.Value != nil {
					if v, ok := constInt(k.Value); ok {
						*into = v
					}
				}
			}
			get("O_WRONLY", &oWRONLY)
			get("O_RDWR", &oRDWR)
			get("O_APPEND", &oAPPEND)
			get("O_EXCL", &oEXCL)
			get("O_TRUNC", &oTRUNC)
		}
	}
	n := 0
	for _, fn := range c.LibFuncs {
		if strings.HasPrefix(c.pkgRel(fn), "store/") {
			continue // the backends' own files are not replaced on open
		}
		k := 0
		allCalls(fn, func(ci ssa.CallInstruction) {
			full := calleeFullName(ci)
			switch full {
			case "os.WriteFile", "os.Create", "io/ioutil.WriteFile":
				n++
				k++
				o.add(OK, fmt.Sprintf("%s/a written file replaces what was at its path #%d", c.fname(fn), k), relPath(c, ci.Pos()), "%s truncates", full)
			case "os.OpenFile":
				args := ci.Common().Args
				if len(args) < 2 {
					return
				}
				flags, isK := constInt(args[1])
				if isK && flags&(oWRONLY|oRDWR) == 0 {
					return // read only
				}
				n++
				k++
				key := fmt.Sprintf("%s/a written file replaces what was at its path #%d", c.fname(fn), k)
				switch {
				case !isK:
					o.add(UNDECIDED, key, relPath(c, ci.Pos()), "the flags of os.OpenFile are not a constant")
				case flags&oTRUNC != 0 || flags&oEXCL != 0:
					o.add(OK, key, relPath(c, ci.Pos()), "opened with O_TRUNC / O_EXCL")
				default:
					what := "overwritten from its beginning, and whatever the previous content had beyond the new length stays"
					if flags&oAPPEND != 0 {
						what = "appended to"
					}
					o.add(VIOLATED, key, relPath(c, ci.Pos()), "the file is opened for writing with neither O_TRUNC nor O_EXCL: an existing file is %s - exporting a collection to the path of a longer previous export leaves the old tail after the closing bracket; ExportCollection reports success and ImportCollection refuses the file", what)
				}
			}
		})
	}
	if n == 0 {
		o.add(INFO, "files", "-", "the library writes no file outside the store adapters")
	}
	return o.list
}

// ---------------------------------------------------------------- NIL8

// NIL8: a pointer that can be nil does not reach, through a container, code that uses it
// untested. A library function with a single pointer result that returns nil for "no
// value" (unaryCriteriaToRange for an operator that does not bound the field) may have
// that result stored into a map, slice or array only behind a nil test - as long as
// some function of the library takes pointers of that type out of a container and
// dereferences them, calls a method on them, or hands them to a library function that
// does so on that parameter, without a test of its own (Range.Intersect on the ranges
// collected per field). The link between the store and the load is the element type.
func ruleNIL8(c *Ctx) []Ob {
	o := newObs(c, "NIL8")
	mayNil := map[*ssa.Function]bool{}
	for changed := true; changed; {
		changed = false
		for _, g := range c.LibFuncs {
			if mayNil[g] || g.Parent() != nil || g.Signature.Results().Len() != 1 {
				continue
			}
			if _, isPtr := g.Signature.Results().At(0).Type().Underlying().(*types.Pointer); !isPtr {
				continue
			}
			for _, ret := range returnsOf(g) {
				rv, ok := returnedValue(ret, 0)
				if !ok {
					continue
				}
				for _, og := range origins(rv) {
					if isNilConst(og) {
						mayNil[g] = true
						changed = true
					}
					if cl, ok := og.(*ssa.Call); ok {
						if h := staticCallee(cl); h != nil && mayNil[c.declared(h)] {
							if !guardedBy(g, ret.Block(), nonNilEdges(g, sameValue(cl))) {
								mayNil[g] = true
								changed = true
							}
						}
					}
				}
			}
		}
	}
	// needsNonNil: g uses its parameter idx (method call, dereference, field access) without a nil test
	needsNonNil := func(g *ssa.Function, idx int) bool {
		if g == nil || len(g.Blocks) == 0 || idx >= len(g.Params) {
			return false
		}
		p := g.Params[idx]
		nn := nonNilEdges(g, sameValue(p))
		for _, r := range realReferrers(p) {
			if derefUse(r, p) != "" && !guardedBy(g, r.Block(), nn) {
				return true
			}
		}
		return false
	}
	// consumers: element types whose values are taken out of a container and used untested
	type use struct{ pos, what string }
	consumers := map[string]use{}
	for _, fn := range c.LibFuncs {
		for _, b := range fn.Blocks {
			for _, in := range b.Instrs {
				v, ok := in.(ssa.Value)
				if !ok {
					continue
				}
				if _, isPtr := v.Type().Underlying().(*types.Pointer); !isPtr {
					continue
				}
				loaded := false
				switch x := v.(type) {
				case *ssa.Lookup:
					loaded = !x.CommaOk
				case *ssa.Extract:
					switch t := x.Tuple.(type) {
					case *ssa.Next:
						loaded = x.Index == 2
					case *ssa.Lookup:
						loaded = t.CommaOk && x.Index == 0
					}
				case *ssa.UnOp:
					if x.Op == token.MUL {
						_, loaded = x.X.(*ssa.IndexAddr)
					}
				}
				if !loaded {
					continue
				}
				nn := nonNilEdges(fn, sameValue(v))
				for _, r := range realReferrers(v) {
					what := derefUse(r, v)
					if what == "" {
						if ci, isCall := r.(ssa.CallInstruction); isCall {
							if g := staticCallee(ci); g != nil && c.IsLib(c.declared(g)) {
								for ai, a := range ci.Common().Args {
									if a == v && needsNonNil(c.declared(g), ai) {
										what = "it is handed to " + c.fname(c.declared(g)) + ", which uses that parameter without a nil test"
									}
								}
							}
						}
					}
					if what != "" && !guardedBy(fn, r.Block(), nn) {
						consumers[types.TypeString(v.Type(), nil)] = use{relPath(c, r.Pos()), c.fname(fn) + ": " + what}
					}
				}
			}
		}
	}
	n := 0
	for _, fn := range c.LibFuncs {
		k := 0
		allCalls(fn, func(ci ssa.CallInstruction) {
			call, ok := ci.(*ssa.Call)
			if !ok {
				return
			}
			g := staticCallee(call)
			if g == nil || !mayNil[c.declared(g)] {
				return
			}
			nn := nonNilEdges(fn, sameValue(call))
			for _, r := range realReferrers(call) {
				into := ""
				switch x := r.(type) {
				case *ssa.MapUpdate:
					if x.Value == ssa.Value(call) {
						into = "a map"
					}
				case *ssa.Store:
					if ia, isIA := x.Addr.(*ssa.IndexAddr); isIA && x.Val == ssa.Value(call) {
						into = "a slice or array"
						// the argument list of append(): the value is handed on, as in NIL4 (what the
						// receiving code does with the elements is its own obligation)
						if al, isAlloc := ia.X.(*ssa.Alloc); isAlloc {
							for _, ar := range realReferrers(al) {
								if sl, isSl := ar.(*ssa.Slice); isSl {
									for _, sr := range realReferrers(sl) {
										if cl, isCall := sr.(*ssa.Call); isCall {
											if bi, isB := cl.Call.Value.(*ssa.Builtin); isB && bi.Name() == "append" {
												into = ""
											}
										}
									}
								}
							}
						}
					}
				}
				if into == "" {
					continue
				}
				n++
				k++
				key := fmt.Sprintf("%s/result of %s goes into a container #%d", c.fname(fn), shortCallee(call), k)
				u, used := consumers[types.TypeString(call.Type(), nil)]
				switch {
				case guardedBy(fn, r.Block(), nn):
					o.add(OK, key, relPath(c, r.Pos()), "stored behind a nil test")
				case !used:
					o.add(OK, key, relPath(c, r.Pos()), "no function of the library uses a %s taken out of a container without testing it", types.TypeString(call.Type(), nil))
				default:
					o.add(VIOLATED, key, relPath(c, r.Pos()), "%s can return nil, and its result is stored into %s without a nil test, while values of that type taken out of a container are used untested (%s at %s): an And of a comparison and an operator that does not bound the same indexed field - Field(\"age\").GtEq(20).And(Field(\"age\").In(10, 30)) - panics with a nil pointer dereference", c.fname(c.declared(g)), into, u.what, u.pos)
				}
			}
		})
	}
	if n == 0 {
		o.add(INFO, "nil results", "-", "no result of a library function that can return nil goes into a container")
	}
	return o.list
}

// isZeroValue: v is the zero value of its type (a constant, or a local that is never assigned).
func isZeroValue(v ssa.Value) bool {
	for _, og := range origins(v) {
		switch x := og.(type) {
		case *ssa.Const:
			continue
		case *ssa.UnOp:
			if al, ok := x.X.(*ssa.Alloc); ok && x.Op == token.MUL && len(storesTo(al)) == 0 {
				continue
			}
			return false
		default:
			return false
		}
	}
	return true
}

// ---------------------------------------------------------------- COD6

// COD6: the stored form of a time keeps its zone offset also where the offset is not a
// whole number of minutes (the local mean times of the tz database: every date before
// 1883 in America/New_York is at -4:56:02). time.Time's binary encoding (version 2)
// holds the seconds of such an offset as a signed byte; the decoder of the time package
// this program is built with is inspected: where it adds that byte unsigned
// (`offset += int(buf[2])`, go1.23) a negative offset is read back 256 seconds too
// large, and a library function that calls (*time.Time).GobDecode / UnmarshalBinary must
// derive the offset from the bytes itself and re-zone the time (time.FixedZone).
func ruleCOD6(c *Ctx) []Ob {
	o := newObs(c, "COD6")
	if len(c.LibFuncs) == 0 {
		return o.list
	}
	prog := c.LibFuncs[0].Prog
	tp := prog.ImportedPackage("time")
	buggy, inspected := false, false
	if tp != nil {
		tp.Build()
		if tt := tp.Type("Time"); tt != nil {
			ms := prog.MethodSets.MethodSet(types.NewPointer(tt.Type()))
			for i := 0; i < ms.Len(); i++ {
				if ms.At(i).Obj().Name() != "UnmarshalBinary" {
					continue
				}
				f := prog.MethodValue(ms.At(i))
				if f == nil || len(f.Blocks) == 0 {
					continue
				}
				inspected = true
				for _, b := range f.Blocks {
					for _, in := range b.Instrs {
						cv, ok := in.(*ssa.Convert)
						if !ok {
							continue
						}
						from, okF := cv.X.Type().Underlying().(*types.Basic)
						to, okT := cv.Type().Underlying().(*types.Basic)
						if !okF || !okT || from.Kind() != types.Uint8 || to.Kind() != types.Int {
							continue
						}
						// used as a summand of the offset
						for _, r := range realReferrers(cv) {
							if bo, ok := r.(*ssa.BinOp); ok && bo.Op == token.ADD {
								buggy = true
							}
						}
					}
				}
			}
		}
	}
	n := 0
	for _, fn := range c.LibFuncs {
		var dec ssa.CallInstruction
		allCalls(fn, func(ci ssa.CallInstruction) {
			switch calleeFullName(ci) {
			case "(*time.Time).GobDecode", "(*time.Time).UnmarshalBinary":
				dec = ci
			}
		})
		if dec == nil {
			continue
		}
		n++
		key := c.fname(fn) + "/the zone offset decoded by the time package is not taken on trust"
		// the time is moved to a zone whose offset is computed from the encoded bytes (a load of an element of a
		// byte slice among the leaves of the arithmetic), not to the offset the decoder has just produced
		rezones, fromDecoded := false, false
		extraGuard := ""
		unsignedSeconds := ""
		for g := range c.staticReach(fn) {
			allCalls(g, func(ci ssa.CallInstruction) {
				if calleeFullName(ci) != "time.FixedZone" || len(ci.Common().Args) < 2 {
					return
				}
				fromBytes, fromZone := false, false
				byteSigned, byteWidened := map[int64]bool{}, map[int64]bool{}
				seenV := map[ssa.Value]bool{}
				var walk func(v ssa.Value, d int)
				walk = func(v ssa.Value, d int) {
					if v == nil || d > 12 || seenV[v] {
						return
					}
					seenV[v] = true
					switch x := v.(type) {
					case *ssa.BinOp:
						walk(x.X, d+1)
						walk(x.Y, d+1)
					case *ssa.Convert:
						// how a byte of the encoding enters the arithmetic: as a signed 8-bit value, or widened as it is
						if ld, ok := x.X.(*ssa.UnOp); ok && ld.Op == token.MUL {
							if ia, ok := ld.X.(*ssa.IndexAddr); ok {
								if k, isK := constInt(ia.Index); isK {
									if tb, ok := x.Type().Underlying().(*types.Basic); ok {
										if tb.Kind() == types.Int8 {
											byteSigned[k] = true
										} else {
											byteWidened[k] = true
										}
									}
								}
							}
						}
						walk(x.X, d+1)
					case *ssa.ChangeType:
						walk(x.X, d+1)
					case *ssa.Phi:
						for _, e := range x.Edges {
							walk(e, d+1)
						}
					case *ssa.UnOp:
						if ia, ok := x.X.(*ssa.IndexAddr); ok && x.Op == token.MUL {
							if sl, ok := ia.X.Type().Underlying().(*types.Slice); ok {
								if bt, ok := sl.Elem().Underlying().(*types.Basic); ok && bt.Kind() == types.Uint8 {
									fromBytes = true
								}
							}
						} else {
							walk(x.X, d+1)
						}
					case *ssa.Extract:
						if cl, ok := x.Tuple.(*ssa.Call); ok {
							switch calleeFullName(cl) {
							case "(time.Time).Zone":
								fromZone = true
							default:
								// a library helper computing the offset from the bytes it is given
								if h := staticCallee(cl); h != nil && c.IsLib(c.declared(h)) {
									for _, ret := range returnsOf(c.declared(h)) {
										if rv, has := returnedValue(ret, x.Index); has {
											walk(rv, d+1)
										}
									}
								}
							}
						}
					case *ssa.Call:
						if calleeFullName(x) == "(time.Time).Zone" {
							fromZone = true
						} else if h := staticCallee(x); h != nil && c.IsLib(c.declared(h)) {
							for _, ret := range returnsOf(c.declared(h)) {
								if rv, has := returnedValue(ret, 0); has {
									walk(rv, d+1)
								}
							}
						}
					case *ssa.Parameter:
						// a helper's parameter: what its callers pass
						hp := x.Parent()
						for i, p := range hp.Params {
							if p != x {
								continue
							}
							for _, cs := range c.staticCallers(hp) {
								if i < len(cs.Common().Args) {
									walk(cs.Common().Args[i], d+1)
								}
							}
						}
					}
				}
				walk(ci.Common().Args[1], 0)
				// the last byte of the encoding (the seconds of the offset) is a SIGNED byte: widened as it is,
				// the own derivation repeats the decoder's mistake and the two offsets never differ
				{
					last := int64(-1)
					for k := range byteSigned {
						if k > last {
							last = k
						}
					}
					for k := range byteWidened {
						if k > last {
							last = k
						}
					}
					if last >= 0 && byteWidened[last] && !byteSigned[last] {
						unsignedSeconds = relPath(c, ci.Pos())
					}
				}
				// the correction is made whenever the two offsets differ: the conditions it sits behind look at
				// the error, the length, the version byte (element 0) and the offsets - at no other byte of the
				// encoding (a test of the minutes' high byte skips the offsets between -59 and -1 seconds)
				g := ci.Parent()
				for _, dc := range dominatingConds(g, ci.Block()) {
					var leaves []ssa.Value
					var collect func(v ssa.Value, d int)
					collect = func(v ssa.Value, d int) {
						if v == nil || d > 8 {
							return
						}
						switch x := v.(type) {
						case *ssa.BinOp:
							collect(x.X, d+1)
							collect(x.Y, d+1)
						case *ssa.Convert:
							collect(x.X, d+1)
						case *ssa.UnOp:
							if _, isIA := x.X.(*ssa.IndexAddr); isIA {
								leaves = append(leaves, x)
							} else {
								collect(x.X, d+1)
							}
						}
					}
					collect(dc.cond, 0)
					for _, lf := range leaves {
						ld := lf.(*ssa.UnOp)
						ia := ld.X.(*ssa.IndexAddr)
						sl, isSl := ia.X.Type().Underlying().(*types.Slice)
						if !isSl {
							continue
						}
						if bt, ok := sl.Elem().Underlying().(*types.Basic); !ok || bt.Kind() != types.Uint8 {
							continue
						}
						// which element? part of the offset computation compared with the decoded one is fine
						if idx, isK := constInt(ia.Index); isK && idx == 0 {
							continue
						}
						// the comparison decoded != offset contains byte loads too: accept conditions that also involve Zone()
						involvesZone := false
						var z func(v ssa.Value, d int)
						z = func(v ssa.Value, d int) {
							if v == nil || d > 10 || involvesZone {
								return
							}
							switch x := v.(type) {
							case *ssa.BinOp:
								z(x.X, d+1)
								z(x.Y, d+1)
							case *ssa.Convert:
								z(x.X, d+1)
							case *ssa.Extract:
								if cl, ok := x.Tuple.(*ssa.Call); ok && calleeFullName(cl) == "(time.Time).Zone" {
									involvesZone = true
								}
							case *ssa.Phi:
								for _, e := range x.Edges {
									z(e, d+1)
								}
							}
						}
						z(dc.cond, 0)
						if !involvesZone {
							extraGuard = relPath(c, ld.Pos())
						}
					}
				}
				if fromBytes && !fromZone {
					rezones = true
				}
				if fromZone {
					fromDecoded = true
				}
			})
		}
		_ = fromDecoded
		switch {
		case !inspected:
			o.add(UNDECIDED, key, relPath(c, dec.Pos()), "the body of (*time.Time).UnmarshalBinary was not loaded")
		case !buggy:
			o.add(OK, key, relPath(c, dec.Pos()), "the time package this program is built with does not add the seconds of the offset as an unsigned byte")
		case rezones && unsignedSeconds != "":
			o.add(VIOLATED, key, unsignedSeconds, "the function's own derivation of the zone offset widens the last byte of the encoding (the seconds of the offset) as an unsigned byte, exactly as the decoder of the time package does: the two offsets never differ, the correction never runs, and a negative offset with seconds is read back 256 seconds too large (the byte must enter the arithmetic as int8)")
		case rezones && extraGuard != "":
			o.add(VIOLATED, key, extraGuard, "the correction of the decoded zone offset is made only behind a test of another byte of the encoding: the minutes of the offset carry its sign only from one minute on, so for an offset between -59 and -1 seconds (minutes 0, seconds -N) a guard on the minutes' high byte skips the correction, and the time is read back at 256-N seconds east")
		case rezones:
			o.add(OK, key, relPath(c, dec.Pos()), "the time package adds the seconds of the offset unsigned; the function re-zones the decoded time (time.FixedZone) to an offset computed from the encoded bytes")
		default:
			o.add(VIOLATED, key, relPath(c, dec.Pos()), "the time package this program is built with reads the seconds of a zone offset (binary encoding version 2) as an unsigned byte, and the decoded time is used as it is (or moved to a zone computed from the decoded offset itself rather than from the encoded bytes): a time at -4:56:02 (America/New_York before 1883) is read back at -4:51:46 - the same instant with another zone offset")
		}
	}
	if n == 0 {
		o.add(INFO, "time codec", "-", "no library function decodes a time with (*time.Time).GobDecode / UnmarshalBinary")
	}
	return o.list
}

// ---------------------------------------------------------------- NORM6

// NORM6: the `$` that marks a string operand as a field reference is removed ONCE: the
// name of the field is what follows the marker. strings.TrimLeft(s, "$") (or Trim) strips
// every leading `$`: "$$a", the reference to a field named "$a", reads field "a", while
// Field("$a") reads "$a" - the two spellings of one reference disagree.
func ruleNORM6(c *Ctx) []Ob {
	o := newObs(c, "NORM6")
	n := 0
	for _, fn := range c.LibFuncs {
		k := 0
		allCalls(fn, func(ci ssa.CallInstruction) {
			full := calleeFullName(ci)
			args := ci.Common().Args
			isMarker := func(v ssa.Value) bool {
				kst, ok := v.(*ssa.Const)
				return ok && kst.Value != nil && kst.Value.Kind() == constant.String && constant.StringVal(kst.Value) == "$"
			}
			switch full {
			case "strings.TrimLeft", "strings.Trim", "strings.TrimPrefix", "strings.CutPrefix":
				if len(args) != 2 || !isMarker(args[1]) {
					return
				}
			default:
				return
			}
			n++
			k++
			key := fmt.Sprintf("%s/the reference marker is removed once #%d", c.fname(fn), k)
			if full == "strings.TrimPrefix" || full == "strings.CutPrefix" {
				o.add(OK, key, relPath(c, ci.Pos()), "%s removes one marker", full)
			} else {
				o.add(VIOLATED, key, relPath(c, ci.Pos()), "%s(s, \"$\") removes every leading `$`, not the marker alone: the operand \"$$a\" - the reference to the field named \"$a\" - reads field \"a\", while Field(\"$a\") reads \"$a\": with {\"$a\": 1, \"a\": 2, \"one\": 1}, Field(\"one\").Eq(Field(\"$a\")) matches and Field(\"one\").Eq(\"$$a\") does not", full)
			}
		})
	}
	if n == 0 {
		o.add(INFO, "marker", "-", "no strings.Trim* call with the cutset \"$\" (the marker is removed otherwise)")
	}
	return o.list
}

// ---------------------------------------------------------------- GUARD3

// GUARD3: a name that becomes a ';'-terminated variable part of the key layouts - the name
// of a collection being created, the field of an index being created - is refused when
// it contains the reserved separator. Nothing escapes names: the documents of a
// collection "a;d:b" lie inside the document prefix of "a" (c:a;d:), the entries of an
// index on "x;y" inside the prefix of the index on "x": FindAll returns foreign
// documents, Update writes them into the wrong collection, DropIndex deletes another
// collection's documents. The catalog record of a NEW collection is written, and the
// field of a new index is recorded, only where the name was found free of ';'.
func ruleGUARD3(c *Ctx) []Ob {
	o := newObs(c, "GUARD3")
	hasSep := func(v ssa.Value) bool {
		k, ok := v.(*ssa.Const)
		if !ok || k.Value == nil {
			return false
		}
		switch k.Value.Kind() {
		case constant.String:
			return strings.Contains(constant.StringVal(k.Value), ";")
		case constant.Int:
			n, _ := constant.Int64Val(k.Value)
			return n == ';'
		}
		return false
	}
	// freeOn: (branch on which src is known to be free of ';', ok)
	var freeOn func(cond ssa.Value, same func(ssa.Value) bool, depth int) (bool, bool)
	freeOn = func(cond ssa.Value, same func(ssa.Value) bool, depth int) (bool, bool) {
		if depth > 3 {
			return false, false
		}
		switch x := cond.(type) {
		case *ssa.UnOp:
			if x.Op == token.NOT {
				b, ok := freeOn(x.X, same, depth+1)
				return !b, ok
			}
		case *ssa.Call:
			full := calleeFullName(x)
			args := x.Call.Args
			switch full {
			case "strings.Contains", "strings.ContainsRune", "strings.ContainsAny", "bytes.Contains", "bytes.ContainsRune", "bytes.ContainsAny":
				if len(args) == 2 && same(args[0]) && hasSep(args[1]) {
					return false, true
				}
			}
			// a library predicate about its own parameter
			if g := staticCallee(x); g != nil && c.IsLib(c.declared(g)) {
				g = c.declared(g)
				if g.Signature.Results().Len() != 1 {
					return false, false
				}
				for i, a := range args {
					if !same(a) || i >= len(g.Params) {
						continue
					}
					p := g.Params[i]
					sameP := func(v ssa.Value) bool { return v == ssa.Value(p) || sameOrigin(v, p) }
					rets := returnsOf(g)
					if len(rets) != 1 {
						continue
					}
					rv, has := returnedValue(rets[0], 0)
					if !has {
						continue
					}
					if b, ok := freeOn(rv, sameP, depth+1); ok {
						return b, true
					}
				}
			}
		case *ssa.BinOp:
			cl, ok := x.X.(*ssa.Call)
			if !ok {
				return false, false
			}
			switch calleeFullName(cl) {
			case "strings.Index", "strings.IndexByte", "strings.IndexRune", "strings.IndexAny", "bytes.IndexByte", "bytes.Index":
			default:
				return false, false
			}
			if len(cl.Call.Args) != 2 || !same(cl.Call.Args[0]) || !hasSep(cl.Call.Args[1]) {
				return false, false
			}
			k, isK := constInt(x.Y)
			if !isK {
				return false, false
			}
			switch {
			case x.Op == token.LSS && k == 0, x.Op == token.EQL && k == -1, x.Op == token.LEQ && k == -1:
				return true, true
			case x.Op == token.GEQ && k == 0, x.Op == token.NEQ && k == -1, x.Op == token.GTR && k == -1:
				return false, true
			}
		}
		return false, false
	}
	freeEdges := func(fn *ssa.Function, src ssa.Value) []edge {
		same := func(v ssa.Value) bool { return v == src || sameOrigin(v, src) }
		return guardEdges(fn, func(cond ssa.Value, branch bool) bool {
			b, ok := freeOn(cond, same, 0)
			return ok && b == branch
		})
	}
	n := 0
	// (a) the field of a new index
	for _, fn := range c.LibFuncs {
		if c.pkgRel(fn) != "" {
			continue
		}
		for _, b := range fn.Blocks {
			for _, in := range b.Instrs {
				st, ok := in.(*ssa.Store)
				if !ok {
					continue
				}
				_, f, nm := fieldOfAddr(st.Addr)
				if f != "Field" || nm == nil || !c.libNamedIs(nm, "index", "Info") {
					continue
				}
				var src ssa.Value
				for _, og := range origins(st.Val) {
					if p, ok := og.(*ssa.Parameter); ok {
						src = p
					}
				}
				if src == nil {
					continue
				}
				n++
				key := c.fname(fn) + "/the field of a new index is free of the separator"
				// second obligation: the catalog's list was searched for the field before it is recorded
				n++
				key2 := c.fname(fn) + "/the field of a new index was looked for among the existing ones"
				if why, ok := c.searchedBefore(fn, b, src); ok {
					o.add(OK, key2, relPath(c, st.Pos()), "%s", why)
				} else {
					o.add(VIOLATED, key2, relPath(c, st.Pos()), "a path reaches the recording of the new index without the search of the catalog's list for the same field (%s): the index is recorded a second time - ListIndexes shows it twice, one DropIndex removes every entry but only one of the two records, HasIndex stays true and sorted queries through the emptied index return nothing", why)
				}
				if guardedBy(fn, b, c.validatedEdges(fn, src, freeEdges, 0)) {
					o.add(OK, key, relPath(c, st.Pos()), "recorded only where the name was found free of ';'")
				} else {
					o.add(VIOLATED, key, relPath(c, st.Pos()), "the caller's field name becomes a ';'-terminated part of the index keys without having been found free of ';': the entries of an index on \"x;y\" (c:coll;i:x;y;t:...) lie inside the prefix of the index on \"x\" (c:coll;i:x;) - a scan of x yields every document twice, UpdateFunc runs twice on each, Delete through it drives the counter negative, and DropIndex(x) empties the other index")
				}
			}
		}
	}
	// (b) the name of a new collection: the catalog record written for a freshly made metadata object
	// the catalog writer, by role: a function of the root package given a name and a pointer to a struct, which
	// marshals the struct (encoding/json) and puts it into the store
	var savers []*ssa.Function
	for _, fn := range c.Roles().MetaWriters {
		// those with a name and a pointer-to-struct parameter
		hasS, hasP := false, false
		for _, p := range fn.Params {
			if isStringType(p.Type()) {
				hasS = true
			}
			if pt, ok := p.Type().Underlying().(*types.Pointer); ok {
				if nn, ok := pt.Elem().(*types.Named); ok {
					if _, isS := nn.Underlying().(*types.Struct); isS && nn.Obj().Pkg() != nil && nn.Obj().Pkg().Path() == c.ModPath && p != fn.Params[0] {
						hasP = true
					}
				}
			}
		}
		if hasS && hasP && fn.Parent() == nil {
			savers = append(savers, fn)
		}
	}
	// wrappers that hand their own name and struct parameters on to a catalog writer are catalog writers too
	for changed, rounds := true, 0; changed && rounds < 3; rounds++ {
		changed = false
		isSaver := map[*ssa.Function]bool{}
		for _, sv := range savers {
			isSaver[sv] = true
		}
		for _, fn := range c.LibFuncs {
			if c.pkgRel(fn) != "" || fn.Parent() != nil || isSaver[fn] {
				continue
			}
			forwards := false
			allCalls(fn, func(ci ssa.CallInstruction) {
				g := staticCallee(ci)
				if g == nil || !isSaver[c.declared(g)] {
					return
				}
				strP, ptrP := false, false
				for _, a := range ci.Common().Args {
					if p, ok := a.(*ssa.Parameter); ok && p.Parent() == fn {
						if isStringType(p.Type()) {
							strP = true
						}
						if _, isPtr := p.Type().Underlying().(*types.Pointer); isPtr && p != fn.Params[0] {
							ptrP = true
						}
					}
				}
				if strP && ptrP {
					forwards = true
				}
			})
			if forwards {
				savers = append(savers, fn)
				changed = true
			}
		}
	}
	for _, save := range savers {
		for _, cs := range c.staticCallers(save) {
			fn := cs.Parent()
			if fn == nil || !c.IsLib(fn) {
				continue
			}
			args := cs.Common().Args
			var name, meta ssa.Value
			// the arguments at the positions of the writer's name and struct parameters
			for i, p := range save.Params {
				if i >= len(args) {
					continue
				}
				if isStringType(p.Type()) && name == nil {
					name = args[i]
				}
				if pt, ok := p.Type().Underlying().(*types.Pointer); ok {
					if nn, ok := pt.Elem().(*types.Named); ok {
						if _, isS := nn.Underlying().(*types.Struct); isS && nn.Obj().Pkg() != nil && nn.Obj().Pkg().Path() == c.ModPath {
							meta = args[i] // the last such parameter (the receiver comes first)
						}
					}
				}
			}
			if name == nil || meta == nil {
				continue
			}
			fresh := false
			for _, og := range origins(meta) {
				if _, isAlloc := og.(*ssa.Alloc); isAlloc {
					fresh = true
				}
			}
			if !fresh {
				continue
			}
			n++
			key := c.fname(fn) + "/the name of a new collection is free of the separator"
			if guardedBy(fn, cs.Block(), c.validatedEdges(fn, name, freeEdges, 0)) {
				o.add(OK, key, relPath(c, cs.Pos()), "the catalog record of a new collection is written only where the name was found free of ';'")
			} else {
				o.add(VIOLATED, key, relPath(c, cs.Pos()), "the catalog record of a new collection is written without the name having been found free of ';': the documents of a collection \"a;d:b\" (c:a;d:b;d:<id>) lie inside the document prefix of \"a\" (c:a;d:) - FindAll(\"a\") returns them, Update(\"a\") writes them into a, Delete leaves them behind and drives the counter negative, DropIndex(\"c\", \"x\") deletes the documents of \"c;i:x\"")
			}
		}
	}
	if n == 0 {
		o.add(UNDECIDED, "names", "-", "neither the record of a new index field nor the catalog record of a new collection was recognised")
		return softenUndecided(o.list)
	}
	return o.list
}

// ---------------------------------------------------------------- IDX11

// IDX11: removing an index from the catalog removes exactly the entry that was looked for.
// The function that searches the list of index descriptions for a field name (a loop
// comparing x[i].Field with a parameter) and then rewrites the list is interpreted on
// lists of one, two and three entries, for every position of the entry found: element
// stores, re-slicing and append() are executed on a model of Go's slices (a backing
// array and views into it). The list written back must hold every other entry once and
// the found one not at all. `s[0] = s[j]; s = s[1:]` (the two sides of `s[j] = s[0]`
// swapped) keeps the dropped index in the catalog and loses the first one.
func ruleIDX11(c *Ctx) []Ob {
	o := newObs(c, "IDX11")
	n := 0
	for _, fn := range c.LibFuncs {
		if c.pkgRel(fn) != "" || fn.Parent() != nil {
			continue
		}
		// the search: x[i].Field == parameter
		var counter ssa.Value
		var listField string
		var listOwner *types.Named
		for _, b := range fn.Blocks {
			for _, in := range b.Instrs {
				bo, ok := in.(*ssa.BinOp)
				if !ok || bo.Op != token.EQL {
					continue
				}
				for _, pair := range [][2]ssa.Value{{bo.X, bo.Y}, {bo.Y, bo.X}} {
					if _, isP := pair[1].(*ssa.Parameter); !isP {
						continue
					}
					ld, ok := pair[0].(*ssa.UnOp)
					if !ok || ld.Op != token.MUL {
						continue
					}
					fa, ok := ld.X.(*ssa.FieldAddr)
					if !ok {
						continue
					}
					if _, f, nm := fieldOfAddr(fa); f != "Field" || nm == nil || !c.libNamedIs(nm, "index", "Info") {
						continue
					}
					ia, ok := fa.X.(*ssa.IndexAddr)
					if !ok {
						continue
					}
					if _, lf, ln := fieldLoad(ia.X); lf != "" && ln != nil {
						counter, listField, listOwner = ia.Index, lf, ln
					}
				}
			}
		}
		if counter == nil {
			continue
		}
		isList := func(v ssa.Value) bool {
			_, f, nn := fieldLoad(v)
			return f == listField && nn == listOwner
		}
		var isVictimD func(v ssa.Value, d int, seen map[ssa.Value]bool) bool
		isVictimD = func(v ssa.Value, d int, seen map[ssa.Value]bool) bool {
			if v == counter {
				return true
			}
			if d > 4 || seen[v] {
				return false
			}
			seen[v] = true
			if phi, ok := v.(*ssa.Phi); ok {
				for _, e := range phi.Edges {
					if isVictimD(e, d+1, seen) {
						return true
					}
				}
			}
			return false
		}
		isVictim := func(v ssa.Value) bool { return isVictimD(v, 0, map[ssa.Value]bool{}) }
		// the rewriting instructions: element stores into the list, stores of the field
		var rew []ssa.Instruction
		var rewBlock *ssa.BasicBlock
		straight := true
		for _, b := range fn.Blocks {
			if c.inLoop(b) {
				continue
			}
			for _, in := range b.Instrs {
				st, ok := in.(*ssa.Store)
				if !ok {
					continue
				}
				touches := false
				if ia, ok := st.Addr.(*ssa.IndexAddr); ok && isList(ia.X) {
					touches = true
				}
				if _, f, nn := fieldOfAddr(st.Addr); f == listField && nn == listOwner {
					// only rewrites that derive from the list itself (not the allocation of an empty list)
					touches = false
					for _, og := range origins(st.Val) {
						switch x := og.(type) {
						case *ssa.Slice:
							if isList(x.X) {
								touches = true
							}
						case *ssa.Call:
							if bi, isB := x.Call.Value.(*ssa.Builtin); isB && bi.Name() == "append" {
								touches = true
							}
						}
					}
				}
				if touches {
					if rewBlock != nil && rewBlock != b {
						straight = false
					}
					rewBlock = b
					rew = append(rew, st)
				}
			}
		}
		// append-to-list in createIndex (appending a new description) is not a removal: require a victim use
		usesVictim := false
		for _, in := range rew {
			var walk func(v ssa.Value, d int)
			walk = func(v ssa.Value, d int) {
				if v == nil || d > 6 || usesVictim {
					return
				}
				if isVictim(v) {
					usesVictim = true
					return
				}
				switch x := v.(type) {
				case *ssa.IndexAddr:
					walk(x.Index, d+1)
					walk(x.X, d+1)
				case *ssa.UnOp:
					walk(x.X, d+1)
				case *ssa.BinOp:
					walk(x.X, d+1)
					walk(x.Y, d+1)
				case *ssa.Slice:
					walk(x.Low, d+1)
					walk(x.High, d+1)
					walk(x.X, d+1)
				case *ssa.Call:
					for _, a := range x.Call.Args {
						walk(a, d+1)
					}
				}
			}
			st := in.(*ssa.Store)
			walk(st.Addr, 0)
			walk(st.Val, 0)
		}
		if len(rew) == 0 || !usesVictim {
			continue
		}
		n++
		key := c.fname(fn) + "/the catalog loses exactly the index that was looked for"
		if !straight {
			o.add(UNDECIDED, key, relPath(c, rew[0].Pos()), "the list is rewritten in several basic blocks: not interpreted")
			continue
		}
		// ---- the interpreter
		type view struct{ off, ln int }
		bad := ""
		for size := 1; size <= 3 && bad == ""; size++ {
			for j := 0; j < size && bad == ""; j++ {
				back := make([]int, size, size+4) // symbols 0..size-1
				for i := range back {
					back[i] = i
				}
				cur := view{0, size}
				views := map[ssa.Value]view{}
				loadedAt := map[*ssa.UnOp]int{}
				fail := ""
				var evalInt func(v ssa.Value, d int) (int, bool)
				var evalView func(v ssa.Value, d int) (view, bool)
				evalInt = func(v ssa.Value, d int) (int, bool) {
					if d > 8 {
						return 0, false
					}
					if isVictim(v) {
						return j, true
					}
					if k, ok := constInt(v); ok {
						return int(k), true
					}
					switch x := v.(type) {
					case *ssa.BinOp:
						a, ok1 := evalInt(x.X, d+1)
						bb, ok2 := evalInt(x.Y, d+1)
						if !ok1 || !ok2 {
							return 0, false
						}
						switch x.Op {
						case token.ADD:
							return a + bb, true
						case token.SUB:
							return a - bb, true
						}
					case *ssa.Call:
						if bi, isB := x.Call.Value.(*ssa.Builtin); isB && bi.Name() == "len" {
							if vw, ok := evalView(x.Call.Args[0], d+1); ok {
								return vw.ln, true
							}
						}
					case *ssa.Convert:
						return evalInt(x.X, d+1)
					}
					return 0, false
				}
				evalView = func(v ssa.Value, d int) (view, bool) {
					if d > 8 {
						return view{}, false
					}
					if vw, ok := views[v]; ok {
						return vw, true
					}
					if isList(v) {
						return cur, true // refined below: loads are bound when first met in order
					}
					if sl, ok := v.(*ssa.Slice); ok {
						base, ok := evalView(sl.X, d+1)
						if !ok {
							return view{}, false
						}
						lo, hi := 0, base.ln
						if sl.Low != nil {
							if lo, ok = evalInt(sl.Low, d+1); !ok {
								return view{}, false
							}
						}
						if sl.High != nil {
							if hi, ok = evalInt(sl.High, d+1); !ok {
								return view{}, false
							}
						}
						if lo < 0 || hi < lo || base.off+hi > cap(back) {
							return view{}, false
						}
						return view{base.off + lo, hi - lo}, true
					}
					return view{}, false
				}
				// bind every load of the list field, in instruction order, to the view current at that point
				for _, in := range rewBlock.Instrs {
					if v, ok := in.(ssa.Value); ok && isList(v) {
						views[v] = cur
					}
					// an element load: remember what the slot held at that moment
					if ld, isLd := in.(*ssa.UnOp); isLd && ld.Op == token.MUL {
						if sia, isIA := ld.X.(*ssa.IndexAddr); isIA {
							if sv, okA := evalView(sia.X, 0); okA {
								if si, okB := evalInt(sia.Index, 0); okB && si >= 0 && si < sv.ln {
									full := back[:cap(back)]
									loadedAt[ld] = full[sv.off+si]
								}
							}
						}
					}
					st, isSt := in.(*ssa.Store)
					if !isSt {
						continue
					}
					isRew := false
					for _, r := range rew {
						if r == in {
							isRew = true
						}
					}
					if !isRew {
						continue
					}
					if ia, ok := st.Addr.(*ssa.IndexAddr); ok {
						vw, ok1 := evalView(ia.X, 0)
						idx, ok2 := evalInt(ia.Index, 0)
						// the value: a load of an element
						var sym int
						ok3 := false
						if ld, isLd := st.Val.(*ssa.UnOp); isLd && ld.Op == token.MUL {
							if sia, isIA := ld.X.(*ssa.IndexAddr); isIA {
								sv, okA := evalView(sia.X, 0)
								si, okB := evalInt(sia.Index, 0)
								if okA && okB && si >= 0 && si < sv.ln {
									// the element as it was when loaded: loads precede the store in the block, and no
									// earlier rewriting store can have changed it unless it targeted that slot; use the
									// snapshot taken at load time
									sym, ok3 = back[sv.off+si], true
									if s0, had := loadedAt[ld]; had {
										sym = s0
									}
								}
							}
						}
						if !ok1 || !ok2 || !ok3 || idx < 0 || idx >= vw.ln {
							fail = "an element store the interpreter does not follow"
							break
						}
						back = back[:cap(back)]
						back[vw.off+idx] = sym
						continue
					}
					// a store of the field
					done := false
					for _, og := range origins(st.Val) {
						switch x := og.(type) {
						case *ssa.Slice:
							if vw, ok := evalView(x, 0); ok {
								cur, done = vw, true
							}
						case *ssa.Call:
							if bi, isB := x.Call.Value.(*ssa.Builtin); isB && bi.Name() == "append" && len(x.Call.Args) == 2 {
								a, ok1 := evalView(x.Call.Args[0], 0)
								bv, ok2 := evalView(x.Call.Args[1], 0)
								if ok1 && ok2 && a.off+a.ln+bv.ln <= cap(back) {
									back = back[:cap(back)]
									tmp := append([]int(nil), back[bv.off:bv.off+bv.ln]...)
									copy(back[a.off+a.ln:], tmp)
									cur, done = view{a.off, a.ln + bv.ln}, true
								}
							}
						}
					}
					if !done {
						fail = "a rewrite of the list the interpreter does not follow"
						break
					}
				}
				if fail != "" {
					bad = "?" + fail
					break
				}
				back = back[:cap(back)]
				got := map[int]int{}
				for i := 0; i < cur.ln; i++ {
					got[back[cur.off+i]]++
				}
				okRes := cur.ln == size-1
				for s := 0; s < size; s++ {
					want := 1
					if s == j {
						want = 0
					}
					if got[s] != want {
						okRes = false
					}
				}
				if !okRes {
					var res []string
					for i := 0; i < cur.ln; i++ {
						res = append(res, fmt.Sprintf("e%d", back[cur.off+i]))
					}
					bad = fmt.Sprintf("with %d indexes e0..e%d and the one looked for at position %d the list written back is [%s]", size, size-1, j, strings.Join(res, " "))
				}
			}
		}
		switch {
		case bad == "":
			o.add(OK, key, relPath(c, rew[0].Pos()), "interpreted on lists of 1, 2 and 3 entries for every position of the entry found: every other entry is kept once, the found one is gone")
		case strings.HasPrefix(bad, "?"):
			o.add(UNDECIDED, key, relPath(c, rew[0].Pos()), "%s", bad[1:])
		default:
			o.add(VIOLATED, key, relPath(c, rew[0].Pos()), "%s: DropIndex keeps the dropped index in the catalog (its entries are deleted: queries through it return nothing) and loses another index, whose entries stay behind unmaintained; HasIndex and ListIndexes are wrong for both, a second DropIndex succeeds instead of failing with ErrIndexNotExist", bad)
		}
	}
	if n == 0 {
		o.add(INFO, "catalog", "-", "no function searches the list of index descriptions for a field and rewrites the list")
		return o.list
	}
	return softenUndecided(o.list)
}

// ---------------------------------------------------------------- ARG1

// ARG1: the constructor of an index object is given the collection name where the
// collection goes and the field name where the field goes. Both are strings, and the key
// prefix c:<collection>;i:<field>; is built from them in that order: with the two
// swapped, DropIndex("users", "orders") deletes the entries of the index that collection
// "orders" has on field "users". An argument has the role "collection" if the same value
// is handed, in the same function, to a function that loads or saves the catalog record
// (what reaches the catalog key layout), and the role "field" if it is compared with, read
// from or stored into index.Info.Field; an argument in the position of the one role must
// not have the other.
func ruleARG1(c *Ctx) []Ob {
	o := newObs(c, "ARG1")
	n := 0
	for _, fn := range c.LibFuncs {
		if c.pkgRel(fn) != "" {
			continue
		}
		// field-role values of fn
		isFieldRole := func(v ssa.Value) bool {
			for _, og := range origins(v) {
				if _, f, nm := fieldLoad(og); f == "Field" && nm != nil && c.libNamedIs(nm, "index", "Info") {
					return true
				}
			}
			role := false
			for _, b := range fn.Blocks {
				for _, in := range b.Instrs {
					switch x := in.(type) {
					case *ssa.BinOp:
						if x.Op != token.EQL && x.Op != token.NEQ {
							continue
						}
						for _, pair := range [][2]ssa.Value{{x.X, x.Y}, {x.Y, x.X}} {
							if !(pair[0] == v || sameOrigin(pair[0], v)) {
								continue
							}
							if _, f, nm := fieldLoad(pair[1]); f == "Field" && nm != nil && c.libNamedIs(nm, "index", "Info") {
								role = true
							}
						}
					case *ssa.Store:
						if _, f, nm := fieldOfAddr(x.Addr); f == "Field" && nm != nil && c.libNamedIs(nm, "index", "Info") && (x.Val == v || sameOrigin(x.Val, v)) {
							role = true
						}
					}
				}
			}
			return role
		}
		// collection-role: handed to a library function of the root package whose parameter reaches the catalog key
		// (approximated: a function with a string parameter that calls the catalog key builder on it, one level)
		// a catalog-record function: its signature mentions a pointer to a struct of the root package that holds
		// the list of index descriptions ([]index.Info); its string parameter is the collection name
		holdsIndexList := func(t types.Type) bool {
			pt, ok := t.Underlying().(*types.Pointer)
			if !ok {
				return false
			}
			st, ok := pt.Elem().Underlying().(*types.Struct)
			if !ok {
				return false
			}
			for i := 0; i < st.NumFields(); i++ {
				if sl, ok := st.Field(i).Type().Underlying().(*types.Slice); ok && c.libNamedIs(sl.Elem(), "index", "Info") {
					return true
				}
			}
			return false
		}
		// ... and the parameter is what the function builds the catalog key from (a variable part of a key of
		// the catalog layout that it reads, writes or deletes)
		reachesCatalog := func(g *ssa.Function, idx int) bool {
			if g == nil || idx >= len(g.Params) || !isStringType(g.Params[idx].Type()) || c.pkgRel(g) != "" {
				return false
			}
			sig := false
			for _, p := range g.Params {
				if holdsIndexList(p.Type()) {
					sig = true
				}
			}
			res := g.Signature.Results()
			for i := 0; i < res.Len(); i++ {
				if holdsIndexList(res.At(i).Type()) {
					sig = true
				}
			}
			if !sig {
				return false
			}
			r := c.Roles()
			p := g.Params[idx]
			for _, sk := range r.model.sinks {
				if sk.Fn != g {
					continue
				}
				for _, t := range sk.Tmpls {
					if r.CatalogSkel == "" || t.skeleton() != r.CatalogSkel {
						continue
					}
					for _, pt := range t {
						if pt.V != nil && (pt.V == ssa.Value(p) || sameOrigin(pt.V, p)) {
							return true
						}
					}
				}
			}
			return false
		}
		isCollRole := func(v ssa.Value) bool {
			role := false
			allCalls(fn, func(ci ssa.CallInstruction) {
				g := staticCallee(ci)
				if g == nil || !c.IsLib(c.declared(g)) {
					return
				}
				g = c.declared(g)
				for ai, a := range ci.Common().Args {
					if (a == v || sameOrigin(a, v)) && reachesCatalog(g, ai) {
						role = true
					}
				}
			})
			return role
		}
		k := 0
		allCalls(fn, func(ci ssa.CallInstruction) {
			g := staticCallee(ci)
			if g == nil || c.pkgRel(c.declared(g)) != "index" || !strings.HasPrefix(c.declared(g).Name(), "CreateIndex") {
				return
			}
			args := ci.Common().Args
			if len(args) < 2 || !isStringType(args[0].Type()) || !isStringType(args[1].Type()) {
				return
			}
			n++
			k++
			key := fmt.Sprintf("%s/collection and field go to their own positions #%d", c.fname(fn), k)
			switch {
			case isFieldRole(args[0]) && !isCollRole(args[0]):
				o.add(VIOLATED, key, relPath(c, ci.Pos()), "the first argument of %s (the collection) is a value used as an index FIELD name in this function (compared with / taken from index.Info.Field): the index object works on the keys c:<field>;i:<collection>; - DropIndex(\"users\", \"orders\") deletes the entries of the index that collection \"orders\" has on field \"users\", whose catalog still lists it", c.fname(c.declared(g)))
			case isCollRole(args[1]) && !isFieldRole(args[1]):
				o.add(VIOLATED, key, relPath(c, ci.Pos()), "the second argument of %s (the field) is the value this function uses as the COLLECTION name (it loads / saves the catalog record under it): collection and field are swapped in the keys of the index", c.fname(c.declared(g)))
			default:
				o.add(OK, key, relPath(c, ci.Pos()), "no argument has the role of the other position")
			}
		})
	}
	if n == 0 {
		o.add(INFO, "index constructor", "-", "no call of index.CreateIndex with two string arguments")
	}
	return o.list
}

// ---------------------------------------------------------------- ARG2

// ARG2: time.Parse is given the layout first and the text second. Both are strings; with
// the two swapped the text of an exported `_expiresAt` is used as the layout, the parse
// fails, the field stays a string, and the import of any collection holding an expiring
// document is refused. The layout argument of time.Parse / ParseInLocation is a constant
// (or a value that is not the text: never a constant in the text position with a
// non-constant in the layout position).
func ruleARG2(c *Ctx) []Ob {
	o := newObs(c, "ARG2")
	n := 0
	for _, fn := range c.LibFuncs {
		k := 0
		allCalls(fn, func(ci ssa.CallInstruction) {
			full := calleeFullName(ci)
			if full != "time.Parse" && full != "time.ParseInLocation" {
				return
			}
			args := ci.Common().Args
			if len(args) < 2 {
				return
			}
			n++
			k++
			key := fmt.Sprintf("%s/time.Parse is given the layout first #%d", c.fname(fn), k)
			_, c0 := args[0].(*ssa.Const)
			_, c1 := args[1].(*ssa.Const)
			if !c0 && c1 {
				o.add(VIOLATED, key, relPath(c, ci.Pos()), "%s is called with a variable as the layout and a constant as the text: the two arguments are swapped - the exported text of _expiresAt is used as the layout, the parse fails, the field stays a string, and ImportCollection refuses every collection that holds an expiring document", full)
			} else {
				o.add(OK, key, relPath(c, ci.Pos()), "the layout is not a variable next to a constant text")
			}
		})
	}
	if n == 0 {
		o.add(INFO, "time.Parse", "-", "the library does not call time.Parse")
	}
	return o.list
}

// ---------------------------------------------------------------- PANIC7

// PANIC7: a slice indexed by a loop counter is among the slices whose length bounds that
// counter. In a loop whose condition compares the counter with len() of one or more
// slices, an element access x[i] needs `i < len(x)` among the conditions that guard it:
// `for i := 0; i < len(s1) && i < len(s1); i++ { ... s2[i] }` (one name for the other)
// panics with "index out of range" as soon as the first array is longer than the second
// - in the comparison behind every filter, sort and index range.
func rulePANIC7(c *Ctx) []Ob {
	o := newObs(c, "PANIC7")
	n := 0
	for _, fn := range c.LibFuncs {
		k := 0
		// edges "i < len(X)": map from counter value to the slices bounding it, with the edges
		type bound struct {
			x ssa.Value
			e edge
		}
		bounds := map[ssa.Value][]bound{}
		ifEdges(fn, func(cond ssa.Value, e edge) {
			bo, ok := cond.(*ssa.BinOp)
			if !ok {
				return
			}
			var ctr ssa.Value
			var lenCall *ssa.Call
			var less bool // ctr < len on the true branch
			if cl, ok := bo.Y.(*ssa.Call); ok {
				if bi, isB := cl.Call.Value.(*ssa.Builtin); isB && bi.Name() == "len" {
					ctr, lenCall = bo.X, cl
					switch bo.Op {
					case token.LSS:
						less = true
					case token.GEQ:
						less = false
					default:
						return
					}
				}
			}
			if lenCall == nil {
				if cl, ok := bo.X.(*ssa.Call); ok {
					if bi, isB := cl.Call.Value.(*ssa.Builtin); isB && bi.Name() == "len" {
						ctr, lenCall = bo.Y, cl
						switch bo.Op {
						case token.GTR:
							less = true
						case token.LEQ:
							less = false
						default:
							return
						}
					}
				}
			}
			if lenCall == nil {
				return
			}
			if _, isPhi := ctr.(*ssa.Phi); !isPhi {
				return
			}
			if e.Branch == less {
				bounds[ctr] = append(bounds[ctr], bound{lenCall.Call.Args[0], e})
			}
		})
		if len(bounds) == 0 {
			continue
		}
		for _, b := range fn.Blocks {
			for _, in := range b.Instrs {
				ia, ok := in.(*ssa.IndexAddr)
				if !ok {
					continue
				}
				if _, isSl := ia.X.Type().Underlying().(*types.Slice); !isSl {
					continue
				}
				bs, isCtr := bounds[ia.Index]
				if !isCtr {
					continue
				}
				// only where the access is guarded by at least one of the counter's bounds (inside that loop)
				var guarding []bound
				for _, bd := range bs {
					if guardedBy(fn, b, []edge{bd.e}) {
						guarding = append(guarding, bd)
					}
				}
				if len(guarding) == 0 {
					continue
				}
				n++
				k++
				key := fmt.Sprintf("%s/a slice indexed by the counter bounds the counter #%d", c.fname(fn), k)
				own := false
				for _, bd := range guarding {
					if bd.x == ia.X || sameOrigin(bd.x, ia.X) || samePath(bd.x, ia.X, 0) {
						own = true
					}
				}
				// a slice made with the length of a bounding slice (out := make([]T, len(in)))
				for _, og := range origins(ia.X) {
					if mk, ok := og.(*ssa.MakeSlice); ok {
						if lc, ok := mk.Len.(*ssa.Call); ok {
							if bi, isB := lc.Call.Value.(*ssa.Builtin); isB && bi.Name() == "len" {
								for _, bd := range guarding {
									if lc.Call.Args[0] == bd.x || sameOrigin(lc.Call.Args[0], bd.x) || samePath(lc.Call.Args[0], bd.x, 0) {
										own = true
									}
								}
							}
						}
					}
				}
				if own {
					o.add(OK, key, relPath(c, ia.Pos()), "guarded by counter < len of the same slice")
				} else {
					o.add(VIOLATED, key, relPath(c, ia.Pos()), "the element access is guarded by the counter being smaller than the length of OTHER slices only: as soon as this slice is the shorter one the access panics with \"index out of range\" - comparing [\"a\",\"b\",\"c\"] with its prefix [\"a\",\"b\"] (Eq, Gt, In, a sort on an array field, the emptiness test of an index range) panics instead of returning a result")
				}
			}
		}
	}
	if n == 0 {
		o.add(INFO, "loops", "-", "no slice is indexed by a loop counter bounded by len()")
	}
	return o.list
}

// ---------------------------------------------------------------- COD7

// COD7: on the way back from a document to a struct, a field of the document is marked as
// moved under the name it was FOUND under. The rename walk looks an entry up in the
// document (fields[from]), stores it under the name encoding/json expects (renamed[to]) and
// records it in a set so that the entry is not copied again under its old name: the
// record made behind the found-edge of the lookup uses the lookup's key. Marking `to`
// instead leaves the entry in the document under both names; when the old name is (up to
// case) the json name of another field, encoding/json fills that field with it too.
func ruleCOD7(c *Ctx) []Ob {
	o := newObs(c, "COD7")
	n := 0
	for _, fn := range c.LibFuncs {
		if c.pkgRel(fn) != "internal" {
			continue
		}
		k := 0
		for _, b := range fn.Blocks {
			for _, in := range b.Instrs {
				mu, ok := in.(*ssa.MapUpdate)
				if !ok {
					continue
				}
				mt, isM := mu.Map.Type().Underlying().(*types.Map)
				if !isM {
					continue
				}
				if bt, isB := mt.Elem().Underlying().(*types.Basic); !isB || bt.Kind() != types.Bool {
					continue
				}
				if kt, isB := mt.Key().Underlying().(*types.Basic); !isB || kt.Kind() != types.String {
					continue
				}
				// the found-edges of comma-ok lookups in maps of field values that guard this record
				var keys []ssa.Value
				ifEdges(fn, func(cond ssa.Value, e edge) {
					ex, ok := cond.(*ssa.Extract)
					if !ok || ex.Index != 1 || !e.Branch {
						return
					}
					lk, ok := ex.Tuple.(*ssa.Lookup)
					if !ok || !lk.CommaOk {
						return
					}
					lm, isM := lk.X.Type().Underlying().(*types.Map)
					if !isM {
						return
					}
					if _, isI := lm.Elem().Underlying().(*types.Interface); !isI {
						return
					}
					if guardedBy(fn, b, []edge{e}) {
						keys = append(keys, lk.Index)
					}
				})
				if len(keys) == 0 {
					continue
				}
				n++
				k++
				key := fmt.Sprintf("%s/an entry is marked as moved under the name it was found under #%d", c.fname(fn), k)
				same := false
				for _, kv := range keys {
					if kv == mu.Key || sameOrigin(kv, mu.Key) {
						same = true
					}
				}
				if same {
					o.add(OK, key, relPath(c, mu.Pos()), "the record uses the key of the lookup that found the entry")
				} else {
					o.add(VIOLATED, key, relPath(c, mu.Pos()), "behind the lookup that found the entry the record is made under ANOTHER name (the name it is moved to): the entry stays in the document under its old name as well, and when that name is, up to case, the json name of another field of the struct, encoding/json assigns it to that field too - account{Owner `clover:\"name\"`; Name `clover:\"label\"`} {alice, savings} comes back as {alice, alice}")
				}
			}
		}
	}
	if n == 0 {
		o.add(INFO, "rename walk", "-", "no set of names is filled behind a lookup in a map of field values")
	}
	return o.list
}

// validatedEdges: the edges of fn on which src is known to have passed a check: the edges given by base, plus
// the nil-error edge of a call err := g(..., src, ...) to a library function g every nil-error return of
// which lies behind base's edges for its own parameter (a validator that answers with an error).
func (c *Ctx) validatedEdges(fn *ssa.Function, src ssa.Value, base func(fn *ssa.Function, src ssa.Value) []edge, depth int) []edge {
	out := base(fn, src)
	if depth > 2 {
		return out
	}
	same := func(v ssa.Value) bool { return v == src || sameOrigin(v, src) }
	out = append(out, guardEdges(fn, func(cond ssa.Value, branch bool) bool {
		x, tnil, ok := nilTest(cond)
		if !ok || !isErrorType(x.Type()) || branch != tnil {
			return false
		}
		for _, og := range origins(x) {
			var call *ssa.Call
			idx := 0
			switch y := og.(type) {
			case *ssa.Call:
				call = y
			case *ssa.Extract:
				if cl, isCall := y.Tuple.(*ssa.Call); isCall {
					call, idx = cl, y.Index
				}
			}
			if call == nil {
				return false
			}
			g := staticCallee(call)
			if g == nil || !c.IsLib(c.declared(g)) {
				return false
			}
			g = c.declared(g)
			okAll := false
			for ai, a := range call.Call.Args {
				if !same(a) || ai >= len(g.Params) {
					continue
				}
				p := g.Params[ai]
				pe := c.validatedEdges(g, p, base, depth+1)
				good := true
				for _, ret := range returnsOf(g) {
					rv, has := returnedValue(ret, idx)
					if !has {
						continue
					}
					for _, ro := range origins(rv) {
						if isNilConst(ro) && !guardedBy(g, ret.Block(), pe) {
							good = false
						}
						if !isNilConst(ro) {
							// an error value: fine; a forwarded error of another validator: accepted when it is the
							// tested result of a validator of the same parameter
							continue
						}
					}
				}
				if good && len(pe) > 0 {
					okAll = true
				}
			}
			if !okAll {
				return false
			}
		}
		return true
	})...)
	return out
}

// ---------------------------------------------------------------- ERR5

// ERR5: on the failure path of one error, the error returned is not another error
// variable that is known to be nil there. `if delErr := tx.Delete(k); delErr != nil {
// return err }` - a rename that left the return behind - returns the `err` of the
// statement before, which has just been tested and is nil: the store's failure comes
// back as success, the caller commits, and a DropIndex that failed half-way is
// acknowledged with half of the entries gone.
func ruleERR5(c *Ctx) []Ob {
	o := newObs(c, "ERR5")
	n, bad := 0, 0
	for _, fn := range c.LibFuncs {
		res := fn.Signature.Results()
		if res.Len() == 0 || !isErrorType(res.At(res.Len()-1).Type()) {
			continue
		}
		ei := res.Len() - 1
		k := 0
		// the failure edges of fn: an error value found not to be nil
		type fail struct {
			ev ssa.Value
			e  edge
		}
		var fails []fail
		ifEdges(fn, func(cond ssa.Value, e edge) {
			x, tnil, ok := nilTest(cond)
			if !ok || !isErrorType(x.Type()) || e.Branch == tnil {
				return
			}
			fails = append(fails, fail{x, e})
		})
		if len(fails) == 0 {
			continue
		}
		for _, ret := range returnsOf(fn) {
			rv, has := returnedValue(ret, ei)
			if !has || isNilConst(rv) {
				continue
			}
			for _, f := range fails {
				if !guardedBy(fn, ret.Block(), []edge{f.e}) {
					continue
				}
				n++
				if rv == f.ev || sameOrigin(rv, f.ev) {
					continue
				}
				// the outcome of a second attempt, made only because the first call failed, in place of the
				// failure: what the second attempt produces is another encoding / another answer, and the
				// failure (a value the codec cannot represent, a refusal) is turned into a success
				second := false
				for _, og := range origins(rv) {
					var k2 *ssa.Call
					switch x := og.(type) {
					case *ssa.Call:
						k2 = x
					case *ssa.Extract:
						k2, _ = x.Tuple.(*ssa.Call)
					}
					if k2 == nil || !guardedBy(fn, k2.Block(), []edge{f.e}) {
						continue
					}
					switch calleeFullName(k2) {
					case "fmt.Errorf", "errors.New", "errors.Join":
						continue
					}
					// the failure handed to the second call (wrapped, reported) is not dropped
					uses := false
					for _, a := range k2.Call.Args {
						if a == f.ev || sameOrigin(a, f.ev) {
							uses = true
						}
					}
					if !uses {
						second = true
					}
				}
				if second {
					k++
					bad++
					o.add(VIOLATED, fmt.Sprintf("%s/the failure of one call is not answered with the outcome of a second attempt #%d", c.fname(fn), k), relPath(c, ret.Pos()), "on the path where %s failed the function returns what another call, made only there, answered: the failure is dropped, and when the second attempt succeeds the caller gets a result the first call refused to produce (a time whose zone offset has no binary form stored as UTC: the document is written, the zone is lost)", describeValue(c, f.ev))
					continue
				}
				// another error value: known to be nil here?
				if guardedBy(fn, ret.Block(), nilEdges(fn, sameValue(rv))) {
					k++
					bad++
					o.add(VIOLATED, fmt.Sprintf("%s/the failure of one call is not answered with another, nil, error #%d", c.fname(fn), k), relPath(c, ret.Pos()), "on the path where %s is not nil the function returns %s, which has been tested before and is nil on this path: the failure is reported as success - a store error while DropIndex deletes the entries of an index comes back as nil, the catalog is rewritten and the transaction committed with part of the entries gone", describeValue(c, f.ev), describeValue(c, rv))
				}
			}
		}
	}
	if bad == 0 {
		o.add(OK, "library/failure paths return their own error", "-", "%d returns on failure paths inspected: none returns another error variable known to be nil there", n)
	}
	return o.list
}

// samePath: a and b are the same access path (loads of the same field of the same object, elements of the same
// slice at the same index, the same parameter or local), compared structurally; two loads of a captured
// variable are the same path.
func samePath(a, b ssa.Value, depth int) bool {
	if a == b {
		return true
	}
	if a == nil || b == nil || depth > 6 {
		return false
	}
	switch x := a.(type) {
	case *ssa.UnOp:
		y, ok := b.(*ssa.UnOp)
		return ok && x.Op == y.Op && samePath(x.X, y.X, depth+1)
	case *ssa.FieldAddr:
		y, ok := b.(*ssa.FieldAddr)
		return ok && x.Field == y.Field && samePath(x.X, y.X, depth+1)
	case *ssa.Field:
		y, ok := b.(*ssa.Field)
		return ok && x.Field == y.Field && samePath(x.X, y.X, depth+1)
	case *ssa.IndexAddr:
		y, ok := b.(*ssa.IndexAddr)
		return ok && samePath(x.X, y.X, depth+1) && samePath(x.Index, y.Index, depth+1)
	case *ssa.FreeVar:
		y, ok := b.(*ssa.FreeVar)
		return ok && x == y
	}
	return false
}

// dominatingConds: the conditional edges of fn that lie on every path from the entry to block b (each If whose
// one branch alone leads to b), as (condition, branch taken) pairs.
func dominatingConds(fn *ssa.Function, b *ssa.BasicBlock) []struct {
	cond   ssa.Value
	branch bool
} {
	var out []struct {
		cond   ssa.Value
		branch bool
	}
	ifEdges(fn, func(cond ssa.Value, e edge) {
		if guardedBy(fn, b, []edge{e}) {
			out = append(out, struct {
				cond   ssa.Value
				branch bool
			}{cond, e.Branch})
		}
	})
	return out
}

// ---------------------------------------------------------------- CMP16

// CMP16: a float is converted to an integer only where it is known to lie inside that
// integer's range - strictly below 2^63 (2^64 for uint64) and not below -2^63 (above -1).
// The conversion of an out-of-range float is implementation defined (MinInt64 on amd64):
// `case v2 > math.MaxInt64` reads like the cleaner spelling of `v2 >= 1<<63`, but as a
// float64 constant MaxInt64 IS 2^63, so the float 2^63 slips through, int64(2^63) wraps,
// and almost every int64 compares greater than 2^63: the order stops being transitive.
// The guards on the path (comparisons of the converted value with constants) are
// evaluated exactly.
func ruleCMP16(c *Ctx) []Ob {
	o := newObs(c, "CMP16")
	n := 0
	var fns []*ssa.Function
	for f := range c.comparatorFuncs() {
		fns = append(fns, f)
	}
	sort.Slice(fns, func(i, j int) bool { return c.fname(fns[i]) < c.fname(fns[j]) })
	two63 := new(big.Float).SetMantExp(big.NewFloat(1), 63)
	two64 := new(big.Float).SetMantExp(big.NewFloat(1), 64)
	for _, fn := range fns {
		k := 0
		for _, b := range fn.Blocks {
			for _, in := range b.Instrs {
				cv, ok := in.(*ssa.Convert)
				if !ok {
					continue
				}
				from, okF := cv.X.Type().Underlying().(*types.Basic)
				to, okT := cv.Type().Underlying().(*types.Basic)
				if !okF || !okT || from.Kind() != types.Float64 {
					continue
				}
				var hi *big.Float // v must be < hi
				var lo *big.Float // v must be >= lo   (loStrict: v > lo)
				loStrict := false
				switch to.Kind() {
				case types.Int64, types.Int:
					hi, lo = two63, new(big.Float).Neg(two63)
				case types.Uint64, types.Uint:
					hi, lo, loStrict = two64, big.NewFloat(-1), true
				default:
					continue
				}
				n++
				k++
				key := fmt.Sprintf("%s/a float is converted to an integer inside the integer's range #%d", c.fname(fn), k)
				upOK, loOK := false, false
				for _, dc := range c.comparisonFacts(fn, b) {
					bo := dc
					var kv *ssa.Const
					var op token.Token
					switch {
					case bo.X == cv.X || sameOrigin(bo.X, cv.X):
						kv, _ = bo.Y.(*ssa.Const)
						op = bo.Op
					case bo.Y == cv.X || sameOrigin(bo.Y, cv.X):
						kv, _ = bo.X.(*ssa.Const)
						// mirror the operator
						switch bo.Op {
						case token.LSS:
							op = token.GTR
						case token.LEQ:
							op = token.GEQ
						case token.GTR:
							op = token.LSS
						case token.GEQ:
							op = token.LEQ
						default:
							op = bo.Op
						}
					}
					if kv == nil || kv.Value == nil {
						continue
					}
					f64, _ := constant.Float64Val(constant.ToFloat(kv.Value)) // the comparison happens in float64
					K := big.NewFloat(f64)
					// the fact that holds on the branch taken
					if !dc.branch {
						switch op {
						case token.LSS:
							op = token.GEQ
						case token.LEQ:
							op = token.GTR
						case token.GTR:
							op = token.LEQ
						case token.GEQ:
							op = token.LSS
						default:
							continue
						}
					}
					switch op {
					case token.LSS: // v < K
						if K.Cmp(hi) <= 0 {
							upOK = true
						}
					case token.LEQ: // v <= K
						if K.Cmp(hi) < 0 {
							upOK = true
						}
					case token.GEQ: // v >= K
						if (!loStrict && K.Cmp(lo) >= 0) || (loStrict && K.Cmp(lo) > 0) {
							loOK = true
						}
					case token.GTR: // v > K
						if K.Cmp(lo) >= 0 {
							loOK = true
						}
					}
				}
				switch {
				case upOK && loOK:
					o.add(OK, key, relPath(c, cv.Pos()), "on the path the float is known to be below %s and not below the lower end of the range", hi.Text('g', 20))
				case !upOK:
					o.add(VIOLATED, key, relPath(c, cv.Pos()), "nothing on the path keeps the float strictly below %s: the float %s itself reaches the conversion, whose result is implementation defined (MinInt64 on amd64) - `v > math.MaxInt64` does not exclude it, since as a float64 constant MaxInt64 is 2^63 - and almost every integer then compares greater than 2^63: the order is not transitive, an in-memory sort returns a sequence outside the total order", hi.Text('g', 20), hi.Text('g', 20))
				default:
					o.add(VIOLATED, key, relPath(c, cv.Pos()), "nothing on the path keeps the float from lying below the range of the integer it is converted to: the result of the conversion is implementation defined")
				}
			}
		}
	}
	if n == 0 {
		o.add(INFO, "comparator", "-", "the comparator converts no float to an integer")
	}
	return o.list
}

// ---------------------------------------------------------------- CMP17

// CMP17: the comparator asks for the SIGN of a float with a comparison, not for its sign
// BIT: math.Signbit(-0.0) is true although -0.0 is not below zero. With `case
// math.Signbit(v2): return 1` in the unsigned branch, uint64(0) compares greater than
// -0.0 while int64(0) and 0.0 compare equal to it (transitivity is lost, and every zero
// has one index key).
func ruleCMP17(c *Ctx) []Ob {
	o := newObs(c, "CMP17")
	n, bad := 0, 0
	for fn := range c.comparatorFuncs() {
		n++
		allCalls(fn, func(ci ssa.CallInstruction) {
			full := calleeFullName(ci)
			if full != "math.Signbit" && full != "math.Copysign" {
				return
			}
			bad++
			o.add(VIOLATED, c.fname(fn)+"/the sign of a float is asked with a comparison", relPath(c, ci.Pos()), "%s looks at the sign bit, which -0.0 has although it is not below zero: uint64(0) compares greater than -0.0, while int64(0) and 0.0 compare equal to it - the order is not transitive, and Eq(-0.0) misses documents holding an unsigned zero that an index scan (all zeros share one key) returns", full)
		})
	}
	if bad == 0 {
		o.add(OK, "comparator/the sign of a float is asked with a comparison", "-", "%d comparator functions: none calls math.Signbit or math.Copysign", n)
	}
	return o.list
}

// ---------------------------------------------------------------- IDX12

// IDX12: the position at which the catalog's list of indexes is rewritten was FOUND
// equal to the field looked for. The variable that holds the position takes, on every
// way into it, either a negative sentinel (not found) or a position assigned behind the
// true edge of `list[pos].Field == field`. A backward scan `j := len-1; for j > 0 &&
// list[j].Field != field { j-- }` never tests entry 0: dropping a field that has no
// index ends at position 0 and removes the oldest sibling instead of answering
// ErrIndexNotExist.
func ruleIDX12(c *Ctx) []Ob {
	o := newObs(c, "IDX12")
	n := 0
	for _, fn := range c.LibFuncs {
		if c.pkgRel(fn) != "" || fn.Parent() != nil {
			continue
		}
		// comparisons list[x].Field ==/!= param, with the index value x
		type eq struct {
			idx ssa.Value
			e   edge // the edge on which the two are equal
		}
		var eqs []eq
		var param ssa.Value
		ifEdges(fn, func(cond ssa.Value, e edge) {
			bo, ok := cond.(*ssa.BinOp)
			if !ok || (bo.Op != token.EQL && bo.Op != token.NEQ) {
				return
			}
			for _, pair := range [][2]ssa.Value{{bo.X, bo.Y}, {bo.Y, bo.X}} {
				p, isP := pair[1].(*ssa.Parameter)
				if !isP {
					continue
				}
				ld, ok := pair[0].(*ssa.UnOp)
				if !ok || ld.Op != token.MUL {
					continue
				}
				fa, ok := ld.X.(*ssa.FieldAddr)
				if !ok {
					continue
				}
				if _, f, nm := fieldOfAddr(fa); f != "Field" || nm == nil || !c.libNamedIs(nm, "index", "Info") {
					continue
				}
				ia, ok := fa.X.(*ssa.IndexAddr)
				if !ok {
					continue
				}
				if e.Branch == (bo.Op == token.EQL) {
					eqs = append(eqs, eq{ia.Index, e})
					param = p
				}
			}
		})
		if len(eqs) == 0 {
			continue
		}
		// the positions at which the list is rewritten or read for the entry to drop (outside the search loop)
		var victims []ssa.Value
		for _, b := range fn.Blocks {
			if c.inLoop(b) {
				continue
			}
			for _, in := range b.Instrs {
				st, ok := in.(*ssa.Store)
				if !ok {
					continue
				}
				if ia, ok := st.Addr.(*ssa.IndexAddr); ok {
					if _, f, nn := fieldLoad(ia.X); f != "" && nn != nil {
						if _, isK := ia.Index.(*ssa.Const); !isK {
							victims = append(victims, ia.Index)
						}
					}
				}
			}
		}
		if len(victims) == 0 || param == nil {
			continue
		}
		for vi, v := range victims {
			if vi > 0 {
				break // one position variable per function
			}
			n++
			key := c.fname(fn) + "/the position rewritten was found equal to the field"
			bad := ""
			seen := map[ssa.Value]bool{}
			var walk func(x ssa.Value, via *ssa.BasicBlock, d int)
			walk = func(x ssa.Value, via *ssa.BasicBlock, d int) {
				if x == nil || d > 8 || bad != "" {
					return
				}
				// a position assigned behind an equality edge for that very position (the loop counter is a phi too)
				for _, q := range eqs {
					if (q.idx == x || sameOrigin(q.idx, x)) && via != nil && guardedBy(fn, via, []edge{q.e}) {
						return
					}
				}
				if phi, ok := x.(*ssa.Phi); ok {
					if seen[phi] {
						return
					}
					seen[phi] = true
					for i, e := range phi.Edges {
						walk(e, phi.Block().Preds[i], d+1)
					}
					return
				}
				if k, ok := constInt(x); ok {
					if k < 0 {
						return // the "not found" sentinel
					}
					bad = fmt.Sprintf("the constant %d", k)
					return
				}
				// a position: assigned behind an equality edge for that very position?
				for _, q := range eqs {
					if (q.idx == x || sameOrigin(q.idx, x)) && via != nil && guardedBy(fn, via, []edge{q.e}) {
						return
					}
				}
				bad = "a position that has not been compared (" + describeValue(c, x) + ")"
			}
			walk(v, nil, 0)
			if _, isPhi := v.(*ssa.Phi); !isPhi {
				// a plain value: the rewrite itself must sit behind the equality
				bad = ""
				okG := false
				for _, q := range eqs {
					if q.idx == v || sameOrigin(q.idx, v) {
						okG = true
					}
				}
				if !okG {
					bad = "a position that has not been compared"
				}
			}
			if bad == "" {
				o.add(OK, key, relPath(c, fn.Pos()), "every way into the position variable is the negative sentinel or a position found equal to the field")
			} else {
				o.add(VIOLATED, key, relPath(c, fn.Pos()), "the position at which the catalog's list is rewritten can be %s, without that entry having been found equal to the field looked for: a search that never tests entry 0 (`for j > 0 && list[j].Field != field`) ends there for a field that has no index - DropIndex answers nil instead of ErrIndexNotExist and removes the oldest sibling index from the catalog, whose entries stay behind unmaintained", bad)
			}
		}
	}
	if n == 0 {
		o.add(INFO, "catalog", "-", "no function rewrites the list of index descriptions at a searched position")
	}
	return o.list
}

// ---------------------------------------------------------------- COD8

// COD8: on the way back from a document to a Go value, the walk that looks for structs
// behind a target type strips EVERY level of pointers before it asks for the kind, as
// the writer follows pointer chains of any depth: the type whose Kind() is compared
// with reflect.Struct comes out of a helper that strips pointers in a loop (or the walk
// has a case for pointers that goes on with Elem()). A helper that strips one level
// (`if rt.Kind() == reflect.Ptr { return rt.Elem() }` - enough for embedded fields, which
// are T or *T) leaves a field of type **T unrenamed: its clover-named entries are
// silently dropped by encoding/json.
func ruleCOD8(c *Ctx) []Ob {
	o := newObs(c, "COD8")
	conv := c.lookupFunc("internal", "Convert")
	if conv == nil {
		o.add(UNDECIDED, "model", "-", "internal.Convert not found")
		return softenUndecided(o.list)
	}
	isTypeElem := func(ci ssa.CallInstruction) bool {
		cc := ci.Common()
		if cc.IsInvoke() {
			return cc.Method != nil && cc.Method.Name() == "Elem" && namedIs(cc.Value.Type(), "reflect", "Type")
		}
		return false
	}
	// stripsAll: g contains a loop in which a reflect.Type's Elem() is adopted (flows into a phi)
	stripsAll := func(g *ssa.Function) bool {
		found := false
		allCalls(g, func(ci ssa.CallInstruction) {
			if !isTypeElem(ci) || !c.inLoop(ci.Block()) {
				return
			}
			if v, ok := ci.(ssa.Value); ok {
				for _, r := range realReferrers(v) {
					if _, isPhi := r.(*ssa.Phi); isPhi {
						found = true
					}
				}
			}
		})
		// or: g hands the Elem() of a type to itself (the loop written as a recursion)
		allCalls(g, func(ci ssa.CallInstruction) {
			if h := staticCallee(ci); h == nil || c.declared(h) != g {
				return
			}
			for _, a := range ci.Common().Args {
				for _, og := range origins(a) {
					el, ok := og.(*ssa.Call)
					if !ok || !isTypeElem(el) {
						continue
					}
					// of its own type parameter, in a helper that answers a type
					if p, isP := el.Call.Value.(*ssa.Parameter); isP && p.Parent() == g && g.Signature.Results().Len() == 1 && namedIs(g.Signature.Results().At(0).Type(), "reflect", "Type") {
						found = true
					}
				}
			}
		})
		return found
	}
	kStruct, okK := c.reflectKind("Struct")
	kPtr, okP := c.reflectKind("Ptr")
	if !okK || !okP {
		o.add(UNDECIDED, "model", "-", "reflect.Struct / reflect.Ptr not found")
		return softenUndecided(o.list)
	}
	n := 0
	var fns []*ssa.Function
	for f := range c.staticReach(conv) {
		if c.pkgRel(f) == "internal" && f.Parent() == nil {
			fns = append(fns, f)
		}
	}
	sort.Slice(fns, func(i, j int) bool { return c.fname(fns[i]) < c.fname(fns[j]) })
	for _, fn := range fns {
		// the types whose kind is compared with Struct in fn
		var tested []ssa.Value
		hasPtrCase := false
		hasContainerCase := false // the per-type walk: it tells structs, slices and maps apart
		for _, b := range fn.Blocks {
			for _, in := range b.Instrs {
				bo, ok := in.(*ssa.BinOp)
				if !ok || (bo.Op != token.EQL && bo.Op != token.NEQ) {
					continue
				}
				for _, pair := range [][2]ssa.Value{{bo.X, bo.Y}, {bo.Y, bo.X}} {
					cl, isCall := pair[0].(*ssa.Call)
					if !isCall || !cl.Call.IsInvoke() || cl.Call.Method == nil || cl.Call.Method.Name() != "Kind" || !namedIs(cl.Call.Value.Type(), "reflect", "Type") {
						continue
					}
					k, isK := constInt(pair[1])
					if !isK {
						continue
					}
					if k == kStruct {
						tested = append(tested, cl.Call.Value)
					}
					if k == kPtr {
						hasPtrCase = true
					}
					if ks, ok := c.reflectKind("Slice"); ok && k == ks {
						hasContainerCase = true
					}
					if km, ok := c.reflectKind("Map"); ok && k == km {
						hasContainerCase = true
					}
				}
			}
		}
		// only walkers that go on into containers (they have a map of field values to rename)
		takesFields := false
		for _, p := range fn.Params {
			if _, isI := p.Type().Underlying().(*types.Interface); isI {
				takesFields = true
			}
		}
		if len(tested) == 0 || !takesFields || !hasContainerCase {
			continue
		}
		n++
		key := c.fname(fn) + "/every level of pointers is stripped before the kind is asked"
		okAll := true
		for _, tv := range tested {
			good := false
			for _, og := range origins(tv) {
				switch x := og.(type) {
				case *ssa.Call:
					if g := staticCallee(x); g != nil && c.IsLib(c.declared(g)) && stripsAll(c.declared(g)) {
						good = true
					}
				case *ssa.Phi:
					good = true
				}
			}
			if stripsAll(fn) || (hasPtrCase && fn != nil) {
				// the walker strips in a loop of its own, or has a case for pointers
				good = good || stripsAll(fn)
				if hasPtrCase {
					recurses := false
					allCalls(fn, func(ci ssa.CallInstruction) {
						if g := staticCallee(ci); g != nil && c.declared(g) == fn {
							recurses = true
						}
					})
					good = good || recurses
				}
			}
			if !good {
				okAll = false
			}
		}
		if okAll {
			o.add(OK, key, relPath(c, fn.Pos()), "the type comes out of a helper that strips pointers in a loop")
		} else {
			o.add(VIOLATED, key, relPath(c, fn.Pos()), "the walk asks for the kind of a type from which at most one level of pointers has been stripped: a field declared **T (the writer follows pointer chains of any depth) keeps a pointer kind, is not looked into, and its clover-named entries reach encoding/json unrenamed - Work **Address with Zip tagged clover:\"zip_code\" json:\"zip\" comes back with Zip = 0")
		}
	}
	if n == 0 {
		o.add(INFO, "rename walk", "-", "no function reached from Convert compares a reflect.Type's kind with reflect.Struct")
	}
	return o.list
}

// ---------------------------------------------------------------- sign prover (CNT1, second obligation)

// sameValueExpr: a and b denote the same value - the same access path, or two calls of the same
// library getter (a function without stores or calls that returns a field of its receiver) on
// the same receiver.
func (c *Ctx) sameValueExpr(a, b ssa.Value, depth int) bool {
	if samePath(a, b, 0) {
		return true
	}
	if depth > 3 {
		return false
	}
	ca, ok1 := a.(*ssa.Call)
	cb, ok2 := b.(*ssa.Call)
	if !ok1 || !ok2 {
		return false
	}
	ga, gb := staticCallee(ca), staticCallee(cb)
	if ga == nil || gb == nil || c.declared(ga) != c.declared(gb) || !c.isPureGetter(c.declared(ga)) {
		return false
	}
	if len(ca.Call.Args) != len(cb.Call.Args) {
		return false
	}
	for i := range ca.Call.Args {
		if !c.sameValueExpr(ca.Call.Args[i], cb.Call.Args[i], depth+1) {
			return false
		}
	}
	return true
}

// isPureGetter: a library function whose body stores nothing and calls nothing.
func (c *Ctx) isPureGetter(g *ssa.Function) bool {
	if g == nil || !c.IsLib(g) || len(g.Blocks) == 0 {
		return false
	}
	for _, b := range g.Blocks {
		for _, in := range b.Instrs {
			switch in.(type) {
			case *ssa.Store, *ssa.MapUpdate, *ssa.Call, *ssa.Go, *ssa.Defer, *ssa.Send:
				return false
			}
		}
	}
	return true
}

type signCond struct {
	cond   ssa.Value
	branch bool
}

// condGivesNonNeg: the condition, taken on the given branch, tells that v >= 0.
func (c *Ctx) condGivesNonNeg(cond ssa.Value, branch bool, v ssa.Value) bool {
	bo, ok := cond.(*ssa.BinOp)
	if !ok {
		return false
	}
	op := bo.Op
	var k int64
	var okk bool
	switch {
	case c.sameValueExpr(bo.X, v, 0):
		k, okk = constInt(bo.Y)
	case c.sameValueExpr(bo.Y, v, 0):
		k, okk = constInt(bo.X)
		// k op v  ==  v op' k
		switch op {
		case token.LSS:
			op = token.GTR
		case token.LEQ:
			op = token.GEQ
		case token.GTR:
			op = token.LSS
		case token.GEQ:
			op = token.LEQ
		}
	default:
		return false
	}
	if !okk {
		return false
	}
	if !branch {
		switch op {
		case token.LSS:
			op = token.GEQ
		case token.LEQ:
			op = token.GTR
		case token.GTR:
			op = token.LEQ
		case token.GEQ:
			op = token.LSS
		case token.EQL:
			op = token.NEQ
		case token.NEQ:
			op = token.EQL
		default:
			return false
		}
	}
	switch op {
	case token.GEQ, token.EQL:
		return k >= 0
	case token.GTR:
		return k >= -1
	}
	return false
}

// nonNegAt: the integer v is known to be at least zero when control is in block at (extra: the
// conditions of the edge just taken).
func (c *Ctx) nonNegAt(fn *ssa.Function, v ssa.Value, at *ssa.BasicBlock, extra []signCond, depth int) bool {
	if depth > 12 || v == nil {
		return false
	}
	switch x := v.(type) {
	case *ssa.Const:
		k, ok := constInt(x)
		return ok && k >= 0
	case *ssa.Call:
		if b, ok := x.Call.Value.(*ssa.Builtin); ok && (b.Name() == "len" || b.Name() == "cap") {
			return true
		}
		// a library helper all of whose results are non-negative
		if g := staticCallee(x); g != nil && c.IsLib(c.declared(g)) && len(c.declared(g).Blocks) > 0 && depth < 7 {
			g = c.declared(g)
			all, any := true, false
			for _, ret := range returnsOf(g) {
				rv, ok := returnedValue(ret, 0)
				if !ok {
					all = false
					continue
				}
				any = true
				if !c.nonNegAt(g, rv, ret.Block(), nil, depth+3) {
					all = false
				}
			}
			if all && any {
				return true
			}
		}
	case *ssa.Convert:
		// a signed integer found non-negative stays so when widened (an unsigned one may wrap: not taken)
		if c.nonNegAt(fn, x.X, at, extra, depth+1) {
			if st, ok := x.X.Type().Underlying().(*types.Basic); ok && st.Info()&types.IsInteger != 0 && st.Info()&types.IsUnsigned == 0 {
				return true
			}
		}
	}
	for _, e := range extra {
		if c.condGivesNonNeg(e.cond, e.branch, v) {
			return true
		}
	}
	for _, dc := range dominatingConds(fn, at) {
		if c.condGivesNonNeg(dc.cond, dc.branch, v) {
			return true
		}
	}
	if phi, ok := v.(*ssa.Phi); ok {
		for i, e := range phi.Edges {
			p := phi.Block().Preds[i]
			var ex []signCond
			if len(p.Instrs) > 0 {
				if iff, ok := p.Instrs[len(p.Instrs)-1].(*ssa.If); ok && p.Succs[0] != p.Succs[1] {
					ex = append(ex, signCond{iff.Cond, p.Succs[0] == phi.Block()})
				}
			}
			if !c.nonNegAt(fn, e, p, ex, depth+1) {
				return false
			}
		}
		return len(phi.Edges) > 0
	}
	return false
}

// ---------------------------------------------------------------- GUARD3, third obligation

// fieldSearchLoops: the conditionals of fn, inside a loop, that compare the Field of an index
// description with a value accepted by isField.
func (c *Ctx) fieldSearchTests(fn *ssa.Function, isField func(ssa.Value) bool) []*ssa.If {
	var out []*ssa.If
	for _, b := range fn.Blocks {
		if len(b.Instrs) == 0 || !c.inLoop(b) {
			continue
		}
		iff, ok := b.Instrs[len(b.Instrs)-1].(*ssa.If)
		if !ok {
			continue
		}
		bo, ok := iff.Cond.(*ssa.BinOp)
		if !ok || (bo.Op != token.EQL && bo.Op != token.NEQ) {
			continue
		}
		for _, pair := range [][2]ssa.Value{{bo.X, bo.Y}, {bo.Y, bo.X}} {
			_, f, nm := fieldLoad(pair[0])
			if f == "Field" && nm != nil && c.libNamedIs(nm, "index", "Info") && isField(pair[1]) {
				out = append(out, iff)
			}
		}
	}
	return out
}

// searchedBefore: every path to block at went through a search of the list of index descriptions
// for src - a loop of fn that compares each description's Field with src and leaves on a match (or
// records the outcome in a value tested afterwards), or a test of what a library helper holding
// such a loop answered for src.
func (c *Ctx) searchedBefore(fn *ssa.Function, at *ssa.BasicBlock, src ssa.Value) (string, bool) {
	same := func(v ssa.Value) bool { return v == src || sameOrigin(v, src) }
	var dependsOn func(v ssa.Value, isSrc func(ssa.Value) bool, depth int) bool
	dependsOn = func(v ssa.Value, isSrc func(ssa.Value) bool, depth int) bool {
		if v == nil || depth > 5 {
			return false
		}
		if isSrc(v) {
			return true
		}
		switch x := v.(type) {
		case *ssa.BinOp:
			return dependsOn(x.X, isSrc, depth+1) || dependsOn(x.Y, isSrc, depth+1)
		case *ssa.UnOp:
			return dependsOn(x.X, isSrc, depth+1)
		case *ssa.Phi:
			for _, e := range x.Edges {
				if dependsOn(e, isSrc, depth+1) {
					return true
				}
			}
		case *ssa.Extract:
			return dependsOn(x.Tuple, isSrc, depth+1)
		}
		return false
	}
	// an If outside every search loop, dominating at, whose condition depends on a value accepted by isOutcome
	testedOutside := func(isOutcome func(ssa.Value) bool, body map[*ssa.BasicBlock]bool) bool {
		for _, d := range fn.Blocks {
			if body[d] || len(d.Instrs) == 0 || !(d == at || d.Dominates(at)) {
				continue
			}
			if iff, ok := d.Instrs[len(d.Instrs)-1].(*ssa.If); ok && d != at && dependsOn(iff.Cond, isOutcome, 0) {
				return true
			}
		}
		return false
	}
	tests := c.fieldSearchTests(fn, same)
	why := "no search of the list for the field in " + c.fname(fn)
	for _, iff := range tests {
		header, body := c.innermostLoop(iff.Block())
		if header == nil || body[at] || !header.Dominates(at) {
			why = "the search loop does not lie on every path to the recording"
			continue
		}
		bo := iff.Cond.(*ssa.BinOp)
		match := iff.Block().Succs[0]
		if bo.Op == token.NEQ {
			match = iff.Block().Succs[1]
		}
		if !body[match] && !(match == at || reachableFrom(match, true)[at]) {
			return "behind the loop that looks for the field in the catalog's list and leaves on a match", true
		}
		// the outcome is recorded (a flag, a position) and tested after the loop
		isOutcome := func(v ssa.Value) bool {
			phi, ok := v.(*ssa.Phi)
			if !ok {
				return false
			}
			for i := range phi.Edges {
				p := phi.Block().Preds[i]
				if p == match || match.Dominates(p) || p == iff.Block() {
					return true
				}
			}
			return false
		}
		if testedOutside(isOutcome, body) {
			return "behind a test of what the search loop over the catalog's list found", true
		}
		why = "a match in the search loop does not keep the recording from being reached"
	}
	// a helper that holds the search
	found := false
	allCalls(fn, func(ci ssa.CallInstruction) {
		g := staticCallee(ci)
		if g == nil || found {
			return
		}
		g = c.declared(g)
		if !c.IsLib(g) || g == fn {
			return
		}
		cv, isVal := ci.(ssa.Value)
		if !isVal {
			return
		}
		for i, a := range ci.Common().Args {
			if !same(a) || i >= len(g.Params) {
				continue
			}
			gp := g.Params[i]
			if len(c.fieldSearchTests(g, func(v ssa.Value) bool { return v == ssa.Value(gp) || sameOrigin(v, gp) })) == 0 {
				continue
			}
			isOutcome := func(v ssa.Value) bool { return v == cv }
			if testedOutside(isOutcome, map[*ssa.BasicBlock]bool{}) {
				found = true
			}
		}
	})
	if found {
		return "behind a test of what a helper that searches the catalog's list answered for the field", true
	}
	return why, false
}

// ---------------------------------------------------------------- comparison facts (CMP16)

// cmpFact: the comparison X Op Y has the outcome branch.
type cmpFact struct {
	X, Y   ssa.Value
	Op     token.Token
	branch bool
}

// comparisonFacts: the comparisons known to hold (or not) when control is in block b of fn: the
// conditions on every path to b, and - where such a condition is the answer of a library
// predicate (`if !floatInInt64Range(v) { return ... }`) - the comparisons that hold whenever the
// predicate answers true, with its parameters replaced by the arguments.
func (c *Ctx) comparisonFacts(fn *ssa.Function, b *ssa.BasicBlock) []cmpFact {
	var out []cmpFact
	for _, dc := range dominatingConds(fn, b) {
		cond, branch := dc.cond, dc.branch
		for {
			u, ok := cond.(*ssa.UnOp)
			if !ok || u.Op != token.NOT {
				break
			}
			cond, branch = u.X, !branch
		}
		switch x := cond.(type) {
		case *ssa.BinOp:
			out = append(out, cmpFact{x.X, x.Y, x.Op, branch})
		case *ssa.Call:
			if !branch {
				continue
			}
			g := staticCallee(x)
			if g == nil || !c.IsLib(c.declared(g)) {
				continue
			}
			g = c.declared(g)
			for _, f := range c.trueImplies(g) {
				subst := func(v ssa.Value) ssa.Value {
					if p, ok := v.(*ssa.Parameter); ok {
						if pi := paramIndex(g, p); pi >= 0 && pi < len(x.Call.Args) {
							return x.Call.Args[pi]
						}
					}
					return v
				}
				out = append(out, cmpFact{subst(f.X), subst(f.Y), f.Op, f.branch})
			}
		}
	}
	return out
}

// trueImplies: comparisons (over g's parameters and constants) that hold whenever the boolean
// library function g answers true.
func (c *Ctx) trueImplies(g *ssa.Function) []cmpFact {
	if g.Signature.Results().Len() != 1 || len(g.Blocks) == 0 {
		return nil
	}
	if bt, ok := g.Signature.Results().At(0).Type().Underlying().(*types.Basic); !ok || bt.Kind() != types.Bool {
		return nil
	}
	factsAt := func(b *ssa.BasicBlock) []cmpFact {
		var fs []cmpFact
		for _, dc := range dominatingConds(g, b) {
			if bo, ok := dc.cond.(*ssa.BinOp); ok {
				fs = append(fs, cmpFact{bo.X, bo.Y, bo.Op, dc.branch})
			}
		}
		return fs
	}
	var alts [][]cmpFact
	var addAlt func(v ssa.Value, at *ssa.BasicBlock, extra []cmpFact, depth int)
	addAlt = func(v ssa.Value, at *ssa.BasicBlock, extra []cmpFact, depth int) {
		if depth > 4 {
			alts = append(alts, nil)
			return
		}
		switch x := v.(type) {
		case *ssa.Const:
			if x.Value != nil && x.Value.Kind() == constant.Bool && !constant.BoolVal(x.Value) {
				return // never true this way
			}
			alts = append(alts, append(factsAt(at), extra...))
		case *ssa.BinOp:
			alts = append(alts, append(append(factsAt(at), extra...), cmpFact{x.X, x.Y, x.Op, true}))
		case *ssa.Phi:
			for i, e := range x.Edges {
				p := x.Block().Preds[i]
				var ex []cmpFact
				if len(p.Instrs) > 0 {
					if iff, ok := p.Instrs[len(p.Instrs)-1].(*ssa.If); ok && p.Succs[0] != p.Succs[1] {
						if bo, ok := iff.Cond.(*ssa.BinOp); ok {
							ex = append(ex, cmpFact{bo.X, bo.Y, bo.Op, p.Succs[0] == x.Block()})
						}
					}
				}
				addAlt(e, p, append(ex, extra...), depth+1)
			}
		default:
			alts = append(alts, nil)
		}
	}
	for _, ret := range returnsOf(g) {
		rv, ok := returnedValue(ret, 0)
		if !ok {
			return nil
		}
		addAlt(rv, ret.Block(), nil, 0)
	}
	if len(alts) == 0 {
		return nil
	}
	// the facts common to every way of answering true
	var out []cmpFact
	for _, f := range alts[0] {
		inAll := true
		for _, a := range alts[1:] {
			found := false
			for _, h := range a {
				if h == f {
					found = true
				}
			}
			if !found {
				inAll = false
			}
		}
		if inAll {
			out = append(out, f)
		}
	}
	return out
}
