package main

import (
	"fmt"
	"go/constant"
	"go/token"
	"go/types"
	"sort"
	"strings"

	"golang.org/x/tools/go/ssa"
)

// ---------------------------------------------------------------- helpers

func (c *Ctx) isCriteriaType(t types.Type) bool { return c.libNamedIs(t, "query", "Criteria") }

// inputNodeTypes: struct types of the root package with a Run(store.Tx) method.
func (c *Ctx) inputNodeTypes() []*types.Named {
	var out []*types.Named
	sp := c.LibPkgs[c.ModPath]
	if sp == nil {
		return nil
	}
	var names []string
	for n := range sp.Members {
		names = append(names, n)
	}
	sort.Strings(names)
	for _, n := range names {
		tn, ok := sp.Members[n].(*ssa.Type)
		if !ok {
			continue
		}
		named, ok := tn.Type().(*types.Named)
		if !ok {
			continue
		}
		if _, isStruct := named.Underlying().(*types.Struct); !isStruct {
			continue
		}
		ms := c.Prog.MethodSets.MethodSet(types.NewPointer(named))
		sel := ms.Lookup(sp.Pkg, "Run")
		if sel == nil {
			continue
		}
		sig := sel.Type().(*types.Signature)
		// ... and is a node of the plan: it can be given a next node (a scan strategy object with a Run method
		// of its own is not one)
		if ms.Lookup(sp.Pkg, "SetNext") == nil && ms.Lookup(sp.Pkg, "CallNext") == nil && ms.Lookup(sp.Pkg, "Callback") == nil {
			hasNextish := false
			for i := 0; i < ms.Len(); i++ {
				if strings.Contains(strings.ToLower(ms.At(i).Obj().Name()), "next") {
					hasNextish = true
				}
			}
			if !hasNextish {
				continue
			}
		}
		if sig.Params().Len() == 1 && c.libNamedIs(sig.Params().At(0).Type(), "store", "Tx") {
			out = append(out, named)
		}
	}
	return out
}

func recvNamed(fn *ssa.Function) *types.Named {
	fn = rootFunc(fn)
	r := fn.Signature.Recv()
	if r == nil {
		return nil
	}
	t := r.Type()
	if p, ok := t.(*types.Pointer); ok {
		t = p.Elem()
	}
	n, _ := t.(*types.Named)
	return n
}

// isCallbackForwarder: static callee whose body invokes planNode.Callback.
func (c *Ctx) isCallbackForwarder(call ssa.CallInstruction) bool {
	f := staticCallee(call)
	if f == nil {
		return false
	}
	f = c.declared(f)
	if !c.IsLib(f) || c.pkgRel(f) != "" {
		return false
	}
	fwd := false
	allCalls(f, func(in ssa.CallInstruction) {
		ic := in.Common()
		if ic.IsInvoke() && ic.Method.Name() == "Callback" && ic.Method.Pkg() != nil && ic.Method.Pkg().Path() == c.ModPath {
			fwd = true
		}
	})
	return fwd && len(f.Blocks) <= 4
}

// ---------------------------------------------------------------- PLAN1

func rulePLAN1(c *Ctx) []Ob {
	o := newObs(c, "PLAN1")
	nodes := c.inputNodeTypes()
	isInput := func(n *types.Named) bool {
		for _, x := range nodes {
			if x == n {
				return true
			}
		}
		return false
	}
	// the family of the input nodes: the nodes and the structs embedded by input nodes only
	family := map[*types.Named]bool{}
	for _, n := range nodes {
		family[n] = true
	}
	embeddedIn := func(outer *types.Named) []*types.Named {
		var out []*types.Named
		st, ok := outer.Underlying().(*types.Struct)
		if !ok {
			return nil
		}
		for i := 0; i < st.NumFields(); i++ {
			if f := st.Field(i); f.Embedded() {
				t := f.Type()
				if p, ok := t.(*types.Pointer); ok {
					t = p.Elem()
				}
				if nn, ok := t.(*types.Named); ok {
					if _, isS := nn.Underlying().(*types.Struct); isS {
						out = append(out, nn)
					}
				}
			}
		}
		return out
	}
	if sp := c.LibPkgs[c.ModPath]; sp != nil {
		shared := map[*types.Named]bool{}
		for _, m := range sp.Members {
			tn, ok := m.(*ssa.Type)
			if !ok {
				continue
			}
			named, ok := tn.Type().(*types.Named)
			if !ok || isInput(named) {
				continue
			}
			for _, e := range embeddedIn(named) {
				shared[e] = true // embedded by something that is not an input node
			}
		}
		for changed := true; changed; {
			changed = false
			for n := range family {
				for _, e := range embeddedIn(n) {
					if !shared[e] && !family[e] {
						family[e] = true
						changed = true
					}
				}
			}
		}
		// a struct embedded by an outsider is not part of the family even when reached through a family member
		for n := range family {
			if shared[n] && !isInput(n) {
				delete(family, n)
			}
		}
	}
	isNode := func(n *types.Named) bool { return family[n] }
	if len(nodes) == 0 {
		o.add(UNDECIDED, "roles", "-", "no plan input node type (struct with Run(store.Tx)) found")
		return o.list
	}
	for _, fn := range c.LibFuncs {
		if n := recvNamed(fn); n == nil || !isNode(n) {
			continue
		}
		allCalls(fn, func(call ssa.CallInstruction) {
			if !c.isCallbackForwarder(call) {
				return
			}
			args := call.Common().Args
			doc := args[len(args)-1]
			key := c.fname(fn) + "/emit"
			pos := relPath(c, call.Pos())
			isFilterLoad := func(v ssa.Value) bool {
				for _, og := range origins(v) {
					_, f, n := fieldLoad(og)
					if f != "" && n != nil && isNode(n) && c.isCriteriaType(og.Type()) {
						return true
					}
				}
				return false
			}
			edges := guardEdges(fn, func(cond ssa.Value, branch bool) bool {
				if x, tnil, ok := nilTest(cond); ok && isFilterLoad(x) {
					return branch == tnil // filter == nil
				}
				if sc, ok := cond.(*ssa.Call); ok && sc.Common().IsInvoke() && sc.Common().Method.Name() == "Satisfy" &&
					c.methodBelongsTo(sc.Common().Method, "query", "Criteria") {
					if isFilterLoad(sc.Common().Value) && (sc.Common().Args[0] == doc || sameOrigin(sc.Common().Args[0], doc)) {
						return branch
					}
				}
				return false
			})
			if guardedBy(fn, call.Block(), edges) {
				o.add(OK, key, pos, "the candidate is passed on only when the node's filter is nil or filter.Satisfy(doc) holds for the same document")
			} else {
				o.add(VIOLATED, key, pos, "a candidate document is passed to the next plan node on a path that does not re-apply the query's full criteria to it: index ranges cover one field of a rewritten criteria tree, every other condition would be ignored")
			}
		})
	}
	if len(o.list) == 0 {
		o.add(UNDECIDED, "emit", "-", "no call passing a candidate document to the next plan node found in the input nodes (%d family types)", len(family))
	}
	// constructions
	for _, fn := range c.LibFuncs {
		for _, b := range fn.Blocks {
			for _, in := range b.Instrs {
				al, ok := in.(*ssa.Alloc)
				if !ok {
					continue
				}
				n, ok := al.Type().Underlying().(*types.Pointer).Elem().(*types.Named)
				if !ok || !isInput(n) {
					continue
				}
				key := c.fname(fn) + "/new " + n.Obj().Name()
				pos := relPath(c, al.Pos())
				// the criteria stored in the node's filter field, directly or in an embedded
				// family struct, inline or built by a constructor
				var filterOf func(addr ssa.Value, depth int) ssa.Value
				filterOf = func(addr ssa.Value, depth int) ssa.Value {
					if depth > 4 {
						return nil
					}
					for _, r := range realReferrers(addr) {
						fa, ok := r.(*ssa.FieldAddr)
						if !ok || fa.X != addr {
							continue
						}
						et := fa.Type().Underlying().(*types.Pointer).Elem()
						if c.isCriteriaType(et) {
							for _, rr := range realReferrers(fa) {
								if st, ok := rr.(*ssa.Store); ok && st.Addr == ssa.Value(fa) {
									return st.Val
								}
							}
							continue
						}
						en, ok := et.(*types.Named)
						if !ok || !family[en] {
							continue
						}
						if v := filterOf(fa, depth+1); v != nil {
							return v
						}
						for _, rr := range realReferrers(fa) {
							st, ok := rr.(*ssa.Store)
							if !ok || st.Addr != ssa.Value(fa) {
								continue
							}
							for _, og := range c.deepOrigins(st.Val) {
								if l, ok := og.(*ssa.UnOp); ok && l.Op == token.MUL {
									if v := filterOf(l.X, depth+1); v != nil {
										return v
									}
								}
							}
						}
					}
					return nil
				}
				stored := filterOf(al, 0)
				if stored == nil {
					o.add(VIOLATED, key, pos, "plan input node built without a filter: its candidates would be emitted unfiltered")
					continue
				}
				good := true
				// (a constructor's parameter is followed to what its call sites pass)
				for _, og := range c.paramSources(stored, 0) {
					call, ok := og.(*ssa.Call)
					if !ok {
						good = false
						continue
					}
					g := staticCallee(call)
					if g == nil || c.declared(g) != c.lookupMethod("query", "Query", "Criteria") {
						good = false
						continue
					}
					if _, isParam := call.Common().Args[0].(*ssa.Parameter); !isParam {
						good = false
					}
				}
				if good {
					o.add(OK, key, pos, "filter initialised from Criteria() of the query being planned")
				} else {
					o.add(VIOLATED, key, pos, "the node's filter is not the Criteria() of the query being planned (a rewritten or partial criteria would let non-matching documents through or drop matching ones)")
				}
			}
		}
	}
	return o.list
}

// ---------------------------------------------------------------- PLAN2 / PLAN3

func (c *Ctx) isRangeMap(t types.Type) bool {
	m, ok := t.Underlying().(*types.Map)
	if !ok {
		return false
	}
	p, ok := m.Elem().(*types.Pointer)
	return ok && c.libNamedIs(p.Elem(), "index", "Range")
}

// visitorKinds classifies the library's CriteriaVisitor implementations by the
// static type of what their Visit methods return.
func (c *Ctx) rangeVisitors() []*types.Named {
	var out []*types.Named
	vi := c.visitorIface()
	if vi == nil {
		return nil
	}
	for _, sp := range c.LibPkgs {
		for _, mem := range sp.Members {
			tn, ok := mem.(*ssa.Type)
			if !ok {
				continue
			}
			n, ok := tn.Type().(*types.Named)
			if !ok || !types.Implements(types.NewPointer(n), vi) {
				continue
			}
			isRange := false
			for _, m := range c.visitorMethods(n) {
				for _, ret := range returnsOf(m) {
					if rv, ok := returnedValue(ret, 0); ok {
						for _, og := range origins(rv) {
							if c.isRangeMap(og.Type()) {
								isRange = true
							}
						}
					}
				}
			}
			if isRange {
				out = append(out, n)
			}
		}
	}
	sort.Slice(out, func(i, j int) bool { return out[i].Obj().Name() < out[j].Obj().Name() })
	return out
}

func isEmptyFreshMap(v ssa.Value) bool {
	mm, ok := v.(*ssa.MakeMap)
	if !ok {
		// a tiny constructor: a static call all of whose results are fresh empty maps
		if call, isCall := v.(*ssa.Call); isCall {
			// an identity method on a fresh empty map (fieldRanges{}.result()): every result is one of the
			// callee's own parameters, and the matching argument is a fresh empty map
			if g := call.Common().StaticCallee(); g != nil && len(g.Blocks) > 0 && len(g.Blocks) <= 3 && g.Signature.Results().Len() == 1 {
				ident := true
				okArg := false
				for _, ret := range returnsOf(g) {
					rv, ok := returnedValue(ret, 0)
					if !ok {
						ident = false
						continue
					}
					for _, og := range origins(rv) {
						p, isP := og.(*ssa.Parameter)
						if !isP {
							ident = false
							continue
						}
						for i, q := range g.Params {
							if q == p && i < len(call.Common().Args) {
								for _, ao := range origins(call.Common().Args[i]) {
									if isEmptyFreshMap(ao) {
										okArg = true
									} else {
										ident = false
									}
								}
							}
						}
					}
				}
				if ident && okArg {
					return true
				}
			}
			if g := call.Common().StaticCallee(); g != nil && len(g.Blocks) > 0 && len(g.Blocks) <= 3 && g.Signature.Results().Len() == 1 {
				n := 0
				for _, ret := range returnsOf(g) {
					rv, ok := returnedValue(ret, 0)
					if !ok {
						return false
					}
					for _, og := range origins(rv) {
						if _, isMM := og.(*ssa.MakeMap); !isMM || !isEmptyFreshMap(og) {
							return false
						}
						n++
					}
				}
				return n > 0
			}
		}
		return false
	}
	for _, r := range realReferrers(mm) {
		if _, ok := r.(*ssa.MapUpdate); ok {
			return false
		}
	}
	return true
}

func methodByParam(c *Ctx, ms []*ssa.Function, typ string) *ssa.Function {
	for _, m := range ms {
		for _, p := range m.Params {
			if pt, ok := p.Type().(*types.Pointer); ok && c.libNamedIs(pt.Elem(), "query", typ) {
				return m
			}
		}
	}
	return nil
}

func rulePLAN2(c *Ctx) []Ob {
	o := newObs(c, "PLAN2")
	andK, ok := c.opConst("LogicalAnd")
	if !ok {
		o.add(UNDECIDED, "model", "-", "query.LogicalAnd not found")
		return o.list
	}
	intersect := c.lookupMethod("index", "Range", "Intersect")
	for _, fn := range c.LibFuncs {
		allCalls(fn, func(call ssa.CallInstruction) {
			g := staticCallee(call)
			if g == nil || intersect == nil || c.declared(g) != intersect {
				return
			}
			if c.pkgRel(fn) == "index" {
				return
			}
			key := c.fname(fn) + "/Intersect"
			pos := relPath(c, call.Pos())
			cases := c.opCases(fn, "BinaryCriteria", "OpType")
			// a helper that merges two sets of ranges and is itself called only for conjunctions
			viaCallers := false
			var onlyForAnd func(g *ssa.Function, depth int) bool
			onlyForAnd = func(g *ssa.Function, depth int) bool {
				if g == nil || g.Parent() != nil || depth > 3 {
					return false
				}
				sites := c.staticCallers(g)
				if len(sites) == 0 {
					return false
				}
				for _, cs := range sites {
					caller := cs.Parent()
					if caller == nil {
						return false
					}
					if guardedBy(caller, cs.Block(), c.opCases(caller, "BinaryCriteria", "OpType")[andK]) {
						continue
					}
					if !onlyForAnd(caller, depth+1) {
						return false
					}
				}
				return true
			}
			if !guardedBy(fn, call.Block(), cases[andK]) {
				viaCallers = onlyForAnd(fn, 0)
			}
			if viaCallers {
				o.add(OK, key, pos, "the helper is called only on the path where the visited node is a conjunction")
			} else if guardedBy(fn, call.Block(), cases[andK]) {
				o.add(OK, key, pos, "ranges are intersected only on the path where the visited node is a conjunction")
			} else {
				o.add(VIOLATED, key, pos, "the value ranges of the two sides are intersected without the node being known to be an And: under Or the intersection excludes documents that satisfy only one side")
			}
		})
	}
	// under a non-conjunction the range visitor yields no range at all
	for _, rv := range c.rangeVisitors() {
		m := methodByParam(c, c.visitorMethods(rv), "BinaryCriteria")
		if m == nil {
			o.add(UNDECIDED, rv.Obj().Name()+"/VisitBinaryCriteria", "-", "method not found")
			continue
		}
		cases := c.opCases(m, "BinaryCriteria", "OpType")
		for _, ret := range returnsOf(m) {
			val, ok := returnedValue(ret, 0)
			if !ok {
				continue
			}
			pos := relPath(c, ret.Pos())
			if guardedBy(m, ret.Block(), cases[andK]) {
				o.add(OK, rv.Obj().Name()+".VisitBinaryCriteria/return under And", pos, "reached only for conjunctions")
				continue
			}
			empty := true
			for _, og := range origins(val) {
				if !isEmptyFreshMap(og) {
					empty = false
				}
			}
			key := rv.Obj().Name() + ".VisitBinaryCriteria/return under Or"
			if empty {
				o.add(OK, key, pos, "a node that is not a conjunction yields no range (full scan + filter)")
			} else {
				o.add(VIOLATED, key, pos, "a return reachable for a disjunction hands out field ranges: a range valid for one side of an Or is applied to the whole Or")
			}
		}
	}
	return o.list
}

func rulePLAN3(c *Ctx) []Ob {
	o := newObs(c, "PLAN3")
	rvs := c.rangeVisitors()
	isRV := func(n *types.Named) bool {
		for _, x := range rvs {
			if x == n {
				return true
			}
		}
		return false
	}
	// (b) the range visitor derives nothing under Not
	for _, rv := range rvs {
		m := methodByParam(c, c.visitorMethods(rv), "NotCriteria")
		if m == nil {
			o.add(UNDECIDED, rv.Obj().Name()+"/VisitNotCriteria", "-", "method not found")
			continue
		}
		for _, ret := range returnsOf(m) {
			val, ok := returnedValue(ret, 0)
			if !ok {
				continue
			}
			empty := true
			for _, og := range origins(val) {
				if !isEmptyFreshMap(og) {
					empty = false
				}
			}
			key := rv.Obj().Name() + ".VisitNotCriteria/return"
			if empty {
				o.add(OK, key, relPath(c, ret.Pos()), "no range is derived under a negation")
			} else {
				o.add(VIOLATED, key, relPath(c, ret.Pos()), "the range derived for p is handed out for Not(p): the scan selects the complement of the right set")
			}
		}
	}
	// (a) flatten closure: find the visitor whose result feeds the range visitor
	flat := map[*types.Named]bool{}
	for _, fn := range c.LibFuncs {
		allCalls(fn, func(call ssa.CallInstruction) {
			cc := call.Common()
			if !cc.IsInvoke() || cc.Method.Name() != "Accept" || !c.methodBelongsTo(cc.Method, "query", "Criteria") {
				return
			}
			n := c.visitorTypeOf(cc.Args[0])
			if n == nil || !isRV(n) {
				return
			}
			// receiver: asserted result of another visitor's Accept
			for _, og := range c.deepOrigins(cc.Value) {
				ta, ok := og.(*ssa.TypeAssert)
				if !ok {
					continue
				}
				if _, v2 := c.visitCallOf(ta.X); v2 != nil {
					if f := c.visitorTypeOf(v2); f != nil && !isRV(f) {
						flat[f] = true
					}
				}
			}
		})
	}
	if len(flat) == 0 {
		o.add(UNDECIDED, "flatten-visitor", "-", "no visitor found whose result is the input of the range visitor (negation must be pushed down before ranges are derived)")
		return o.list
	}
	var fl []*types.Named
	for n := range flat {
		fl = append(fl, n)
	}
	sort.Slice(fl, func(i, j int) bool { return fl[i].Obj().Name() < fl[j].Obj().Name() })
	for _, F := range fl {
		// methods of F and helper methods with receiver F
		var fns []*ssa.Function
		for _, fn := range c.LibFuncs {
			if fn.Parent() == nil && recvNamed(fn) == F {
				fns = append(fns, fn)
			}
		}
		isOwn := func(call *ssa.Call) bool {
			if _, v2 := c.visitCallOf(call); v2 != nil {
				return c.visitorTypeOf(v2) == F
			}
			if g := staticCallee(call); g != nil && recvNamed(c.declared(g)) == F {
				return true
			}
			return false
		}
		var flatVal func(v ssa.Value, seen map[ssa.Value]bool) (bool, string)
		flatVal = func(v ssa.Value, seen map[ssa.Value]bool) (bool, string) {
			if seen[v] {
				return true, ""
			}
			seen[v] = true
			for _, og := range origins(v) {
				switch x := og.(type) {
				case *ssa.Parameter:
					// the visited node itself
				case *ssa.Call:
					if !isOwn(x) {
						return false, "result of " + c.calleeName(x)
					}
				case *ssa.TypeAssert:
					if ok, why := flatVal(x.X, seen); !ok {
						return false, why
					}
				case *ssa.Alloc:
					for _, r := range realReferrers(x) {
						fa, ok := r.(*ssa.FieldAddr)
						if !ok || !c.isCriteriaType(fa.Type().Underlying().(*types.Pointer).Elem()) {
							continue
						}
						for _, rr := range realReferrers(fa) {
							if st, ok := rr.(*ssa.Store); ok && st.Addr == ssa.Value(fa) {
								if ok, why := flatVal(st.Val, seen); !ok {
									return false, why
								}
							}
						}
					}
				case *ssa.UnOp:
					if _, f, n := fieldLoad(x); f != "" && n != nil && namedPkgPath(n) == c.ModPath+"/query" && c.isCriteriaType(x.Type()) {
						return false, "raw child " + n.Obj().Name() + "." + f
					}
					return false, "a value of unknown provenance"
				case *ssa.Const:
					if !isNilConst(x) {
						return false, "a constant"
					}
				default:
					return false, fmt.Sprintf("a %T", og)
				}
			}
			return true, ""
		}
		for _, fn := range fns {
			res := fn.Signature.Results()
			if res.Len() != 1 {
				continue
			}
			for _, ret := range returnsOf(fn) {
				val, ok := returnedValue(ret, 0)
				if !ok {
					continue
				}
				key := c.fname(fn) + "/return " + describeValue(c, val)
				pos := relPath(c, ret.Pos())
				if ok, why := flatVal(val, map[ssa.Value]bool{}); ok {
					o.add(OK, key, pos, "returns the node itself, a node built from visited parts, or a recursive visit")
				} else {
					o.add(VIOLATED, key, pos, "the negation push-down returns %s without visiting it: a negation below it survives and reaches range derivation", why)
				}
			}
		}
	}
	return o.list
}

// ---------------------------------------------------------------- PLAN4

func (c *Ctx) nodeKind(n *types.Named) string {
	kind := "node"
	for _, fn := range c.LibFuncs {
		if fn.Parent() != nil && recvNamed(fn) != n {
			continue
		}
		if recvNamed(fn) != n {
			continue
		}
		for _, b := range fn.Blocks {
			for _, in := range b.Instrs {
				if call, ok := in.(ssa.CallInstruction); ok {
					if strings.HasPrefix(calleeFullName(call), "sort.") {
						kind = "sort"
					}
				}
				for _, op := range in.Operands(nil) {
					if g, ok := (*op).(*ssa.Global); ok && strings.HasSuffix(globalFullName(g), "/internal.ErrStopIteration") && kind != "sort" {
						kind = "window"
					}
				}
			}
		}
	}
	if kind == "node" {
		// a node whose Callback compares its own integer fields (counters against bounds)
		if cb := c.lookupMethod("", n.Obj().Name(), "Callback"); cb != nil && c.IsLib(cb) {
			ncmp := 0
			for _, b := range cb.Blocks {
				for _, in := range b.Instrs {
					bo, ok := in.(*ssa.BinOp)
					if !ok || !isIntType(bo.X.Type()) {
						continue
					}
					switch bo.Op {
					case token.LSS, token.LEQ, token.GTR, token.GEQ:
						for _, og := range origins(bo.X) {
							if _, f, nn := fieldLoad(og); f != "" && nn != nil && types.Identical(nn, n) {
								ncmp++
							}
						}
					}
				}
			}
			if ncmp >= 2 {
				kind = "window"
			}
		}
	}
	if kind == "node" {
		if st, ok := n.Underlying().(*types.Struct); ok {
			for i := 0; i < st.NumFields(); i++ {
				if _, isFunc := st.Field(i).Type().Underlying().(*types.Signature); isFunc {
					kind = "consumer"
				}
			}
		}
	}
	return kind
}

func rulePLAN4(c *Ctx) []Ob {
	o := newObs(c, "PLAN4")
	concrete := func(v ssa.Value) []string {
		var out []string
		for _, og := range origins(v) {
			t := og.Type()
			if p, ok := t.(*types.Pointer); ok {
				if n, ok := p.Elem().(*types.Named); ok && n.Obj().Pkg() != nil && n.Obj().Pkg().Path() == c.ModPath {
					out = append(out, n.Obj().Name()+":"+c.nodeKind(n))
					continue
				}
			}
			out = append(out, "?:param")
		}
		return out
	}
	for _, fn := range c.LibFuncs {
		if c.pkgRel(fn) != "" {
			continue
		}
		n := 0
		allCalls(fn, func(call ssa.CallInstruction) {
			cc := call.Common()
			if !cc.IsInvoke() || cc.Method.Name() != "SetNext" || cc.Method.Pkg() == nil || cc.Method.Pkg().Path() != c.ModPath {
				return
			}
			n++
			recv := concrete(cc.Value)
			arg := concrete(cc.Args[0])
			key := fmt.Sprintf("%s/SetNext -> %s", c.fname(fn), strings.Join(arg, ","))
			pos := relPath(c, call.Pos())
			bad := ""
			for _, r := range recv {
				for _, a := range arg {
					rk, ak := r[strings.Index(r, ":")+1:], a[strings.Index(a, ":")+1:]
					switch {
					case rk == "window" && ak == "sort":
						bad = "a sort node is placed after the skip/limit node: the window is cut from the unsorted sequence"
					case rk == "consumer":
						bad = "a node is linked after the consumer node"
					case ak == "sort" && rk == "sort":
						bad = "two sort nodes are chained"
					}
				}
			}
			if bad != "" {
				o.add(VIOLATED, key, pos, "%s (receiver may be %s)", bad, strings.Join(recv, ","))
			} else {
				o.add(OK, key, pos, "receiver in {%s}: sort never follows the window, nothing follows the consumer", strings.Join(recv, ","))
			}
		})
	}
	return o.list
}

// ---------------------------------------------------------------- PLAN5

func (c *Ctx) directionStoresOK(al *ssa.Alloc) (bool, string) {
	// al: *[n]SortOption or *SortOption; every element's Direction must be stored ±1
	n := 0
	if at, ok := al.Type().Underlying().(*types.Pointer).Elem().Underlying().(*types.Array); ok {
		n = int(at.Len())
	} else {
		n = 1
	}
	dirs := 0
	var visit func(addr ssa.Value) string
	visit = func(addr ssa.Value) string {
		for _, r := range realReferrers(addr) {
			switch x := r.(type) {
			case *ssa.IndexAddr:
				if why := visit(x); why != "" {
					return why
				}
			case *ssa.FieldAddr:
				_, f, _ := fieldOfAddr(x)
				if f != "Direction" {
					continue
				}
				for _, rr := range realReferrers(x) {
					if st, ok := rr.(*ssa.Store); ok && st.Addr == ssa.Value(x) {
						k, ok := constInt(st.Val)
						if !ok || (k != 1 && k != -1) {
							return "Direction stored is not the constant 1 or -1"
						}
						dirs++
					}
				}
			case *ssa.Store:
				if x.Addr == addr {
					// whole-struct store: the value must be a SortOption literal with constant direction
					u, ok := x.Val.(*ssa.UnOp)
					if !ok || u.Op != token.MUL {
						return "a SortOption value that is not a literal is stored"
					}
					lit, ok := u.X.(*ssa.Alloc)
					if !ok {
						return "a SortOption value that is not a literal is stored"
					}
					if ok, why := c.directionStoresOK(lit); !ok {
						return why
					}
					dirs++
				}
			}
		}
		return ""
	}
	if why := visit(al); why != "" {
		return false, why
	}
	if dirs < n {
		return false, "a SortOption literal leaves Direction at its zero value"
	}
	return true, ""
}

func (c *Ctx) normalisedSortOpts(v ssa.Value, depth int, seen map[ssa.Value]bool) (bool, string) {
	if seen[v] || depth > 6 {
		return true, ""
	}
	seen[v] = true
	for _, og := range origins(v) {
		switch x := og.(type) {
		case *ssa.Const:
			if !isNilConst(x) {
				return false, "constant"
			}
		case *ssa.UnOp:
			if _, f, n := fieldLoad(x); f == "sortOpts" && n != nil && c.libNamedIs(n, "query", "Query") {
				continue // copied from another query, normalised by induction
			}
			return false, "loaded from an unknown place"
		case *ssa.Slice:
			al, ok := x.X.(*ssa.Alloc)
			if !ok {
				if ok, why := c.normalisedSortOpts(x.X, depth+1, seen); !ok {
					return false, why
				}
				continue
			}
			if ok, why := c.directionStoresOK(al); !ok {
				return false, why
			}
		case *ssa.MakeSlice:
			// empty; elements arrive through append
		case *ssa.Call:
			if b, ok := x.Common().Value.(*ssa.Builtin); ok && b.Name() == "append" {
				for _, a := range x.Common().Args {
					if ok, why := c.normalisedSortOpts(a, depth+1, seen); !ok {
						return false, why
					}
				}
				continue
			}
			g := staticCallee(x)
			if g == nil || !c.IsLib(g) {
				return false, "result of an unknown function"
			}
			for _, ret := range returnsOf(g) {
				rv, ok := returnedValue(ret, 0)
				if !ok {
					continue
				}
				if ok, why := c.normalisedSortOpts(rv, depth+1, seen); !ok {
					return false, c.fname(g) + ": " + why
				}
			}
		case *ssa.Parameter:
			return false, "the caller's raw option slice (parameter " + x.Name() + ")"
		default:
			return false, fmt.Sprintf("a %T", og)
		}
	}
	return true, ""
}

func rulePLAN5(c *Ctx) []Ob {
	o := newObs(c, "PLAN5")
	for _, fn := range c.LibFuncs {
		for _, b := range fn.Blocks {
			for _, in := range b.Instrs {
				st, ok := in.(*ssa.Store)
				if !ok {
					continue
				}
				_, f, n := fieldOfAddr(st.Addr)
				if f != "sortOpts" || n == nil || !c.libNamedIs(n, "query", "Query") {
					continue
				}
				key := c.fname(fn) + "/sortOpts ="
				pos := relPath(c, st.Pos())
				if ok, why := c.normalisedSortOpts(st.Val, 0, map[ssa.Value]bool{}); ok {
					o.add(OK, key, pos, "the stored options are nil, copied from a query, or built only from literals with Direction = ±1")
				} else {
					o.add(VIOLATED, key, pos, "un-normalised sort options reach the query (%s): the comparator multiplies by Direction, so 0 makes every pair compare equal and 2/-3 are not ±1", why)
				}
			}
		}
	}
	// the default of Sort() without options is ascending _id
	return o.list
}

// ---------------------------------------------------------------- PLAN6

type litNode struct {
	Type   string
	Fields map[string]string // field -> description ("const 3", "inner.Value", "nil", subtree)
	Kids   map[string]*litNode
}

// describeLiteral turns an allocation of a criteria/range literal into a tree.
func (c *Ctx) describeLiteral(v ssa.Value, depth int) *litNode {
	v = stripIfaceOnly(v)
	al, ok := v.(*ssa.Alloc)
	if !ok || depth > 3 {
		return nil
	}
	n, ok := al.Type().Underlying().(*types.Pointer).Elem().(*types.Named)
	if !ok {
		return nil
	}
	ln := &litNode{Type: n.Obj().Name(), Fields: map[string]string{}, Kids: map[string]*litNode{}}
	for _, r := range realReferrers(al) {
		fa, ok := r.(*ssa.FieldAddr)
		if !ok {
			continue
		}
		_, f, _ := fieldOfAddr(fa)
		for _, rr := range realReferrers(fa) {
			st, ok := rr.(*ssa.Store)
			if !ok || st.Addr != ssa.Value(fa) {
				continue
			}
			val := st.Val
			switch {
			case isNilConst(stripIfaceOnly(val)) || isNilConst(val):
				ln.Fields[f] = "nil"
			default:
				if k, ok := constInt(val); ok {
					ln.Fields[f] = fmt.Sprintf("const %d", k)
				} else if bv, ok := constBool(val); ok {
					ln.Fields[f] = fmt.Sprintf("const %v", bv)
				} else if kid := c.describeLiteral(val, depth+1); kid != nil {
					ln.Kids[f] = kid
					ln.Fields[f] = "literal"
				} else if _, lf, lnm := fieldLoad(stripIfaceOnly(val)); lf != "" && lnm != nil {
					ln.Fields[f] = "inner." + lf
				} else {
					ln.Fields[f] = "?"
				}
			}
		}
	}
	return ln
}

func (c *Ctx) opK(name string) int64 {
	k, _ := c.opConst(name)
	return k
}

func rulePLAN6(c *Ctx) []Ob {
	o := newObs(c, "PLAN6")
	cmpOps := []string{"EqOp", "LtOp", "LtEqOp", "GtOp", "GtEqOp"}
	negExpect := map[string]string{"LtOp": "GtEqOp", "LtEqOp": "GtOp", "GtOp": "LtEqOp", "GtEqOp": "LtOp"}
	type rng struct{ start, end, si, ei string }
	rngExpect := map[string]rng{
		"EqOp":   {"inner.Value", "inner.Value", "const true", "const true"},
		"LtOp":   {"nil", "inner.Value", "const false", "const false"},
		"LtEqOp": {"nil", "inner.Value", "const false", "const true"},
		"GtOp":   {"inner.Value", "nil", "const false", "const false"},
		"GtEqOp": {"inner.Value", "nil", "const true", "const false"},
	}
	get := func(ln *litNode, f, zero string) string {
		if v, ok := ln.Fields[f]; ok {
			return v
		}
		return zero
	}
	nNeg, nRng := 0, 0
	for _, fn := range c.LibFuncs {
		if c.pkgRel(fn) != "" || fn.Signature.Results().Len() != 1 {
			continue
		}
		rt := fn.Signature.Results().At(0).Type()
		isRange := false
		if p, ok := rt.(*types.Pointer); ok && c.libNamedIs(p.Elem(), "index", "Range") {
			isRange = true
		}
		isCrit := c.isCriteriaType(rt)
		if !isRange && !isCrit {
			continue
		}
		cases := c.opCases(fn, "UnaryCriteria", "OpType")
		if len(cases) < 3 {
			continue
		}
		for _, name := range cmpOps {
			k := c.opK(name)
			es := cases[k]
			if len(es) == 0 {
				o.add(INFO, c.fname(fn)+"/"+name, relPath(c, fn.Pos()), "no table row for %s: handled by the fall-through (no rewrite / no range)", name)
				continue
			}
			for _, ret := range returnsOf(fn) {
				if !guardedBy(fn, ret.Block(), es) {
					continue
				}
				val, ok := returnedValue(ret, 0)
				if !ok {
					continue
				}
				pos := relPath(c, ret.Pos())
				ln := c.describeLiteral(val, 0)
				key := c.fname(fn) + "/row " + name
				if ln == nil {
					o.add(UNDECIDED, key, pos, "table row does not return a literal")
					continue
				}
				if isRange {
					nRng++
					got := rng{get(ln, "Start", "nil"), get(ln, "End", "nil"), get(ln, "StartIncluded", "const false"), get(ln, "EndIncluded", "const false")}
					want := rngExpect[name]
					if got != want {
						o.add(VIOLATED, key, pos, "range for %s is {Start:%s End:%s StartIncluded:%s EndIncluded:%s}, the comparison means {Start:%s End:%s StartIncluded:%s EndIncluded:%s}", name, got.start, got.end, got.si, got.ei, want.start, want.end, want.si, want.ei)
					} else {
						o.add(OK, key, pos, "range row equals the mathematical one")
					}
					continue
				}
				nNeg++
				okRow, why := true, ""
				leaf := func(l *litNode, wantOp string) {
					if l == nil || l.Type != "UnaryCriteria" {
						okRow, why = false, "not a comparison leaf"
						return
					}
					if get(l, "OpType", "const 0") != fmt.Sprintf("const %d", c.opK(wantOp)) {
						okRow, why = false, fmt.Sprintf("operator is %s, the complement is %s", get(l, "OpType", "const 0"), wantOp)
					}
					if get(l, "Field", "") != "inner.Field" || get(l, "Value", "") != "inner.Value" {
						okRow, why = false, "field/value are not those of the negated comparison"
					}
				}
				if name == "EqOp" {
					if ln.Type != "BinaryCriteria" || get(ln, "OpType", "const 0") != fmt.Sprintf("const %d", c.opK("LogicalOr")) {
						okRow, why = false, "Not(Eq) must become Lt Or Gt"
					} else {
						ops := map[string]bool{}
						for _, kf := range []string{"C1", "C2"} {
							kid := ln.Kids[kf]
							if kid == nil {
								okRow, why = false, "missing operand"
								continue
							}
							ops[get(kid, "OpType", "const 0")] = true
							if get(kid, "Field", "") != "inner.Field" || get(kid, "Value", "") != "inner.Value" {
								okRow, why = false, "field/value are not those of the negated comparison"
							}
						}
						if okRow && !(ops[fmt.Sprintf("const %d", c.opK("LtOp"))] && ops[fmt.Sprintf("const %d", c.opK("GtOp"))]) {
							okRow, why = false, "operands are not {Lt, Gt}"
						}
					}
				} else {
					leaf(ln, negExpect[name])
				}
				if okRow {
					o.add(OK, key, pos, "negation row equals the mathematical complement")
				} else {
					o.add(VIOLATED, key, pos, "Not(%s) is rewritten wrongly: %s", name, why)
				}
			}
		}
		// rows for operators that have no order complement must not exist
		for k, es := range cases {
			known := false
			for _, name := range cmpOps {
				if c.opK(name) == k {
					known = true
				}
			}
			if known || len(es) == 0 {
				continue
			}
			o.add(UNDECIDED, c.fname(fn)+"/row "+c.opName(k), relPath(c, fn.Pos()), "table has a row for %s, for which no complement/range is defined in DESIGN.md", c.opName(k))
		}
	}
	if nNeg == 0 {
		o.add(UNDECIDED, "negation-table", "-", "negation table (switch over comparison operators returning criteria literals) not found")
	}
	if nRng == 0 {
		o.add(UNDECIDED, "range-table", "-", "criteria-to-range table not found")
	}
	return o.list
}

var _ = token.ADD

// ---------------------------------------------------------------- SORT1 / SORT2

func signOf(a aval) (int, bool) {
	v, ok := constIntOf(a)
	if !ok {
		return 0, false
	}
	switch {
	case v < 0:
		return -1, true
	case v > 0:
		return 1, true
	}
	return 0, true
}

// SORT1: the document comparator used by the sort node, abstractly evaluated for
// one and two sort options over every combination of (first has field, second
// has field, sign of Compare, direction), returns the sign the definition gives:
// per option: internal.Compare of the two values (an absent field reads as nil
// and orders together with nil, whatever Document.Has says) scaled by the
// direction; the first non-zero option decides.
func ruleSORT1(c *Ctx) []Ob {
	o := newObs(c, "SORT1")
	cmp := c.lookupFunc("internal", "Compare")
	hasM := c.lookupMethod("document", "Document", "Has")
	// the comparator: the function of the root package with a []SortOption parameter that calls Compare
	var comp *ssa.Function
	isOptsT := func(t types.Type) bool {
		sl, ok := t.Underlying().(*types.Slice)
		return ok && c.libNamedIs(sl.Elem(), "query", "SortOption")
	}
	// the sort options are a parameter of the comparator or a field of its receiver
	isOpts := func(v ssa.Value) bool { return v != nil && isOptsT(v.Type()) }
	for _, fn := range c.LibFuncs {
		if c.pkgRel(fn) != "" || fn.Parent() != nil {
			continue
		}
		if fn.Signature.Results().Len() != 1 || !isIntType(fn.Signature.Results().At(0).Type()) {
			continue
		}
		nDocs := 0
		for _, p := range fn.Params {
			if c.isDocPtr(p.Type()) {
				nDocs++
			}
		}
		if nDocs != 2 {
			continue
		}
		calls, indexes := false, false
		allCalls(fn, func(call ssa.CallInstruction) {
			if g := staticCallee(call); g != nil && c.declared(g) == cmp {
				calls = true
			}
		})
		for _, b := range fn.Blocks {
			for _, in := range b.Instrs {
				if ia, ok := in.(*ssa.IndexAddr); ok && isOpts(ia.X) {
					indexes = true
				}
			}
		}
		if calls && indexes {
			comp = fn
		}
	}
	if comp == nil || hasM == nil {
		o.add(UNDECIDED, "comparator", "-", "document comparator (func over two documents and a []SortOption, calling internal.Compare, returning int) not found")
		return softenUndecided(o.list)
	}
	var idxVal ssa.Value
	for _, b := range comp.Blocks {
		for _, in := range b.Instrs {
			if ia, ok := in.(*ssa.IndexAddr); ok && isOpts(ia.X) {
				idxVal = ia.Index
			}
		}
	}
	var docParams []*ssa.Parameter
	for _, p := range comp.Params {
		if c.isDocPtr(p.Type()) {
			docParams = append(docParams, p)
		}
	}
	if idxVal == nil || len(docParams) != 2 {
		o.add(UNDECIDED, "comparator", relPath(c, comp.Pos()), "comparator shape not understood")
		return softenUndecided(o.list)
	}
	type opt struct {
		fh, sh bool
		res, d int64
	}
	eval := func(opts []opt) (int, string) {
		te := c.newTagEval()
		te.maxVisits = 8
		cur := func(val func(ssa.Value) aval) int {
			i, ok := constIntOf(val(idxVal))
			if !ok || int(i) >= len(opts) || i < 0 {
				return 0
			}
			return int(i)
		}
		te.loadHookEnv = func(l *ssa.UnOp, val func(ssa.Value) aval) (aval, bool) {
			if c.isFieldLoadOf(l, "query", "SortOption", "Direction") {
				return aval{K: aConst, C: constant.MakeInt64(opts[cur(val)].d)}, true
			}
			return aval{}, false
		}
		te.callHookEnv = func(call *ssa.Call, val func(ssa.Value) aval) ([]aval, bool) {
			cc := call.Common()
			if b, ok := cc.Value.(*ssa.Builtin); ok && b.Name() == "len" && isOpts(cc.Args[0]) {
				return []aval{{K: aConst, C: constant.MakeInt64(int64(len(opts)))}}, true
			}
			g := staticCallee(call)
			if g == nil {
				return nil, false
			}
			switch c.declared(g) {
			case hasM:
				if cc.Args[0] == ssa.Value(docParams[0]) {
					return []aval{boolConst(opts[cur(val)].fh)}, true
				}
				if cc.Args[0] == ssa.Value(docParams[1]) {
					return []aval{boolConst(opts[cur(val)].sh)}, true
				}
			case cmp:
				return []aval{{K: aConst, C: constant.MakeInt64(opts[cur(val)].res)}}, true
			}
			return nil, false
		}
		outs := te.Eval(comp, make([]aval, len(comp.Params)), 0)
		if len(outs) == 0 {
			return 0, "no outcome"
		}
		sign := 0
		for i, oc := range outs {
			if oc.Panic {
				return 0, "panic: " + oc.Why
			}
			s, ok := signOf(oc.Vals[0])
			if !ok {
				return 0, "result not decided by the injected outcomes (" + oc.Vals[0].String() + ")"
			}
			if i > 0 && s != sign {
				return 0, "result differs between paths"
			}
			sign = s
		}
		return sign, ""
	}
	// the definition (C08): per option the sign of internal.Compare on the two values scaled by the
	// direction, an absent field ordering TOGETHER WITH nil: Document.Get yields nil for it, so whether
	// the field is present must not influence the result.
	want := func(opts []opt) int {
		for _, op := range opts {
			v := op.res * op.d
			if v < 0 {
				return -1
			}
			if v > 0 {
				return 1
			}
		}
		return 0
	}
	var all []opt
	for _, fh := range []bool{false, true} {
		for _, sh := range []bool{false, true} {
			for _, r := range []int64{-1, 0, 1} {
				for _, d := range []int64{1, -1} {
					all = append(all, opt{fh, sh, r, d})
				}
			}
		}
	}
	pos := relPath(c, comp.Pos())
	bad, undec, n := "", "", 0
	for _, a := range all {
		n++
		got, why := eval([]opt{a})
		if why != "" {
			undec = why
			continue
		}
		if got != want([]opt{a}) {
			bad = fmt.Sprintf("one option {first has=%v, second has=%v, compare=%d, direction=%d}: sign %d, definition %d", a.fh, a.sh, a.res, a.d, got, want([]opt{a}))
		}
	}
	key := c.fname(comp) + "/one sort option (24 cases)"
	switch {
	case bad != "":
		o.add(VIOLATED, key, pos, "%s", bad)
	case undec != "":
		o.add(UNDECIDED, key, pos, "%s", undec)
	default:
		o.add(OK, key, pos, "sign of the result equals the definition in all %d cases (negative direction reverses; an absent field orders together with nil)", n)
	}
	bad, undec, n = "", "", 0
	for _, a := range all {
		for _, b := range all {
			n++
			got, why := eval([]opt{a, b})
			if why != "" {
				undec = why
				continue
			}
			if got != want([]opt{a, b}) {
				bad = fmt.Sprintf("two options {%v %v %d %d},{%v %v %d %d}: sign %d, definition %d (the first non-zero option must decide)", a.fh, a.sh, a.res, a.d, b.fh, b.sh, b.res, b.d, got, want([]opt{a, b}))
			}
		}
	}
	key = c.fname(comp) + "/two sort options (576 cases)"
	switch {
	case bad != "":
		o.add(VIOLATED, key, pos, "%s", bad)
	case undec != "":
		o.add(UNDECIDED, key, pos, "%s", undec)
	default:
		o.add(OK, key, pos, "lexicographic: the first option with a non-zero result decides, in all %d cases", n)
	}
	return softenUndecided(o.list)
}

// SORT2: the sort-option normaliser maps a negative direction to -1 and zero or
// positive to +1 (abstract evaluation over the sign of the input direction,
// observing the constant stored into the Direction of what it appends).
func ruleSORT2(c *Ctx) []Ob {
	o := newObs(c, "SORT2")
	var norm *ssa.Function
	var optsParam *ssa.Parameter
	for _, fn := range c.LibFuncs {
		if c.pkgRel(fn) != "query" || fn.Parent() != nil || fn.Signature.Results().Len() != 1 || len(fn.Params) != 1 {
			continue
		}
		sl, ok := fn.Params[0].Type().Underlying().(*types.Slice)
		rs, ok2 := fn.Signature.Results().At(0).Type().Underlying().(*types.Slice)
		if ok && ok2 && c.libNamedIs(sl.Elem(), "query", "SortOption") && c.libNamedIs(rs.Elem(), "query", "SortOption") {
			norm, optsParam = fn, fn.Params[0]
		}
	}
	if norm == nil {
		o.add(INFO, "normaliser", "-", "no func([]SortOption) []SortOption in package query")
		return o.list
	}
	pos := relPath(c, norm.Pos())
	for _, d := range []int64{-2, -1, 0, 1, 2} {
		d := d
		te := c.newTagEval()
		te.maxVisits = 6
		var stored []int64
		undec := false
		te.loadHook = func(l *ssa.UnOp) (aval, bool) {
			if c.isFieldLoadOf(l, "query", "SortOption", "Direction") {
				return aval{K: aConst, C: constant.MakeInt64(d)}, true
			}
			return aval{}, false
		}
		te.callHookEnv = func(call *ssa.Call, val func(ssa.Value) aval) ([]aval, bool) {
			cc := call.Common()
			if b, ok := cc.Value.(*ssa.Builtin); ok && b.Name() == "len" && cc.Args[0] == ssa.Value(optsParam) {
				return []aval{{K: aConst, C: constant.MakeInt64(1)}}, true
			}
			return nil, false
		}
		te.storeObs = func(st *ssa.Store, v aval, _ func(ssa.Value) aval) {
			if _, f, n := fieldOfAddr(st.Addr); f == "Direction" && n != nil && c.libNamedIs(n, "query", "SortOption") {
				if k, ok := constIntOf(v); ok {
					stored = append(stored, k)
				} else {
					undec = true
				}
			}
		}
		te.Eval(norm, []aval{{}}, 0)
		want := int64(1)
		if d < 0 {
			want = -1
		}
		key := fmt.Sprintf("%s/direction %d", c.fname(norm), d)
		switch {
		case undec || len(stored) == 0:
			o.add(UNDECIDED, key, pos, "the direction stored for an input direction of %d is not a constant the evaluator can see", d)
		default:
			okAll := true
			for _, k := range stored {
				if k != want {
					okAll = false
				}
			}
			if okAll {
				o.add(OK, key, pos, "-> %d", want)
			} else {
				o.add(VIOLATED, key, pos, "an input direction of %d is normalised to %v, the documented value is %d", d, stored, want)
			}
		}
	}
	return softenUndecided(o.list)
}

// ---------------------------------------------------------------- WIN1

// WIN1: the skip/limit node's per-document transition, decided by predicate
// abstraction: with A = "skipped counter < skip", B = "limit < 0", C = "consumed
// counter < limit" injected as constants (all 8 combinations), Callback
//
//	A            -> counts the document as skipped, returns nil, forwards nothing
//	!A && (B||C) -> counts it as consumed and returns what the next node returns
//	otherwise    -> returns the stop sentinel, forwards nothing.
//
// With both counters starting at zero (checked at the node's construction) this
// is exactly the window [skip, skip+limit).
func ruleWIN1(c *Ctx) []Ob {
	o := newObs(c, "WIN1")
	var node *types.Named
	sp := c.LibPkgs[c.ModPath]
	if sp != nil {
		for _, mem := range sp.Members {
			if tn, ok := mem.(*ssa.Type); ok {
				if n, ok := tn.Type().(*types.Named); ok {
					if _, isStruct := n.Underlying().(*types.Struct); isStruct && c.nodeKind(n) == "window" {
						// a plan node: it declares its own Callback(*Document) error
						if m := c.lookupMethod("", n.Obj().Name(), "Callback"); m != nil && c.IsLib(m) && recvNamed(m) == n {
							if node == nil || n.Obj().Name() < node.Obj().Name() {
								node = n
							}
						}
					}
				}
			}
		}
	}
	if node == nil {
		o.add(UNDECIDED, "window-node", "-", "skip/limit plan node not found")
		return softenUndecided(o.list)
	}
	cb := c.lookupMethod("", node.Obj().Name(), "Callback")
	if cb == nil {
		o.add(UNDECIDED, "window-node", "-", "Callback of the skip/limit node not found")
		return softenUndecided(o.list)
	}
	fieldOf := func(v ssa.Value) string {
		for _, og := range origins(v) {
			if _, f, n := fieldLoad(og); f != "" && n != nil && types.Identical(n, node) {
				return f
			}
		}
		return ""
	}
	// roles of the four fields from the comparisons in Callback
	var limitF, consumedF, skippedF, skipF string
	type cmpInfo struct {
		bo   *ssa.BinOp
		x, y string
	}
	var cmps []cmpInfo
	for _, b := range cb.Blocks {
		for _, in := range b.Instrs {
			bo, ok := in.(*ssa.BinOp)
			if !ok {
				continue
			}
			switch bo.Op {
			case token.LSS, token.LEQ, token.GTR, token.GEQ:
				cmps = append(cmps, cmpInfo{bo, fieldOf(bo.X), fieldOf(bo.Y)})
			}
		}
	}
	for _, ci := range cmps {
		if ci.x != "" && ci.y == "" {
			if k, ok := constInt(ci.bo.Y); ok && k == 0 {
				limitF = ci.x
			}
		}
	}
	for _, ci := range cmps {
		if ci.x != "" && ci.y != "" {
			if ci.y == limitF {
				consumedF = ci.x
			} else if ci.x == limitF {
				consumedF = ci.y
			}
		}
	}
	for _, ci := range cmps {
		if ci.x != "" && ci.y != "" && ci.x != consumedF && ci.y != consumedF && ci.x != limitF && ci.y != limitF {
			// the counter is the one Callback stores to
			stored := map[string]bool{}
			for _, b := range cb.Blocks {
				for _, in := range b.Instrs {
					if st, ok := in.(*ssa.Store); ok {
						if _, f, n := fieldOfAddr(st.Addr); n != nil && types.Identical(n, node) {
							stored[f] = true
						}
					}
				}
			}
			if stored[ci.x] {
				skippedF, skipF = ci.x, ci.y
			} else {
				skippedF, skipF = ci.y, ci.x
			}
		}
	}
	pos := relPath(c, cb.Pos())
	if limitF == "" || consumedF == "" || skippedF == "" || skipF == "" {
		o.add(UNDECIDED, "window-node/fields", pos, "the roles of the node's counters and bounds could not be recovered from its comparisons")
		return softenUndecided(o.list)
	}
	for _, A := range []bool{false, true} {
		for _, B := range []bool{false, true} {
			for _, C := range []bool{false, true} {
				A, B, C := A, B, C
				te := c.newTagEval()
				forwarded := false
				stores := map[string]bool{}
				te.binopHook = func(bo *ssa.BinOp) (aval, bool) {
					x, y := fieldOf(bo.X), fieldOf(bo.Y)
					truth := func(v bool) (aval, bool) {
						// normalise the operator direction: the predicate is stated as `<`
						switch bo.Op {
						case token.LSS:
							return boolConst(v), true
						case token.GEQ:
							return boolConst(!v), true
						}
						return aval{}, false
					}
					switch {
					case x == skippedF && y == skipF:
						return truth(A)
					case x == consumedF && y == limitF:
						return truth(C)
					case x == limitF && y == "":
						if k, ok := constInt(bo.Y); ok && k == 0 {
							return truth(B) // limit < 0
						}
					}
					return aval{}, false
				}
				te.callHookEnv = func(call *ssa.Call, _ func(ssa.Value) aval) ([]aval, bool) {
					if c.isCallbackForwarder(call) {
						forwarded = true
						return []aval{{K: aConst, C: constant.MakeString("result of the next node")}}, true
					}
					return nil, false
				}
				te.storeObs = func(st *ssa.Store, _ aval, _ func(ssa.Value) aval) {
					if _, f, n := fieldOfAddr(st.Addr); n != nil && types.Identical(n, node) {
						stores[f] = true
					}
				}
				outs := te.Eval(cb, make([]aval, len(cb.Params)), 0)
				key := fmt.Sprintf("%s.Callback/skipping=%v unlimited=%v below-limit=%v", node.Obj().Name(), A, B, C)
				if len(outs) != 1 || outs[0].Panic {
					o.add(UNDECIDED, key, pos, "the transition is not decided by the three predicates (%d outcomes)", len(outs))
					continue
				}
				rv := outs[0].Vals[0]
				kind := "?"
				switch {
				case rv.K == aConst && rv.C != nil && rv.C.Kind() == constant.String:
					kind = "forward"
				case rv.K == aTag && rv.Tag == nil:
					kind = "nil"
				case rv.K == aGlobal && strings.HasSuffix(globalFullName(rv.G), "/internal.ErrStopIteration"):
					kind = "stop"
				}
				want := "stop"
				switch {
				case A:
					want = "nil"
				case B || C:
					want = "forward"
				}
				bad := ""
				switch {
				case kind != want:
					bad = fmt.Sprintf("returns %s, the window semantics require %s", kind, want)
				case want == "nil" && (forwarded || !stores[skippedF] || stores[consumedF]):
					bad = "a skipped document must only advance the skipped counter"
				case want == "forward" && (!forwarded || !stores[consumedF] || stores[skippedF]):
					bad = "a document inside the window must advance the consumed counter and be forwarded"
				case want == "stop" && (forwarded || stores[consumedF] || stores[skippedF]):
					bad = "past the window nothing may be forwarded or counted"
				}
				if bad != "" {
					o.add(VIOLATED, key, pos, "%s", bad)
				} else {
					o.add(OK, key, pos, "-> %s", want)
				}
			}
		}
	}
	// counters start at zero where the node is built
	for _, fn := range c.LibFuncs {
		for _, b := range fn.Blocks {
			for _, in := range b.Instrs {
				al, ok := in.(*ssa.Alloc)
				if !ok {
					continue
				}
				n, ok := al.Type().Underlying().(*types.Pointer).Elem().(*types.Named)
				if !ok || !types.Identical(n, node) {
					continue
				}
				bad := ""
				for _, r := range realReferrers(al) {
					fa, ok := r.(*ssa.FieldAddr)
					if !ok {
						continue
					}
					_, f, _ := fieldOfAddr(fa)
					if f != skippedF && f != consumedF {
						continue
					}
					for _, rr := range realReferrers(fa) {
						if st, ok := rr.(*ssa.Store); ok && st.Addr == ssa.Value(fa) {
							if k, ok := constInt(st.Val); !ok || k != 0 {
								bad = f
							}
						}
					}
				}
				key := c.fname(fn) + "/new " + node.Obj().Name() + " counters"
				if bad != "" {
					o.add(VIOLATED, key, relPath(c, al.Pos()), "the %s counter of a new skip/limit node does not start at zero", bad)
				} else {
					o.add(OK, key, relPath(c, al.Pos()), "both counters start at zero")
				}
			}
		}
	}
	return softenUndecided(o.list)
}

// ---------------------------------------------------------------- SORT3

// appendsValue: call is append(x, v) (v as the single variadic element).
func appendsValue(call *ssa.Call, v ssa.Value) bool {
	cc := call.Common()
	b, ok := cc.Value.(*ssa.Builtin)
	if !ok || b.Name() != "append" || len(cc.Args) != 2 {
		return false
	}
	for _, og := range origins(cc.Args[1]) {
		sl, ok := og.(*ssa.Slice)
		if !ok {
			continue
		}
		al, ok := sl.X.(*ssa.Alloc)
		if !ok {
			continue
		}
		for _, r := range realReferrers(al) {
			ia, ok := r.(*ssa.IndexAddr)
			if !ok {
				continue
			}
			for _, rr := range realReferrers(ia) {
				if st, ok := rr.(*ssa.Store); ok && st.Addr == ssa.Value(ia) && (st.Val == v || sameOrigin(st.Val, v)) {
					return true
				}
			}
		}
	}
	return false
}

// SORT3: the sort node sees the whole input. Its Callback appends every
// document it is given to the node's buffer on every path that reports success
// (no "keep only the best so far" fast path decided from limit alone: a skip
// behind the sort still needs the others), and Finish forwards the buffer's
// elements from a loop.
func ruleSORT3(c *Ctx) []Ob {
	o := newObs(c, "SORT3")
	sp := c.LibPkgs[c.ModPath]
	if sp == nil {
		o.add(UNDECIDED, "sort-node", "-", "root package not loaded")
		return o.list
	}
	var names []string
	for n := range sp.Members {
		names = append(names, n)
	}
	sort.Strings(names)
	found := false
	for _, nm := range names {
		tn, ok := sp.Members[nm].(*ssa.Type)
		if !ok {
			continue
		}
		n, ok := tn.Type().(*types.Named)
		if !ok {
			continue
		}
		if _, isStruct := n.Underlying().(*types.Struct); !isStruct || c.nodeKind(n) != "sort" {
			continue
		}
		cb := c.lookupMethod("", n.Obj().Name(), "Callback")
		if cb == nil || !c.IsLib(cb) || recvNamed(cb) != n {
			continue
		}
		found = true
		var doc *ssa.Parameter
		for _, p := range cb.Params {
			if c.isDocPtr(p.Type()) {
				doc = p
			}
		}
		key := n.Obj().Name() + ".Callback/buffers every document"
		if doc == nil {
			o.add(UNDECIDED, key, relPath(c, cb.Pos()), "no document parameter")
			continue
		}
		cut := map[*ssa.BasicBlock]bool{}
		bufField := ""
		for _, b := range cb.Blocks {
			for _, in := range b.Instrs {
				call, ok := in.(*ssa.Call)
				if !ok || !appendsValue(call, doc) {
					continue
				}
				// stored back into a field of the node
				for _, r := range realReferrers(call) {
					if st, ok := r.(*ssa.Store); ok && st.Val == ssa.Value(call) {
						if _, f, nn := fieldOfAddr(st.Addr); nn != nil && types.Identical(nn, n) {
							cut[b] = true
							bufField = f
						}
					}
				}
			}
		}
		if bufField == "" {
			o.add(VIOLATED, key, relPath(c, cb.Pos()), "the sort node's Callback never appends the document it receives to a buffer of the node")
			continue
		}
		if bad := c.successWithoutCut(cb, []edge2{{nil, cb.Blocks[0]}}, cut, nil); bad != "" {
			o.add(VIOLATED, key, relPath(c, cb.Pos()), "a path through the sort node's Callback reaches %s without appending the document to %s: the documents dropped here are missing from everything behind the sort (a skip, a second page)", bad, bufField)
		} else {
			o.add(OK, key, relPath(c, cb.Pos()), "every successful path appends the document to %s", bufField)
		}
		// Finish forwards elements of the buffer from a loop
		key = n.Obj().Name() + ".Finish/forwards the buffer"
		fin := c.lookupMethod("", n.Obj().Name(), "Finish")
		if fin == nil || !c.IsLib(fin) {
			o.add(UNDECIDED, key, "-", "Finish not found")
			continue
		}
		okf := false
		var visit func(fn *ssa.Function)
		// a helper of the node that passes the document it is given to the next node (emit(doc))
		forwardsParam := func(g *ssa.Function, idx int) bool {
			if g == nil || idx >= len(g.Params) {
				return false
			}
			p := g.Params[idx]
			fw := false
			allCalls(g, func(ic ssa.CallInstruction) {
				if !c.isCallbackForwarder(ic) {
					return
				}
				ia := ic.Common().Args
				for _, og := range origins(ia[len(ia)-1]) {
					if og == ssa.Value(p) {
						fw = true
					}
				}
			})
			return fw
		}
		visit = func(fn *ssa.Function) {
			allCalls(fn, func(call ssa.CallInstruction) {
				if !c.inLoop(call.Block()) {
					return
				}
				args := call.Common().Args
				if len(args) == 0 {
					return
				}
				docArg := args[len(args)-1]
				if !c.isCallbackForwarder(call) {
					g := staticCallee(call)
					if g == nil || !c.IsLib(c.declared(g)) {
						return
					}
					found := false
					for ai, a := range args {
						if c.isDocPtr(a.Type()) && forwardsParam(c.declared(g), ai) {
							docArg, found = a, true
						}
					}
					if !found {
						return
					}
				}
				for _, og := range origins(docArg) {
					l, ok := og.(*ssa.UnOp)
					if !ok || l.Op != token.MUL {
						continue
					}
					if ia, ok := l.X.(*ssa.IndexAddr); ok {
						for _, bo := range origins(ia.X) {
							if _, f, nn := fieldLoad(bo); f == bufField && nn != nil && types.Identical(nn, n) {
								okf = true
							}
						}
					}
				}
			})
		}
		visit(fin)
		if okf {
			o.add(OK, key, relPath(c, fin.Pos()), "Finish passes the elements of %s to the next node from a loop", bufField)
		} else {
			o.add(VIOLATED, key, relPath(c, fin.Pos()), "Finish does not forward the elements of %s from a loop", bufField)
		}
	}
	if !found {
		o.add(UNDECIDED, "sort-node", "-", "no plan node that sorts found")
		return softenUndecided(o.list)
	}
	return o.list
}

// ---------------------------------------------------------------- WIN2

// WIN2: the skip/limit node as a transition system, whatever its shape. The
// fields holding the query's skip and limit are found by data flow (what is
// stored into the node from Query.GetSkip / GetLimit). For small skips and
// limits the node's Callback is abstractly evaluated document after document
// on one abstract node object (integer fields are constants the evaluator
// folds; nothing of clover is run): document i must be forwarded exactly when
// skip <= i and (limit < 0 or i < skip+limit), and a stop may only be
// requested when no later document lies in the window.
func ruleWIN2(c *Ctx) []Ob {
	o := newObs(c, "WIN2")
	var node *types.Named
	sp := c.LibPkgs[c.ModPath]
	if sp != nil {
		var names []string
		for n := range sp.Members {
			names = append(names, n)
		}
		sort.Strings(names)
		for _, nm := range names {
			if tn, ok := sp.Members[nm].(*ssa.Type); ok {
				if n, ok := tn.Type().(*types.Named); ok {
					if _, isStruct := n.Underlying().(*types.Struct); isStruct && c.nodeKind(n) == "window" {
						if m := c.lookupMethod("", n.Obj().Name(), "Callback"); m != nil && c.IsLib(m) && recvNamed(m) == n && node == nil {
							node = n
						}
					}
				}
			}
		}
	}
	if node == nil {
		o.add(UNDECIDED, "window-node", "-", "skip/limit plan node not found")
		return softenUndecided(o.list)
	}
	cb := c.lookupMethod("", node.Obj().Name(), "Callback")
	st := node.Underlying().(*types.Struct)
	fidx := map[string]int{}
	for i := 0; i < st.NumFields(); i++ {
		fidx[st.Field(i).Name()] = i
	}
	getSkip := c.lookupMethod("query", "Query", "GetSkip")
	getLimit := c.lookupMethod("query", "Query", "GetLimit")
	skipF, limitF := "", ""
	for _, fn := range c.LibFuncs {
		for _, b := range fn.Blocks {
			for _, in := range b.Instrs {
				s, ok := in.(*ssa.Store)
				if !ok {
					continue
				}
				_, f, n := fieldOfAddr(s.Addr)
				if n == nil || !types.Identical(n, node) || !isIntType(s.Val.Type()) {
					continue
				}
				var scan func(v ssa.Value, depth int, seen map[ssa.Value]bool)
				scan = func(v ssa.Value, depth int, seen map[ssa.Value]bool) {
					if depth > 6 || seen[v] {
						return
					}
					seen[v] = true
					cands := append(c.paramSources(v, 0), c.deepOrigins(v)...)
					for _, og := range cands {
						switch x := og.(type) {
						case *ssa.Call:
							if g := staticCallee(x); g != nil {
								if c.declared(g) == getSkip {
									skipF = f
								}
								if c.declared(g) == getLimit {
									limitF = f
								}
							}
							if b, ok := x.Common().Value.(*ssa.Builtin); ok && (b.Name() == "max" || b.Name() == "min") {
								for _, a := range x.Common().Args {
									scan(a, depth+1, seen)
								}
							}
						case *ssa.BinOp:
							scan(x.X, depth+1, seen)
							scan(x.Y, depth+1, seen)
						}
					}
				}
				scan(s.Val, 0, map[ssa.Value]bool{})
			}
		}
	}
	pos := relPath(c, cb.Pos())
	if skipF == "" || limitF == "" || skipF == limitF {
		o.add(UNDECIDED, "window-node/configuration", pos, "the fields receiving Query.GetSkip() and Query.GetLimit() were not found")
		return softenUndecided(o.list)
	}
	docs := int64(7)
	skips, limits := []int64{0, 1, 3}, []int64{-1, 0, 1, 2, 5}
	if c.Tier == "thorough" {
		docs = 14
		skips, limits = []int64{0, 1, 2, 3, 5, 8}, []int64{-1, 0, 1, 2, 3, 5, 8, 13}
	}
	bad, undec, n := "", "", 0
	for _, skip := range skips {
		for _, limit := range limits {
			te := c.newTagEval()
			te.heap = map[int64]map[int]aval{}
			forwarded := false
			te.callHookEnv = func(call *ssa.Call, _ func(ssa.Value) aval) ([]aval, bool) {
				if c.isCallbackForwarder(call) {
					forwarded = true
					return []aval{{K: aTag, Tag: nil}}, true
				}
				return nil, false
			}
			obj := te.newObj(map[int]aval{
				fidx[skipF]:  {K: aConst, C: constant.MakeInt64(skip)},
				fidx[limitF]: {K: aConst, C: constant.MakeInt64(limit)},
			})
			for i := int64(0); i < docs; i++ {
				n++
				forwarded = false
				te.heapForked = false
				te.steps = 0
				args := make([]aval, len(cb.Params))
				args[0] = obj
				outs := te.Eval(cb, args, 0)
				what := fmt.Sprintf("skip=%d limit=%d, document #%d", skip, limit, i)
				if len(outs) != 1 || outs[0].Panic || te.heapForked || len(outs[0].Vals) != 1 {
					undec = what + ": the transition is not decided by the node's integer state"
					break
				}
				rv := outs[0].Vals[0]
				stop := rv.K == aGlobal && strings.HasSuffix(globalFullName(rv.G), "/internal.ErrStopIteration")
				isNil := rv.K == aTag && rv.Tag == nil
				if !stop && !isNil {
					undec = what + ": the result is neither nil nor the stop request (" + rv.String() + ")"
					break
				}
				inWindow := i >= skip && (limit < 0 || i < skip+limit)
				laterInWindow := limit < 0 || i+1 < skip+limit
				switch {
				case forwarded != inWindow && inWindow:
					bad = what + ": lies in the window but is not passed to the next node"
				case forwarded != inWindow:
					bad = what + ": lies outside the window but is passed to the next node"
				case stop && laterInWindow:
					bad = what + ": the scan is told to stop although later documents lie in the window"
				}
				if stop || bad != "" {
					break
				}
			}
			if undec != "" {
				break
			}
		}
		if undec != "" {
			break
		}
	}
	key := node.Obj().Name() + ".Callback/window [skip, skip+limit)"
	switch {
	case bad != "":
		o.add(VIOLATED, key, pos, "%s", bad)
	case undec != "":
		o.add(UNDECIDED, key, pos, "%s", undec)
	default:
		o.add(OK, key, pos, "skip in %v x limit in %v over %d documents: %d transitions, each document forwarded exactly when it lies in the window; stop only when the window is exhausted (configuration fields %s, %s)", skips, limits, docs, n, skipF, limitF)
	}
	return softenUndecided(o.list)
}

// ---------------------------------------------------------------- PLAN10

// PLAN10: an operation that takes a query answers it from the query plan only.
// From every exported function of the root package with a *query.Query
// parameter, the code statically reachable WITHOUT entering a plan node (a type
// with Callback, or Run(store.Tx)) performs no Tx.Get on a document-record key
// and opens no cursor on the document or index layouts itself: FindFirst,
// Exists, Count and ForEach cannot grow a lookup path of their own whose
// reading of the criteria differs from the filter's (an `_id == "$parent"`
// operand is a field reference for the filter, a literal key for a point
// lookup).
func rulePLAN10(c *Ctx) []Ob {
	o := newObs(c, "PLAN10")
	r := c.Roles()
	isPlanNode := func(fn *ssa.Function) bool {
		n := recvNamed(fn)
		if n == nil {
			return false
		}
		ms := c.Prog.MethodSets.MethodSet(types.NewPointer(n))
		for i := 0; i < ms.Len(); i++ {
			nm := ms.At(i).Obj().Name()
			if nm == "Callback" || nm == "Run" {
				if n.Obj().Pkg() != nil && n.Obj().Pkg().Path() == c.ModPath {
					return true
				}
			}
		}
		return false
	}
	docGets := map[*ssa.Function]string{}
	for _, s := range r.model.sinks {
		if s.Op == "Get" && r.DocSkel != "" && sinkHasSkel(s, r.DocSkel) {
			// a lookup whose value is only compared with nil is an existence probe, not a read of the document
			read := false
			if gc, ok := s.Call.(*ssa.Call); ok {
				for _, v := range resultValues(gc, 0) {
					for _, ref := range realReferrers(v) {
						if bo, ok := ref.(*ssa.BinOp); ok && (bo.Op == token.EQL || bo.Op == token.NEQ) && (isNilConst(bo.X) || isNilConst(bo.Y)) {
							continue
						}
						read = true
					}
				}
			}
			if read {
				docGets[rootFunc(s.Fn)] = relPath(c, s.Call.Pos())
			}
		}
	}
	if len(docGets) == 0 {
		o.add(UNDECIDED, "model", "-", "no Tx.Get on a document-record key found")
		return o.list
	}
	var entries []*ssa.Function
	for _, fn := range c.LibFuncs {
		if c.pkgRel(fn) != "" || fn.Parent() != nil || fn.Object() == nil || !fn.Object().Exported() {
			continue
		}
		for _, p := range fn.Params {
			if pt, ok := p.Type().(*types.Pointer); ok && c.libNamedIs(pt.Elem(), "query", "Query") {
				entries = append(entries, fn)
				break
			}
		}
	}
	sort.Slice(entries, func(i, j int) bool { return c.fname(entries[i]) < c.fname(entries[j]) })
	for _, e := range entries {
		seen := map[*ssa.Function]bool{}
		via := map[*ssa.Function]*ssa.Function{}
		bad := ""
		var walk func(f *ssa.Function)
		walk = func(f *ssa.Function) {
			if f == nil || seen[f] || !c.IsLib(f) || bad != "" {
				return
			}
			seen[f] = true
			if isPlanNode(rootFunc(f)) {
				return
			}
			if at, ok := docGets[rootFunc(f)]; ok {
				path := c.fname(f)
				for g := via[f]; g != nil; g = via[g] {
					path = c.fname(g) + " -> " + path
				}
				bad = fmt.Sprintf("%s (Tx.Get at %s)", path, at)
				return
			}
			allCalls(f, func(call ssa.CallInstruction) {
				if g := staticCallee(call); g != nil {
					g = c.declared(g)
					if !seen[g] {
						via[g] = f
					}
					walk(g)
				}
			})
			for _, a := range f.AnonFuncs {
				if !seen[a] {
					via[a] = f
				}
				walk(a)
			}
		}
		walk(e)
		key := c.fname(e) + "/documents come from the plan only"
		if bad != "" {
			o.add(VIOLATED, key, relPath(c, e.Pos()), "a point lookup of a document record is reachable outside the query plan: %s - the operation answers some queries without evaluating their criteria the way the filter does", bad)
		} else {
			o.add(OK, key, relPath(c, e.Pos()), "no document-record lookup outside the plan nodes (%d functions reachable)", len(seen))
		}
	}
	return o.list
}

// ---------------------------------------------------------------- SORT4

// SORT4: the sort-option normaliser keeps every option: its loop over the
// options is left only when the options are exhausted (no break / return from
// the body), every trip round the loop appends one option, and the appended
// option's Field is the Field of the element visited. (Dropping "redundant"
// options after _id also drops _id when the exit sits before the append.)
func ruleSORT4(c *Ctx) []Ob {
	o := newObs(c, "SORT4")
	var norm *ssa.Function
	for _, fn := range c.LibFuncs {
		if c.pkgRel(fn) != "query" || fn.Parent() != nil || fn.Signature.Results().Len() != 1 || len(fn.Params) != 1 {
			continue
		}
		sl, ok := fn.Params[0].Type().Underlying().(*types.Slice)
		rs, ok2 := fn.Signature.Results().At(0).Type().Underlying().(*types.Slice)
		if ok && ok2 && c.libNamedIs(sl.Elem(), "query", "SortOption") && c.libNamedIs(rs.Elem(), "query", "SortOption") {
			norm = fn
		}
	}
	if norm == nil {
		o.add(INFO, "normaliser", "-", "no func([]SortOption) []SortOption in package query")
		return o.list
	}
	pos := relPath(c, norm.Pos())
	// the loop that indexes the parameter
	var header *ssa.BasicBlock
	var body map[*ssa.BasicBlock]bool
	for _, b := range norm.Blocks {
		for _, in := range b.Instrs {
			if ia, ok := in.(*ssa.IndexAddr); ok && ia.X == ssa.Value(norm.Params[0]) {
				header, body = c.innermostLoop(b)
			}
		}
	}
	key := c.fname(norm) + "/keeps every option"
	if header == nil {
		o.add(UNDECIDED, key, pos, "no loop over the options found")
		return softenUndecided(o.list)
	}
	// (1) exits only from the header
	for b := range body {
		if b == header {
			continue
		}
		for _, s := range b.Succs {
			if !body[s] {
				o.add(VIOLATED, key, relPath(c, b.Instrs[len(b.Instrs)-1].Pos()), "the loop over the options is left from its body (break or return) before the options are exhausted: the remaining sort options - and, if the exit precedes the append, the current one - are dropped")
				return o.list
			}
		}
	}
	// (2) every trip appends
	cut := map[*ssa.BasicBlock]bool{}
	fieldOK := true
	nAppend := 0
	for b := range body {
		for _, in := range b.Instrs {
			call, ok := in.(*ssa.Call)
			if !ok {
				continue
			}
			if bi, ok := call.Common().Value.(*ssa.Builtin); !ok || bi.Name() != "append" {
				continue
			}
			cut[b] = true
			nAppend++
			// the appended element's Field
			for _, og := range origins(call.Common().Args[1]) {
				sl, ok := og.(*ssa.Slice)
				if !ok {
					continue
				}
				al, ok := sl.X.(*ssa.Alloc)
				if !ok {
					continue
				}
				for _, r := range realReferrers(al) {
					ia, ok := r.(*ssa.IndexAddr)
					if !ok {
						continue
					}
					for _, rr := range realReferrers(ia) {
						fa, ok := rr.(*ssa.FieldAddr)
						if !ok {
							continue
						}
						if _, f, _ := fieldOfAddr(fa); f != "Field" {
							continue
						}
						for _, r3 := range realReferrers(fa) {
							if st, ok := r3.(*ssa.Store); ok && st.Addr == ssa.Value(fa) {
								okf := false
								for _, fo := range origins(st.Val) {
									if _, lf, ln := fieldLoad(fo); lf == "Field" && ln != nil && c.libNamedIs(ln, "query", "SortOption") {
										okf = true
									}
								}
								if !okf {
									fieldOK = false
								}
							}
						}
					}
				}
			}
		}
	}
	skip := false
	seen := map[*ssa.BasicBlock]bool{}
	var stack []*ssa.BasicBlock
	for _, s := range header.Succs {
		if body[s] {
			stack = append(stack, s)
		}
	}
	for len(stack) > 0 {
		x := stack[len(stack)-1]
		stack = stack[:len(stack)-1]
		if x == header {
			skip = true
			break
		}
		if seen[x] || cut[x] || !body[x] {
			continue
		}
		seen[x] = true
		stack = append(stack, x.Succs...)
	}
	switch {
	case nAppend == 0:
		o.add(UNDECIDED, key, pos, "no append in the loop over the options")
	case skip:
		o.add(VIOLATED, key, pos, "a trip round the loop over the options can end without appending an option (continue before the append): that sort option is dropped")
	case !fieldOK:
		o.add(VIOLATED, key, pos, "the Field of an appended option is not the Field of the option being visited")
	default:
		o.add(OK, key, pos, "the loop ends only when the options are exhausted, every trip appends one option carrying the visited option's Field")
	}
	return softenUndecided(o.list)
}

// capacityHintOnly: fn returns one integer, has no store effects, and at every static call site
// in the library that integer is used only as the capacity of a make([]T, 0, n) - directly or as
// the result of another such function. Whatever it computes cannot change what an operation returns.
func (c *Ctx) capacityHintOnly(fn *ssa.Function, depth int) bool {
	if depth > 2 || fn == nil || fn.Parent() != nil || fn.Signature.Results().Len() != 1 || !isIntType(fn.Signature.Results().At(0).Type()) {
		return false
	}
	if c.eff(fn)&(EffDocWrite|EffTxSet|EffTxDelete|EffCursor|EffIdxAdd|EffIdxRemove) != 0 {
		return false
	}
	sites := c.staticCallers(fn)
	if len(sites) == 0 {
		return false
	}
	for _, cs := range sites {
		v, ok := cs.(ssa.Value)
		if !ok {
			return false
		}
		refs := realReferrers(v)
		if len(refs) == 0 {
			return false
		}
		for _, r := range refs {
			switch x := r.(type) {
			case *ssa.MakeSlice:
				if x.Cap != v || x.Len == v {
					return false
				}
				if k, isK := constInt(x.Len); !isK || k != 0 {
					return false
				}
			case *ssa.Return:
				if !c.capacityHintOnly(x.Parent(), depth+1) {
					return false
				}
			default:
				return false
			}
		}
	}
	return true
}

// ---------------------------------------------------------------- WIN3

// WIN3: the window is cut in one place. The skip and the limit of a query are applied by
// the window node, which sits behind the filter (and behind the sort): a document counts
// against the skip only after it has passed the criteria. Outside the builder methods of
// package query, the values of Query.GetSkip / Query.GetLimit are therefore used only
// (a) in comparisons (whether a window node is needed, whether the limit is 1), (b) as the
// fields of a freshly built window node, and (c) in the counter shortcut of Count (the
// function that reads the collection's size). A skip handed to the scan ("drop the first n
// index entries without loading them") or arithmetic on it elsewhere moves the start of the
// window in front of a filter that still rejects entries: the window starts too early.
func ruleWIN3(c *Ctx) []Ob {
	o := newObs(c, "WIN3")
	n := 0
	for _, fn := range c.LibFuncs {
		if c.pkgRel(fn) != "" {
			continue
		}
		// the counter shortcut: a function that loads the Size of the collection record
		readsSize := false
		for f := range c.staticReach(rootFunc(fn)) {
			for _, b := range f.Blocks {
				for _, in := range b.Instrs {
					if u, ok := in.(*ssa.UnOp); ok && u.Op == token.MUL {
						if _, isSize := c.isSizeAddr(u.X); isSize {
							readsSize = true
						}
					}
				}
			}
		}
		// the plan builder: a function that makes a window node
		buildsWindow := false
		for _, f := range c.LibFuncs {
			if rootFunc(f) != rootFunc(fn) {
				continue
			}
			for _, b := range f.Blocks {
				for _, in := range b.Instrs {
					if al, ok := in.(*ssa.Alloc); ok {
						if nn, ok := al.Type().Underlying().(*types.Pointer).Elem().(*types.Named); ok && c.nodeKind(nn) == "window" {
							buildsWindow = true
						}
					}
					// or through the constructor of the window node
					if cl, ok := in.(*ssa.Call); ok {
						if tgt := staticCallee(cl); tgt != nil && c.IsLib(c.declared(tgt)) {
							res := tgt.Signature.Results()
							for i := 0; i < res.Len(); i++ {
								if pt, ok := res.At(i).Type().Underlying().(*types.Pointer); ok {
									if nn, ok := pt.Elem().(*types.Named); ok && c.nodeKind(nn) == "window" {
										buildsWindow = true
									}
								}
							}
						}
					}
				}
			}
		}
		k := 0
		hintOnly := c.capacityHintOnly(rootFunc(fn), 0)
		allCalls(fn, func(ci ssa.CallInstruction) {
			call, ok := ci.(*ssa.Call)
			if !ok {
				return
			}
			g := staticCallee(call)
			if g == nil || c.pkgRel(c.declared(g)) != "query" || (g.Name() != "GetSkip" && g.Name() != "GetLimit") {
				return
			}
			n++
			k++
			key := fmt.Sprintf("%s/use of Query.%s #%d", c.fname(fn), g.Name(), k)
			if hintOnly {
				o.add(OK, key, relPath(c, call.Pos()), "inside a function whose result is only ever the capacity of a make([]T, 0, n): it cannot change a result")
				return
			}
			bad := ""
			var follow func(v ssa.Value, depth int)
			follow = func(v ssa.Value, depth int) {
				if depth > 4 || bad != "" {
					return
				}
				for _, r := range realReferrers(v) {
					switch x := r.(type) {
					case *ssa.BinOp:
						switch x.Op {
						case token.EQL, token.NEQ, token.LSS, token.LEQ, token.GTR, token.GEQ:
							// a test: where the plan is built (whether a window node is needed) or the count is
							// answered from the counter. Anywhere else a test of the limit or the skip decides
							// something about the documents - an early stop after `limit` collected documents
							// takes Limit(-5) for "stop at once" where the window node takes it for "no limit"
							answersNumber := false
							if rf := rootFunc(fn); rf.Signature.Results().Len() > 0 && isIntType(rf.Signature.Results().At(0).Type()) {
								answersNumber = true
							}
							if !(readsSize && answersNumber) && !buildsWindow {
								bad = "a test (" + x.Op.String() + ") at " + relPath(c, x.Pos()) + " in a function that neither builds the plan nor answers from the counter"
							}
						default:
							if !readsSize {
								bad = "arithmetic (" + x.Op.String() + ") at " + relPath(c, x.Pos())
							}
						}
					case *ssa.Store:
						if x.Val != v {
							continue
						}
						_, _, named := fieldOfAddr(x.Addr)
						if named != nil && c.nodeKind(named) == "window" {
							continue
						}
						// a field of a struct that is itself a field of the window node (its counters kept together)
						inWindow := false
						for a, i := x.Addr, 0; i < 4; i++ {
							fa, ok := a.(*ssa.FieldAddr)
							if !ok {
								break
							}
							if _, _, nn := fieldOfAddr(fa); nn != nil && c.nodeKind(nn) == "window" {
								inWindow = true
							}
							a = fa.X
						}
						if inWindow {
							continue
						}
						if al, isAlloc := x.Addr.(*ssa.Alloc); isAlloc {
							// a local variable: follow its loads
							for _, lr := range realReferrers(al) {
								if u, ok := lr.(*ssa.UnOp); ok && u.Op == token.MUL {
									follow(u, depth+1)
								}
								// captured by a function literal: the loads of the captured variable in there
								if mc, ok := lr.(*ssa.MakeClosure); ok {
									if lit, ok := mc.Fn.(*ssa.Function); ok {
										for bi, bnd := range mc.Bindings {
											if bnd != ssa.Value(al) || bi >= len(lit.FreeVars) {
												continue
											}
											for _, fr := range realReferrers(lit.FreeVars[bi]) {
												if u, ok := fr.(*ssa.UnOp); ok && u.Op == token.MUL {
													follow(u, depth+1)
												}
											}
										}
									}
								}
							}
							continue
						}
						// the counter shortcut may keep the numbers of its computation in a value of its own
						if named != nil && readsSize {
							if rf := rootFunc(fn); rf.Signature.Results().Len() > 0 && isIntType(rf.Signature.Results().At(0).Type()) {
								continue
							}
						}
						what := "a store"
						if named != nil {
							what = "field of " + named.Obj().Name()
						}
						bad = what + " at " + relPath(c, x.Pos())
					case *ssa.Phi:
						follow(x, depth+1)
					case *ssa.Return:
						if !readsSize {
							bad = "returned at " + relPath(c, x.Pos())
						}
					case ssa.CallInstruction:
						// handed to another function: only the constructor of a window node may take it
						tgt := x.Common().StaticCallee()
						okCtor := false
						if tgt != nil && c.IsLib(c.declared(tgt)) {
							res := tgt.Signature.Results()
							for i := 0; i < res.Len(); i++ {
								if pt, ok := res.At(i).Type().Underlying().(*types.Pointer); ok {
									if nn, ok := pt.Elem().(*types.Named); ok && c.nodeKind(nn) == "window" {
										okCtor = true
									}
								}
							}
						}
						if !okCtor && !readsSize {
							bad = "an argument of " + c.calleeName(x) + " at " + relPath(c, x.Pos())
						}
					case *ssa.If, *ssa.DebugRef:
					case *ssa.Convert:
						follow(x, depth+1)
					case *ssa.MakeInterface:
						bad = "converted to an interface at " + relPath(c, x.Pos())
					}
				}
			}
			follow(call, 0)
			if bad == "" {
				o.add(OK, key, relPath(c, call.Pos()), "used in tests, as a field of the window node, or in the counter shortcut only")
			} else {
				o.add(VIOLATED, key, relPath(c, call.Pos()), "the query's %s is used as %s: skip and limit are applied by the window node behind the filter and the sort; applying them anywhere else (dropping the first n index entries in the scan, adjusting the skip the node gets) counts documents against the window that the filter goes on to reject, so the window starts too early or holds too many documents", strings.TrimPrefix(g.Name(), "Get"), bad)
			}
		})
	}
	if n == 0 {
		o.add(UNDECIDED, "skip/limit", "-", "no use of Query.GetSkip / Query.GetLimit found in the root package")
	}
	return o.list
}
