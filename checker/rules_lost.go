package main

import (
	"fmt"
	"go/token"
	"go/types"
	"sort"
	"strings"

	"golang.org/x/tools/go/ssa"
)

// ---------------------------------------------------------------- LOST1

// LOST1: the effect of a step that works in place is looked at afterwards. A library function
// without results whose whole effect is to rewrite what one of its parameters refers to (the
// expiration of an imported document restored from its text, localized times taken out of a
// decoded map) is called for that effect: when the object it is given belongs to the calling
// function alone - it hangs off a local variable, no other reference to it was handed out - and
// nothing reads that object after the call, the step has been moved behind the last use of the
// object (the document was already built from the map) and its effect is lost.
//
// Decided per call site: the access path of the argument is followed back to its root; roots
// the caller does not own (parameters, globals, captured variables, results of calls) are left
// alone. Every value that may refer to the same memory (derived addresses, loads of pointers,
// results of standard-library calls given one of them) joins the alias set; storing an alias,
// capturing it, or handing it to a library function that keeps or returns its parameter ends the
// analysis (no alarm). A use of a live alias on some path after the call is the observation
// that discharges the obligation; aliases computed from a loop variable die where the variable
// is defined again.
func ruleLOST1(c *Ctx) []Ob {
	o := newObs(c, "LOST1")
	n := 0
	type site struct {
		f    *ssa.Function
		call *ssa.Call
		g    *ssa.Function
		arg  int
	}
	var sites []site
	for _, f := range c.LibFuncs {
		for _, b := range f.Blocks {
			for _, in := range b.Instrs {
				call, ok := in.(*ssa.Call)
				if !ok {
					continue
				}
				g := staticCallee(call)
				if g == nil {
					continue
				}
				g = c.declared(g)
				if !c.IsLib(g) || g.Signature.Results().Len() != 0 {
					continue
				}
				for _, pi := range c.inPlaceParams(g, 0) {
					if pi < len(call.Call.Args) {
						sites = append(sites, site{f, call, g, pi})
					}
				}
			}
		}
	}
	sort.Slice(sites, func(i, j int) bool {
		if c.fname(sites[i].f) != c.fname(sites[j].f) {
			return c.fname(sites[i].f) < c.fname(sites[j].f)
		}
		return sites[i].call.Pos() < sites[j].call.Pos()
	})
	ord := map[string]int{}
	for _, s := range sites {
		base := fmt.Sprintf("%s/effect of %s on its argument is looked at afterwards", c.fname(s.f), c.fname(s.g))
		ord[base]++
		key := base
		if ord[base] > 1 {
			key += fmt.Sprintf(" #%d", ord[base])
		}
		verdict, why := c.lostEffect(s.f, s.call, s.arg)
		switch verdict {
		case "lost":
			n++
			o.add(VIOLATED, key, relPath(c, s.call.Pos()), "%s rewrites what its argument refers to and returns nothing, the object belongs to %s alone (%s), and nothing reads it after the call: the step comes after the last use of the object, its effect is lost", c.fname(s.g), c.fname(s.f), why)
		case "seen":
			n++
			o.add(OK, key, relPath(c, s.call.Pos()), "the object is read after the call (%s)", why)
		default:
			o.add(INFO, key, relPath(c, s.call.Pos()), "not decided here: %s", why)
		}
	}
	if n == 0 {
		o.add(INFO, "in-place steps", "-", "no call of an in-place step on an object the caller owns")
	}
	return o.list
}

// inPlaceParams: the parameters of g (a library function without results) through which g
// rewrites memory, when that is all g does: no interface calls, no goroutines, no stores to
// globals, no calls into os / io / log / sync / net, and every library callee is of the same kind.
func (c *Ctx) inPlaceParams(g *ssa.Function, depth int) []int {
	if c.inPlaceMemo == nil {
		c.inPlaceMemo = map[*ssa.Function][]int{}
		c.inPlaceBusy = map[*ssa.Function]bool{}
	}
	if r, ok := c.inPlaceMemo[g]; ok {
		return r
	}
	if depth > 3 || len(g.Blocks) == 0 || c.inPlaceBusy[g] {
		return nil
	}
	c.inPlaceBusy[g] = true
	defer delete(c.inPlaceBusy, g)
	paramIdx := func(v ssa.Value) int {
		for _, og := range origins(v) {
			og = lostBase(og)
			for i, p := range g.Params {
				if og == ssa.Value(p) {
					return i
				}
			}
		}
		return -1
	}
	written := map[int]bool{}
	pure := true
	for _, b := range g.Blocks {
		for _, in := range b.Instrs {
			switch x := in.(type) {
			case *ssa.MapUpdate:
				if i := paramIdx(x.Map); i >= 0 {
					written[i] = true
				}
			case *ssa.Store:
				if _, isG := lostBase(x.Addr).(*ssa.Global); isG {
					pure = false
				}
				if _, isAlloc := lostBase(x.Addr).(*ssa.Alloc); isAlloc {
					continue
				}
				if i := paramIdx(x.Addr); i >= 0 {
					written[i] = true
				}
			case *ssa.Go, *ssa.Send, *ssa.Defer:
				pure = false
			case *ssa.Call:
				cc := x.Common()
				if cc.IsInvoke() {
					pure = false
					continue
				}
				if bi, ok := cc.Value.(*ssa.Builtin); ok {
					if bi.Name() == "delete" || bi.Name() == "copy" {
						if i := paramIdx(cc.Args[0]); i >= 0 {
							written[i] = true
						}
					}
					continue
				}
				h := staticCallee(x)
				if h == nil {
					pure = false // a function value: nobody knows what it does
					continue
				}
				h = c.declared(h)
				if c.IsLib(h) {
					if h.Signature.Results().Len() == 0 {
						for _, pi := range c.inPlaceParams(h, depth+1) {
							if pi < len(cc.Args) {
								if i := paramIdx(cc.Args[pi]); i >= 0 {
									written[i] = true
								}
							}
						}
						if _, known := c.inPlaceMemo[h]; !known && h != g {
							pure = false
						}
					}
					continue
				}
				if h.Pkg != nil {
					switch h.Pkg.Pkg.Path() {
					case "os", "io", "log", "sync", "net", "bufio", "io/ioutil":
						pure = false
					}
				}
			}
		}
	}
	var out []int
	if pure {
		for i := range g.Params {
			if written[i] && lostRefType(g.Params[i].Type()) {
				out = append(out, i)
			}
		}
	}
	c.inPlaceMemo[g] = out
	return out
}

// lostBase strips address arithmetic and loads: the value an access path starts from.
func lostBase(v ssa.Value) ssa.Value {
	for i := 0; i < 12; i++ {
		switch x := v.(type) {
		case *ssa.FieldAddr:
			v = x.X
		case *ssa.IndexAddr:
			v = x.X
		case *ssa.UnOp:
			if x.Op != token.MUL {
				return v
			}
			v = x.X
		case *ssa.Slice:
			v = x.X
		case *ssa.ChangeType:
			v = x.X
		case *ssa.MakeInterface:
			v = x.X
		default:
			return v
		}
	}
	return v
}

// lostRefType: values of this type may refer to memory shared with others.
func lostRefType(t types.Type) bool {
	if isErrorType(t) {
		return false
	}
	switch u := t.Underlying().(type) {
	case *types.Pointer, *types.Map, *types.Slice, *types.Interface, *types.Chan, *types.Signature:
		return true
	case *types.Struct:
		for i := 0; i < u.NumFields(); i++ {
			if lostRefType(u.Field(i).Type()) {
				return true
			}
		}
	case *types.Tuple:
		for i := 0; i < u.Len(); i++ {
			if lostRefType(u.At(i).Type()) {
				return true
			}
		}
	}
	return false
}

// paramKept: g (a library function) may keep a reference to what its i-th parameter refers to beyond the
// call, or hand it back: the parameter (or something derived from it without going through a call of the
// standard library) is stored, captured, returned, sent, or handed to a function that does so.
func (c *Ctx) paramKept(g *ssa.Function, i int, objType types.Type, depth int) bool {
	if depth > 3 || len(g.Blocks) == 0 || i >= len(g.Params) {
		return true
	}
	type key struct {
		g *ssa.Function
		i int
		t string
	}
	if c.keptMemo == nil {
		c.keptMemo = map[interface{}]bool{}
	}
	ts := ""
	if objType != nil {
		ts = objType.String()
	}
	k := key{g, i, ts}
	// what a type assertion yields is the object only if the object's type passes the assertion
	mayBe := func(ta *ssa.TypeAssert) bool {
		if objType == nil {
			return true
		}
		if it, ok := ta.AssertedType.Underlying().(*types.Interface); ok {
			return types.Implements(objType, it)
		}
		return types.Identical(ta.AssertedType, objType)
	}
	if r, ok := c.keptMemo[k]; ok {
		return r
	}
	c.keptMemo[k] = true // recursion: assume kept
	alias := map[ssa.Value]bool{g.Params[i]: true}
	kept := false
	for changed := true; changed && !kept; {
		changed = false
		for _, b := range g.Blocks {
			for _, in := range b.Instrs {
				uses := false
				for _, op := range in.Operands(nil) {
					if op != nil && *op != nil && alias[*op] {
						uses = true
					}
				}
				if !uses {
					continue
				}
				switch x := in.(type) {
				case *ssa.Store:
					if alias[x.Val] {
						if _, isAlloc := lostBase(x.Addr).(*ssa.Alloc); !isAlloc || alias[lostBase(x.Addr)] {
							kept = true
						} else if a := lostBase(x.Addr); !alias[a] {
							alias[a] = true // a local variable now holds it
							changed = true
						}
					}
				case *ssa.MapUpdate:
					if alias[x.Value] || alias[x.Key] {
						kept = true
					}
				case *ssa.Return, *ssa.Send, *ssa.Go, *ssa.Defer, *ssa.MakeClosure, *ssa.Panic:
					kept = true
				case *ssa.Call:
					cc := x.Common()
					if cc.IsInvoke() {
						kept = true
						continue
					}
					if bi, ok := cc.Value.(*ssa.Builtin); ok {
						if bi.Name() == "append" && lostRefType(x.Type()) {
							if !alias[x] {
								alias[x] = true
								changed = true
							}
						}
						continue
					}
					h := staticCallee(x)
					if h == nil {
						kept = true
						continue
					}
					h = c.declared(h)
					if c.IsLib(h) {
						for ai, a := range cc.Args {
							if alias[a] && c.paramKept(h, ai, objType, depth+1) {
								kept = true
							}
						}
						continue
					}
					// the standard library does not keep its arguments; what it hands back is a new value
				case *ssa.TypeAssert:
					if mayBe(x) && !alias[x] {
						alias[x] = true
						changed = true
					}
				case *ssa.UnOp:
					// what a pointer held in the object points to is another object
					if _, fromLocal := x.X.(*ssa.Alloc); x.Op == token.MUL && objType != nil && !fromLocal {
						if _, isPtr := objType.Underlying().(*types.Pointer); !isPtr {
							continue
						}
					}
					if lostRefType(x.Type()) && !alias[x] {
						alias[x] = true
						changed = true
					}
				default:
					if v, ok := in.(ssa.Value); ok && lostRefType(v.Type()) && !alias[v] {
						alias[v] = true
						changed = true
					}
				}
			}
		}
	}
	c.keptMemo[k] = kept
	return kept
}

// lostEffect decides one call site: "lost", "seen" or "" (not decided), with a reason.
func (c *Ctx) lostEffect(f *ssa.Function, call *ssa.Call, arg int) (string, string) {
	a := call.Call.Args[arg]
	// the chain from the root to the argument
	var chain []ssa.Value
	v := a
	for i := 0; i < 16; i++ {
		chain = append([]ssa.Value{v}, chain...)
		var next ssa.Value
		switch x := v.(type) {
		case *ssa.FieldAddr:
			next = x.X
		case *ssa.IndexAddr:
			next = x.X
		case *ssa.UnOp:
			if x.Op == token.MUL {
				next = x.X
			}
		case *ssa.Slice:
			next = x.X
		case *ssa.ChangeType:
			next = x.X
		case *ssa.MakeInterface:
			next = x.X
		case *ssa.Index:
			next = x.X
		case *ssa.Field:
			next = x.X
		case *ssa.Lookup:
			next = x.X
		}
		if next == nil {
			break
		}
		v = next
	}
	root := chain[0]
	switch r := root.(type) {
	case *ssa.Alloc, *ssa.MakeMap, *ssa.MakeSlice:
	case *ssa.Parameter, *ssa.Global, *ssa.FreeVar:
		return "", "the object comes from a parameter, a global or a captured variable: others can read it"
	default:
		_ = r
		return "", "the root of the argument's access path is not a local variable or a fresh container"
	}
	depthOf := map[ssa.Value]int{}
	for i, cv := range chain {
		depthOf[cv] = i
	}
	// alias closure over the whole function
	for changed := true; changed; {
		changed = false
		for _, b := range f.Blocks {
			for _, in := range b.Instrs {
				if in == ssa.Instruction(call) {
					continue
				}
				d := -1
				for _, op := range in.Operands(nil) {
					if op == nil || *op == nil {
						continue
					}
					if dd, ok := depthOf[*op]; ok && (d < 0 || dd < d) {
						d = dd
					}
				}
				if d < 0 {
					continue
				}
				switch x := in.(type) {
				case *ssa.Store:
					if _, isAlias := depthOf[x.Val]; isAlias {
						if _, into := depthOf[lostBase(x.Addr)]; !into {
							if al, isAlloc := lostBase(x.Addr).(*ssa.Alloc); isAlloc && !al.Heap {
								// a local variable of the caller now holds it
								if _, ok := depthOf[al]; !ok {
									depthOf[al] = d
									changed = true
								}
								continue
							}
							return "", "a reference to the object is stored elsewhere"
						}
					}
				case *ssa.MapUpdate:
					if _, isAlias := depthOf[x.Value]; isAlias {
						if _, into := depthOf[x.Map]; !into {
							return "", "a reference to the object is put into a map"
						}
					}
				case *ssa.MakeClosure, *ssa.Go, *ssa.Defer, *ssa.Send:
					return "", "a reference to the object is captured or handed to a goroutine / deferred call"
				case *ssa.Call:
					cc := x.Common()
					if cc.IsInvoke() {
						return "", "a reference to the object is handed to an interface method"
					}
					if bi, ok := cc.Value.(*ssa.Builtin); ok {
						if bi.Name() == "append" && lostRefType(x.Type()) {
							if _, ok := depthOf[x]; !ok {
								depthOf[x] = d
								changed = true
							}
						}
						continue
					}
					h := staticCallee(x)
					if h == nil {
						return "", "a reference to the object is handed to a function value"
					}
					h = c.declared(h)
					if c.IsLib(h) {
						for ai, av := range cc.Args {
							var objType types.Type
							if bt := stripIfaceOnly(av).Type(); !types.IsInterface(bt) {
								objType = bt
							}
							if _, isAlias := depthOf[av]; isAlias && c.paramKept(h, ai, objType, 0) {
								return "", fmt.Sprintf("a reference to the object is handed to %s, which keeps or returns it", c.fname(h))
							}
						}
						continue
					}
					// standard library: what it hands back may refer to what it was given
					if lostRefType(x.Type()) {
						if _, ok := depthOf[x]; !ok {
							depthOf[x] = d
							changed = true
						}
					}
				default:
					if vv, ok := in.(ssa.Value); ok && lostRefType(vv.Type()) {
						if _, ok := depthOf[vv]; !ok {
							depthOf[vv] = d
							changed = true
						}
					}
				}
			}
		}
	}
	// chain values defined again on a path from the call: everything at or below them is a new object there
	isChainDef := map[ssa.Instruction]int{}
	for i, cv := range chain {
		if in, ok := cv.(ssa.Instruction); ok {
			isChainDef[in] = i
		}
	}
	// search forward from the call; state = number of chain levels still alive
	type pos struct {
		b     *ssa.BasicBlock
		state int
	}
	seen := map[pos]bool{}
	var observed ssa.Instruction
	var walk func(b *ssa.BasicBlock, from int, state int)
	walk = func(b *ssa.BasicBlock, from int, state int) {
		for i := from; i < len(b.Instrs) && observed == nil; i++ {
			in := b.Instrs[i]
			if in == ssa.Instruction(call) {
				continue
			}
			if k, ok := isChainDef[in]; ok {
				if k < state {
					state = k
				}
				continue
			}
			if _, isDbg := in.(*ssa.DebugRef); isDbg {
				continue
			}
			uses := false
			for _, op := range in.Operands(nil) {
				if op == nil || *op == nil {
					continue
				}
				if d, ok := depthOf[*op]; ok && d < state {
					uses = true
				}
			}
			if !uses {
				continue
			}
			// a derivation that yields another alias is followed through that alias; anything else reads
			if vv, ok := in.(ssa.Value); ok {
				if _, isAlias := depthOf[vv]; isAlias {
					switch in.(type) {
					case *ssa.FieldAddr, *ssa.IndexAddr, *ssa.UnOp, *ssa.Slice, *ssa.ChangeType, *ssa.MakeInterface, *ssa.Phi, *ssa.Extract, *ssa.TypeAssert, *ssa.Index, *ssa.Field, *ssa.Lookup, *ssa.Convert:
						continue
					}
				}
			}
			if st, ok := in.(*ssa.Store); ok {
				if _, valAlias := depthOf[st.Val]; !valAlias {
					continue // a write into the object is not a read of it
				}
			}
			observed = in
			return
		}
		if observed != nil {
			return
		}
		for _, s := range b.Succs {
			p := pos{s, state}
			if !seen[p] {
				seen[p] = true
				walk(s, 0, state)
			}
		}
	}
	idx := 0
	for i, in := range call.Block().Instrs {
		if in == ssa.Instruction(call) {
			idx = i
		}
	}
	walk(call.Block(), idx+1, len(chain))
	rootName := "a local variable"
	if al, ok := root.(*ssa.Alloc); ok && al.Comment != "" {
		rootName = "the local variable " + al.Comment
	}
	if observed != nil {
		return "seen", relPath(c, observed.Pos()) + ": " + strings.TrimSpace(observed.String())
	}
	return "lost", "it is reached only through " + rootName
}

// ---------------------------------------------------------------- LOST2

// LOST2: what a function stores into an object is not overwritten, unread, by a decoding into
// that same object. (*time.Time).GobDecode, UnmarshalBinary/JSON/Text, the Unmarshal functions
// given the object as destination replace the whole object: a store into it (the zone of a
// decoded time put right) that is followed on every path by such a call, with no read of the
// object in between and before the function returns, has no effect - the correction was moved
// in front of the decoding it corrects.
func ruleLOST2(c *Ctx) []Ob {
	o := newObs(c, "LOST2")
	n := 0
	decodeName := func(name string) bool {
		switch name {
		case "GobDecode", "UnmarshalBinary", "UnmarshalJSON", "UnmarshalText", "UnmarshalMsgpack", "DecodeMsgpack", "UnmarshalBSON", "Scan":
			return true
		}
		return false
	}
	// covers: a decoding into the object at address r replaces what is stored at address a
	covers := func(r, a ssa.Value) bool {
		for i := 0; i < 6 && a != nil; i++ {
			if samePath(r, a, 0) {
				return true
			}
			fa, ok := a.(*ssa.FieldAddr)
			if !ok {
				return false
			}
			a = fa.X
		}
		return false
	}
	for _, f := range c.LibFuncs {
		// the decoding calls of f and the address each decodes into
		type killer struct {
			call *ssa.Call
			dest ssa.Value
		}
		var killers []killer
		for _, b := range f.Blocks {
			for _, in := range b.Instrs {
				call, ok := in.(*ssa.Call)
				if !ok || call.Call.IsInvoke() {
					continue
				}
				g := staticCallee(call)
				if g == nil {
					continue
				}
				switch {
				case g.Signature.Recv() != nil && decodeName(g.Name()) && len(call.Call.Args) > 0:
					if _, isPtr := call.Call.Args[0].Type().Underlying().(*types.Pointer); isPtr {
						killers = append(killers, killer{call, call.Call.Args[0]})
					}
				case g.Signature.Recv() == nil && g.Name() == "Unmarshal" && len(call.Call.Args) == 2:
					killers = append(killers, killer{call, stripIfaceOnly(call.Call.Args[1])})
				}
			}
		}
		if len(killers) == 0 {
			continue
		}
		k := 0
		for _, b := range f.Blocks {
			for si, in := range b.Instrs {
				st, ok := in.(*ssa.Store)
				if !ok {
					continue
				}
				var mine []killer
				for _, kl := range killers {
					if covers(kl.dest, st.Addr) {
						mine = append(mine, kl)
					}
				}
				if len(mine) == 0 {
					continue
				}
				root := lostBase(st.Addr)
				isKiller := func(in ssa.Instruction) bool {
					for _, kl := range mine {
						if in == ssa.Instruction(kl.call) {
							return true
						}
					}
					return false
				}
				// does some path from the store reach a read of the object, or the end of the function,
				// before a decoding into it?
				live := false
				seen := map[*ssa.BasicBlock]bool{}
				var walk func(b *ssa.BasicBlock, from int)
				walk = func(b *ssa.BasicBlock, from int) {
					for i := from; i < len(b.Instrs) && !live; i++ {
						in := b.Instrs[i]
						if isKiller(in) {
							return
						}
						switch x := in.(type) {
						case *ssa.Return, *ssa.Panic:
							live = true
							return
						case *ssa.FieldAddr, *ssa.IndexAddr, *ssa.DebugRef:
							continue
						case *ssa.Store:
							if lostBase(x.Val) != root {
								continue
							}
						}
						for _, op := range in.Operands(nil) {
							if op != nil && *op != nil && lostBase(*op) == root {
								live = true
								return
							}
						}
					}
					if live {
						return
					}
					if len(b.Succs) == 0 {
						live = true
						return
					}
					for _, s := range b.Succs {
						if !seen[s] {
							seen[s] = true
							walk(s, 0)
						}
					}
				}
				walk(b, si+1)
				n++
				k++
				key := fmt.Sprintf("%s/a store into the object is not overwritten by a decoding into it", c.fname(f))
				if k > 1 {
					key += fmt.Sprintf(" #%d", k)
				}
				if live {
					o.add(OK, key, relPath(c, st.Pos()), "what is stored is read, or the function returns, before any decoding into the object")
				} else {
					o.add(VIOLATED, key, relPath(c, st.Pos()), "every path from this store leads, without a read of the object, to %s, which replaces the whole object: the store (a correction of what is decoded?) comes before the decoding and has no effect", calleeFullName(mine[0].call))
				}
			}
		}
	}
	if n == 0 {
		o.add(INFO, "decodings", "-", "no function both stores into an object and decodes into it")
	}
	return o.list
}
