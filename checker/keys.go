package main

import (
	"fmt"
	"go/token"
	"go/types"
	"sort"
	"strings"

	"golang.org/x/tools/go/ssa"
)

// Key-template evaluator (DESIGN §3 KEY): abstract interpretation of
// string/[]byte valued SSA expressions into sequences of literal and
// variable parts. Nothing is executed.

type partKind int

const (
	pLit   partKind = iota // literal bytes
	pVar                   // opaque, ';'-free text (a collection/field name, a document id, ...)
	pRank                  // decimal type rank (%d of internal.TypeId)
	pEnc                   // output of the order-preserving encoder (self-delimiting)
	pParam                 // parameter of the function being evaluated, not yet bound
	pNil                   // the nil slice
)

type Part struct {
	K partKind
	S string    // literal text, or a label for variables
	V ssa.Value // origin (the value encoded / the variable)
}

type Tmpl []Part

func (t Tmpl) String() string {
	var sb strings.Builder
	for _, p := range t {
		switch p.K {
		case pLit:
			sb.WriteString(fmt.Sprintf("%q", p.S))
		case pVar:
			sb.WriteString("<" + p.S + ">")
		case pRank:
			sb.WriteString("<rank>")
		case pEnc:
			sb.WriteString("<enc>")
		case pParam:
			sb.WriteString("<param " + p.S + ">")
		case pNil:
			sb.WriteString("<nil>")
		}
	}
	return sb.String()
}

// norm merges adjacent literals and drops empty ones.
func (t Tmpl) norm() Tmpl {
	var out Tmpl
	for _, p := range t {
		if p.K == pLit && p.S == "" {
			continue
		}
		if p.K == pNil && len(t) > 1 {
			continue
		}
		if p.K == pLit && len(out) > 0 && out[len(out)-1].K == pLit {
			out[len(out)-1].S += p.S
			continue
		}
		if p.K == pEnc && len(out) > 0 && out[len(out)-1].K == pEnc {
			continue
		}
		out = append(out, p)
	}
	return out
}

// skeleton: literals kept, every run of non-literal parts collapsed to '*'.
func (t Tmpl) skeleton() string {
	var sb strings.Builder
	star := false
	for _, p := range t.norm() {
		if p.K == pLit {
			sb.WriteString(p.S)
			star = false
			continue
		}
		if p.K == pNil {
			continue
		}
		if !star {
			sb.WriteString("*")
			star = true
		}
	}
	return sb.String()
}

func (t Tmpl) hasParam() bool {
	for _, p := range t {
		if p.K == pParam {
			return true
		}
	}
	return false
}

func (t Tmpl) isNil() bool { return len(t) == 1 && t[0].K == pNil }

func (t Tmpl) onlyOpaque() bool {
	for _, p := range t {
		if p.K == pLit {
			return false
		}
	}
	return true
}

const maxTmpls = 96

type keyEvaluator struct {
	// fnBind: function-typed parameters of the callee being inlined, bound to the function value of the call site
	fnBind map[*ssa.Parameter]ssa.Value
	c         *Ctx
	undecide  []string // reasons collected while evaluating
	fieldMemo map[string][]Tmpl
	fieldBusy map[string]bool
	// phiLive, when set, prunes phi edges (specialisation on a boolean parameter)
	phiLive func(phi *ssa.Phi, i int) bool
}

func (c *Ctx) keys() *keyEvaluator {
	if c.keyEval == nil {
		c.keyEval = &keyEvaluator{c: c}
	}
	return c.keyEval
}

type kenv map[*ssa.Parameter][]Tmpl

func concat(a, b []Tmpl) []Tmpl {
	var out []Tmpl
	for _, x := range a {
		for _, y := range b {
			if x.isNil() {
				out = append(out, append(Tmpl{}, y...))
				continue
			}
			if y.isNil() {
				out = append(out, append(Tmpl{}, x...))
				continue
			}
			t := append(append(Tmpl{}, x...), y...)
			out = append(out, t.norm())
			if len(out) > maxTmpls {
				return out
			}
		}
	}
	return out
}

func union(a, b []Tmpl) []Tmpl {
	seen := map[string]bool{}
	var out []Tmpl
	for _, l := range [][]Tmpl{a, b} {
		for _, t := range l {
			s := t.String()
			if !seen[s] {
				seen[s] = true
				out = append(out, t)
			}
		}
	}
	return out
}

func lit(s string) []Tmpl { return []Tmpl{{Part{K: pLit, S: s}}} }

func (k *keyEvaluator) opaque(label string, v ssa.Value) []Tmpl {
	return []Tmpl{{Part{K: pVar, S: label, V: v}}}
}

func (k *keyEvaluator) eval(v ssa.Value, env kenv, depth int, busy map[ssa.Value]bool) []Tmpl {
	if busy[v] {
		return nil
	}
	busy[v] = true
	defer delete(busy, v)

	switch x := v.(type) {
	case *ssa.Const:
		if x.Value == nil {
			return []Tmpl{{Part{K: pNil}}}
		}
		if s, ok := constString(x); ok {
			return lit(s)
		}
		if i, ok := constInt(x); ok {
			return []Tmpl{{Part{K: pLit, S: fmt.Sprint(i), V: x}}}
		}
		return k.opaque("const", v)
	case *ssa.BinOp:
		if x.Op == token.ADD && isStringOrBytes(x.Type()) {
			return concat(k.eval(x.X, env, depth, busy), k.eval(x.Y, env, depth, busy))
		}
		return k.opaque("binop", v)
	case *ssa.Convert:
		if isStringOrBytes(x.Type()) && isStringOrBytes(x.X.Type()) {
			return k.eval(x.X, env, depth, busy)
		}
		return k.opaque("convert", v)
	case *ssa.ChangeType:
		return k.eval(x.X, env, depth, busy)
	case *ssa.MakeInterface:
		return k.eval(x.X, env, depth, busy)
	case *ssa.Phi:
		var out []Tmpl
		for i, e := range x.Edges {
			if k.phiLive != nil && !k.phiLive(x, i) {
				continue
			}
			if phiEdgeKnownNil(x, i) {
				out = union(out, []Tmpl{{Part{K: pNil}}})
				continue
			}
			out = union(out, k.eval(e, env, depth, busy))
		}
		return out
	case *ssa.Parameter:
		if b, ok := env[x]; ok {
			return b
		}
		return []Tmpl{{Part{K: pParam, S: x.Name(), V: x}}}
	case *ssa.FreeVar:
		b := freeVarBinding(x)
		if b == nil {
			return k.opaque("freevar "+x.Name(), v)
		}
		return k.eval(b, nil, depth, busy)
	case *ssa.UnOp:
		if x.Op != token.MUL {
			return k.opaque("unop", v)
		}
		var cell *ssa.Alloc
		switch a := x.X.(type) {
		case *ssa.Alloc:
			cell = a
		case *ssa.FreeVar:
			if b, ok := freeVarBinding(a).(*ssa.Alloc); ok {
				cell = b
			}
		}
		if cell != nil {
			var out []Tmpl
			for _, s := range storesTo(cell) {
				e := env
				if s.Parent() != x.Parent() {
					e = nil
				}
				out = union(out, k.eval(s, e, depth, busy))
			}
			if len(out) == 0 {
				return k.opaque("local "+cell.Comment, v)
			}
			return out
		}
		if base, f, n := fieldLoad(x); base != nil {
			if t, ok := k.fieldContents(n, f, depth); ok {
				return t
			}
			return []Tmpl{{Part{K: pVar, S: "field " + namedName(n) + "." + f, V: v}}}
		}
		if g := globalLoad(x); g != nil {
			return k.opaque("global "+g.Name(), v)
		}
		return k.opaque("load", v)
	case *ssa.Field:
		_, f, n := fieldLoad(x)
		return []Tmpl{{Part{K: pVar, S: "field " + namedName(n) + "." + f, V: v}}}
	case *ssa.Extract:
		if call, ok := x.Tuple.(*ssa.Call); ok {
			return k.evalCall(call, x.Index, env, depth, busy)
		}
		return k.opaque("extract", v)
	case *ssa.Call:
		return k.evalCall(x, 0, env, depth, busy)
	case *ssa.MakeSlice:
		if l, ok := constInt(x.Len); ok && l == 0 {
			return lit("") // make([]byte, 0, n)
		}
		// dst := make([]byte, len(src)); copy(dst, src): a private copy of src
		for _, r := range realReferrers(x) {
			cp, ok := r.(*ssa.Call)
			if !ok {
				continue
			}
			b, isB := cp.Common().Value.(*ssa.Builtin)
			if !isB || b.Name() != "copy" || cp.Common().Args[0] != ssa.Value(x) {
				continue
			}
			src := cp.Common().Args[1]
			if lc, ok := x.Len.(*ssa.Call); ok {
				if lb, ok := lc.Common().Value.(*ssa.Builtin); ok && lb.Name() == "len" && (lc.Common().Args[0] == src || sameOrigin(lc.Common().Args[0], src)) {
					return k.eval(src, env, depth, busy)
				}
			}
		}
		return k.opaque("make", v)
	case *ssa.Slice:
		if x.High != nil {
			if h, ok := constInt(x.High); ok && h == 0 {
				return lit("") // buf[:0]: an empty slice (sharing buf's storage, see ADP4)
			}
		}
		// s[:len(s)] and s[:len(s):len(s)] (capacity clipped): the same bytes
		if x.Low == nil && x.High != nil {
			if lc, ok := x.High.(*ssa.Call); ok {
				if lb, ok := lc.Common().Value.(*ssa.Builtin); ok && lb.Name() == "len" && (lc.Common().Args[0] == x.X || sameOrigin(lc.Common().Args[0], x.X)) {
					return k.eval(x.X, env, depth, busy)
				}
			}
		}
		if x.Low == nil && x.High == nil {
			if al, ok := x.X.(*ssa.Alloc); ok {
				if t, ok := k.arrayLiteral(al, env, depth, busy); ok {
					return t
				}
			}
			return k.eval(x.X, env, depth, busy)
		}
		return k.opaque("slice", v)
	}
	return k.opaque(fmt.Sprintf("%T", v), v)
}

// arrayLiteral evaluates `new [n]byte (varargs)` filled with constant stores.
func (k *keyEvaluator) arrayLiteral(al *ssa.Alloc, env kenv, depth int, busy map[ssa.Value]bool) ([]Tmpl, bool) {
	pt, ok := al.Type().Underlying().(*types.Pointer)
	if !ok {
		return nil, false
	}
	at, ok := pt.Elem().Underlying().(*types.Array)
	if !ok {
		return nil, false
	}
	b, ok := at.Elem().Underlying().(*types.Basic)
	if !ok || b.Kind() != types.Uint8 {
		return nil, false
	}
	bytes := make([]byte, at.Len())
	set := make([]bool, at.Len())
	for _, r := range realReferrers(al) {
		ia, ok := r.(*ssa.IndexAddr)
		if !ok {
			continue
		}
		idx, ok := constInt(ia.Index)
		if !ok {
			return nil, false
		}
		for _, rr := range realReferrers(ia) {
			if st, ok := rr.(*ssa.Store); ok && st.Addr == ssa.Value(ia) {
				cv, ok := constInt(st.Val)
				if !ok {
					return nil, false
				}
				bytes[idx] = byte(cv)
				set[idx] = true
			}
		}
	}
	return lit(string(bytes)), true
}

func (k *keyEvaluator) sprintfArgs(v ssa.Value) ([]ssa.Value, bool) {
	sl, ok := v.(*ssa.Slice)
	if !ok {
		if isNilConst(v) {
			return nil, true
		}
		return nil, false
	}
	al, ok := sl.X.(*ssa.Alloc)
	if !ok {
		return nil, false
	}
	pt := al.Type().Underlying().(*types.Pointer)
	at, ok := pt.Elem().Underlying().(*types.Array)
	if !ok {
		return nil, false
	}
	args := make([]ssa.Value, at.Len())
	for _, r := range realReferrers(al) {
		ia, ok := r.(*ssa.IndexAddr)
		if !ok {
			continue
		}
		idx, ok := constInt(ia.Index)
		if !ok {
			return nil, false
		}
		for _, rr := range realReferrers(ia) {
			if st, ok := rr.(*ssa.Store); ok && st.Addr == ssa.Value(ia) {
				args[idx] = st.Val
			}
		}
	}
	for _, a := range args {
		if a == nil {
			return nil, false
		}
	}
	return args, true
}

func (k *keyEvaluator) evalCall(call *ssa.Call, idx int, env kenv, depth int, busy map[ssa.Value]bool) []Tmpl {
	cc := call.Common()
	if b, ok := cc.Value.(*ssa.Builtin); ok {
		if b.Name() == "append" && len(cc.Args) == 2 {
			return concat(k.eval(cc.Args[0], env, depth, busy), k.eval(cc.Args[1], env, depth, busy))
		}
		return k.opaque("builtin "+b.Name(), call)
	}
	f := staticCallee(call)
	off := 0
	if f == nil && !cc.IsInvoke() {
		// a call through a function-typed parameter that the call site bound to a library function or
		// to a method value (vRange.startKey(idx.getKey) calling enc(r.Start))
		if p, ok := cc.Value.(*ssa.Parameter); ok && k.fnBind != nil {
			if bv := k.fnBind[p]; bv != nil {
				if g := closureFn(bv); g != nil {
					gd := k.c.declared(g)
					if k.c.IsLib(gd) && len(gd.Blocks) > 0 {
						f = gd
						off = len(gd.Params) - len(cc.Args)
						if off < 0 {
							f, off = nil, 0
						}
					}
				}
			}
		}
	}
	if f == nil {
		return k.opaque("call "+calleeFullName(call), call)
	}
	full := calleeFullName(call)
	if off > 0 || (staticCallee(call) == nil) {
		full = k.c.fname(f)
	}
	switch full {
	case "(*bytes.Buffer).Bytes", "(*bytes.Buffer).String", "(*strings.Builder).String":
		if t, ok := k.builderContents(call, env, depth, busy); ok {
			return t
		}
		return k.opaque("buffer", call)
	case "strconv.Itoa", "strconv.FormatInt", "strconv.FormatUint":
		return k.evalArg(cc.Args[0], env, depth, busy)
	case "strconv.AppendInt", "strconv.AppendUint", "strconv.AppendBool", "strconv.AppendQuote", "strconv.AppendFloat":
		return concat(k.eval(cc.Args[0], env, depth, busy), k.evalArg(cc.Args[1], env, depth, busy))
	}
	switch {
	case full == "fmt.Sprintf":
		format, ok := constString(cc.Args[0])
		if !ok {
			return k.opaque("sprintf(non-constant format)", call)
		}
		args, ok := k.sprintfArgs(cc.Args[1])
		if !ok {
			return k.opaque("sprintf(args)", call)
		}
		out := lit("")
		ai := 0
		for i := 0; i < len(format); i++ {
			ch := format[i]
			if ch != '%' {
				out = concat(out, lit(string(ch)))
				continue
			}
			i++
			if i >= len(format) {
				return k.opaque("sprintf(bad format)", call)
			}
			verb := format[i]
			if verb == '%' {
				out = concat(out, lit("%"))
				continue
			}
			if ai >= len(args) {
				return k.opaque("sprintf(missing arg)", call)
			}
			a := args[ai]
			ai++
			switch verb {
			case 's', 'v':
				out = concat(out, k.eval(a, env, depth, busy))
			case 'd':
				inner := stripConv(a)
				if ic, ok := inner.(*ssa.Call); ok && k.isTypeId(ic) {
					out = concat(out, []Tmpl{{Part{K: pRank, V: ic.Common().Args[0]}}})
				} else if p, ok := inner.(*ssa.Parameter); ok {
					if b, ok := env[p]; ok {
						out = concat(out, b)
					} else {
						out = concat(out, []Tmpl{{Part{K: pParam, S: p.Name(), V: p}}})
					}
				} else if ci, ok := constInt(inner); ok {
					out = concat(out, lit(fmt.Sprint(ci)))
				} else {
					out = concat(out, k.opaque("number", a))
				}
			default:
				return k.opaque("sprintf(verb %"+string(verb)+")", call)
			}
		}
		return out
	case k.isOrderedCode(f):
		// buf + order-preserving encoding of the remaining arguments
		var origin ssa.Value
		if len(cc.Args) > 1 {
			origin = cc.Args[1]
		}
		if idx != 0 {
			return k.opaque("enc-err", call)
		}
		return concat(k.eval(cc.Args[0], env, depth, busy), []Tmpl{{Part{K: pEnc, V: origin}}})
	case k.isTypeId(call):
		return []Tmpl{{Part{K: pRank, V: cc.Args[0]}}}
	}
	if !k.c.IsLib(f) || depth > 8 || len(f.Blocks) == 0 {
		return k.opaque("call "+full, call)
	}
	// inline a library callee: bind parameters, evaluate every returned value
	res := f.Signature.Results()
	if idx >= res.Len() || !isStringOrBytes(res.At(idx).Type()) {
		return k.opaque("call "+full, call)
	}
	nenv := kenv{}
	savedBind := k.fnBind
	newBind := map[*ssa.Parameter]ssa.Value{}
	for pk, pv := range savedBind {
		newBind[pk] = pv
	}
	for i, p := range f.Params {
		ai := i - off
		if ai < 0 || ai >= len(cc.Args) {
			continue
		}
		if isStringOrBytes(p.Type()) || isIntType(p.Type()) {
			nenv[p] = k.evalArg(cc.Args[ai], env, depth, busy)
		}
		if _, isSig := p.Type().Underlying().(*types.Signature); isSig {
			// what the caller's own bound parameter stands for is handed on as it is
			if cp, ok := cc.Args[ai].(*ssa.Parameter); ok && savedBind[cp] != nil {
				newBind[p] = savedBind[cp]
			} else {
				newBind[p] = cc.Args[ai]
			}
		}
	}
	k.fnBind = newBind
	var out []Tmpl
	for _, r := range returnsOf(f) {
		rv, ok := returnedValue(r, idx)
		if !ok {
			continue
		}
		out = union(out, k.eval(rv, nenv, depth+1, busy))
	}
	k.fnBind = savedBind
	// drop the nil alternative of error paths when a real key exists
	if len(out) > 1 {
		var nn []Tmpl
		for _, t := range out {
			if !t.isNil() {
				nn = append(nn, t)
			}
		}
		out = nn
	}
	if len(out) == 0 {
		return k.opaque("call "+full, call)
	}
	// a callee that contributes no literal text is kept as one opaque value
	// whose origin is the call (so that rules can identify receiver/arguments)
	allOpaque := true
	for _, t := range out {
		if !t.onlyOpaque() || t.isNil() || t.hasParam() {
			allOpaque = false
		}
	}
	if allOpaque {
		return k.opaque("call "+k.c.fname(f), call)
	}
	return out
}

func (k *keyEvaluator) evalArg(a ssa.Value, env kenv, depth int, busy map[ssa.Value]bool) []Tmpl {
	if isIntType(a.Type()) {
		inner := stripConv(a)
		for {
			// integer width conversions do not change the decimal text
			if cv, ok := inner.(*ssa.Convert); ok && isIntType(cv.X.Type()) {
				inner = stripConv(cv.X)
				continue
			}
			break
		}
		if ic, ok := inner.(*ssa.Call); ok && k.isTypeId(ic) {
			return []Tmpl{{Part{K: pRank, V: ic.Common().Args[0]}}}
		}
		if p, ok := inner.(*ssa.Parameter); ok {
			if b, ok := env[p]; ok {
				return b
			}
			return []Tmpl{{Part{K: pParam, S: p.Name(), V: p}}}
		}
		if ci, ok := constInt(inner); ok {
			return lit(fmt.Sprint(ci))
		}
		return k.opaque("number", a)
	}
	return k.eval(a, env, depth, busy)
}

func isIntType(t types.Type) bool {
	b, ok := t.Underlying().(*types.Basic)
	return ok && b.Info()&types.IsInteger != 0
}

func (k *keyEvaluator) isTypeId(call *ssa.Call) bool {
	f := staticCallee(call)
	return f != nil && f == k.c.lookupFunc("internal", "TypeId")
}

func (k *keyEvaluator) isOrderedCode(f *ssa.Function) bool {
	if f == k.c.lookupFunc("internal", "OrderedCode") {
		return true
	}
	return f.Pkg != nil && f.Pkg.Pkg.Path() == "github.com/google/orderedcode" && f.Name() == "Append"
}

// staticCallers indexes static call sites in the library by callee.
func (c *Ctx) staticCallers(fn *ssa.Function) []ssa.CallInstruction {
	if c.callers == nil {
		c.callers = map[*ssa.Function][]ssa.CallInstruction{}
		for _, f := range c.LibFuncs {
			allCalls(f, func(call ssa.CallInstruction) {
				if g := staticCallee(call); g != nil {
					c.callers[g] = append(c.callers[g], call)
				}
			})
		}
	}
	return c.callers[fn]
}

// evalAt evaluates v as written in its own function and then binds the
// function's parameters at every static call site in the library (to depth 4).
// Parameters of functions without library callers, of exported functions and
// of closures stay variables.
func (k *keyEvaluator) evalAt(v ssa.Value) []Tmpl {
	ts := k.eval(v, nil, 0, map[ssa.Value]bool{})
	return k.expand(ts, 0)
}

func (k *keyEvaluator) expand(ts []Tmpl, depth int) []Tmpl {
	var out []Tmpl
	for _, t := range ts {
		if !t.hasParam() || depth > 4 {
			out = union(out, []Tmpl{k.freeze(t)})
			continue
		}
		// the first unbound parameter decides which function to expand
		var par *ssa.Parameter
		for _, p := range t {
			if p.K == pParam {
				par = p.V.(*ssa.Parameter)
				break
			}
		}
		fn := par.Parent()
		callers := k.c.staticCallers(fn)
		exported := fn.Parent() == nil && fn.Object() != nil && fn.Object().Exported()
		if len(callers) == 0 || fn.Parent() != nil {
			out = union(out, k.expand([]Tmpl{k.freezeFn(t, fn)}, depth))
			continue
		}
		if exported {
			out = union(out, k.expand([]Tmpl{k.freezeFn(t, fn)}, depth))
		}
		for _, site := range callers {
			args := site.Common().Args
			sub := []Tmpl{{}}
			for _, p := range t {
				if p.K == pParam && p.V.(*ssa.Parameter).Parent() == fn {
					pi := paramIndex(fn, p.V.(*ssa.Parameter))
					if pi < 0 || pi >= len(args) {
						sub = concat(sub, []Tmpl{{Part{K: pVar, S: p.S, V: p.V}}})
						continue
					}
					sub = concat(sub, k.evalArg(args[pi], nil, 0, map[ssa.Value]bool{}))
				} else {
					sub = concat(sub, []Tmpl{{p}})
				}
			}
			out = union(out, k.expand(sub, depth+1))
		}
	}
	return out
}

func paramIndex(fn *ssa.Function, p *ssa.Parameter) int {
	for i, q := range fn.Params {
		if q == p {
			return i
		}
	}
	return -1
}

// freeze turns every remaining parameter into a variable.
func (k *keyEvaluator) freeze(t Tmpl) Tmpl {
	out := make(Tmpl, 0, len(t))
	for _, p := range t {
		if p.K == pParam {
			p.K = pVar
		}
		out = append(out, p)
	}
	return out.norm()
}

func (k *keyEvaluator) freezeFn(t Tmpl, fn *ssa.Function) Tmpl {
	out := make(Tmpl, 0, len(t))
	for _, p := range t {
		if p.K == pParam && p.V.(*ssa.Parameter).Parent() == fn {
			p.K = pVar
		}
		out = append(out, p)
	}
	return out.norm()
}

// ---------------------------------------------------------------- sinks

type keySink struct {
	Fn    *ssa.Function
	Call  ssa.CallInstruction
	Op    string // Get Set Delete Seek HasPrefix TrimPrefix
	Arg   ssa.Value
	Tmpls []Tmpl
}

func (s *keySink) isBound() bool {
	return s.Op == "Seek" || s.Op == "HasPrefix" || s.Op == "TrimPrefix"
}

// derivesFromItemKey: v is (a conversion of) the Key field of a store.Item.
func (c *Ctx) derivesFromItemKey(v ssa.Value) bool {
	for _, o := range origins(v) {
		_, f, n := fieldLoad(o)
		if f == "Key" && n != nil && c.libNamedIs(n, "store", "Item") {
			return true
		}
	}
	return false
}

func (c *Ctx) keySinks() []*keySink {
	k := c.keys()
	var sinks []*keySink
	for _, fn := range c.LibFuncs {
		rel := c.pkgRel(fn)
		if strings.HasPrefix(rel, "store/") {
			continue // adapters pass keys through
		}
		allCalls(fn, func(call ssa.CallInstruction) {
			var op string
			var arg ssa.Value
			switch {
			case c.isInvokeOf(call, "store", "Tx", "Get"):
				op, arg = "Get", call.Common().Args[0]
			case c.isInvokeOf(call, "store", "Tx", "Set"):
				op, arg = "Set", call.Common().Args[0]
			case c.isInvokeOf(call, "store", "Tx", "Delete"):
				op, arg = "Delete", call.Common().Args[0]
			case c.isInvokeOf(call, "store", "Cursor", "Seek"):
				op, arg = "Seek", call.Common().Args[0]
			default:
				full := calleeFullName(call)
				if full == "bytes.HasPrefix" && c.derivesFromItemKey(call.Common().Args[0]) {
					op, arg = "HasPrefix", call.Common().Args[1]
				} else if full == "bytes.TrimPrefix" && c.derivesFromItemKey(call.Common().Args[0]) {
					op, arg = "TrimPrefix", call.Common().Args[1]
				}
			}
			if op == "" {
				return
			}
			sinks = append(sinks, &keySink{Fn: fn, Call: call, Op: op, Arg: arg, Tmpls: dropDegenerate(k.evalAt(arg))})
		})
	}
	sort.SliceStable(sinks, func(i, j int) bool {
		return relPath(c, sinks[i].Call.Pos()) < relPath(c, sinks[j].Call.Pos())
	})
	return sinks
}

// segments splits a skeleton at the reserved separator.
func segments(skel string) []string { return strings.Split(skel, ";") }

func litPrefix(seg string) string {
	if i := strings.Index(seg, "*"); i >= 0 {
		return seg[:i]
	}
	return seg
}

// segMayEqual: could two segments (literal text with '*' wildcards that never
// contain ';') denote the same text?
func segMayEqual(a, b string) bool {
	pa, pb := litPrefix(a), litPrefix(b)
	aw, bw := strings.Contains(a, "*"), strings.Contains(b, "*")
	if !aw && !bw {
		return a == b
	}
	if !aw {
		return strings.HasPrefix(a, pb)
	}
	if !bw {
		return strings.HasPrefix(b, pa)
	}
	return strings.HasPrefix(pa, pb) || strings.HasPrefix(pb, pa)
}

// segMayPrefix: could (an instance of) a be a prefix of (an instance of) b?
func segMayPrefix(a, b string) bool {
	pa, pb := litPrefix(a), litPrefix(b)
	if !strings.Contains(a, "*") {
		// a is pure literal
		if strings.Contains(b, "*") {
			return strings.HasPrefix(pb, a) || strings.HasPrefix(a, pb)
		}
		return strings.HasPrefix(b, a)
	}
	return strings.HasPrefix(pa, pb) || strings.HasPrefix(pb, pa)
}

// boundCovers: may a key with skeleton key start with an instance of bound?
func boundCovers(bound, key string) bool {
	bs, ks := segments(bound), segments(key)
	if len(bs) > len(ks) {
		return false
	}
	for i := 0; i < len(bs)-1; i++ {
		if !segMayEqual(bs[i], ks[i]) {
			return false
		}
	}
	return segMayPrefix(bs[len(bs)-1], ks[len(bs)-1])
}

// keysMayCollide: may complete keys of the two skeletons be equal?
func keysMayCollide(a, b string) bool {
	as, bs := segments(a), segments(b)
	if len(as) != len(bs) {
		return false
	}
	for i := range as {
		if !segMayEqual(as[i], bs[i]) {
			return false
		}
	}
	return true
}

// phiEdgeKnownNil: the value arriving on edge i of phi was just found nil by
// the conditional that ends the predecessor block (`if v != nil {..}` join).
func phiEdgeKnownNil(phi *ssa.Phi, i int) bool {
	pred := phi.Block().Preds[i]
	if len(pred.Instrs) == 0 || len(pred.Succs) != 2 {
		return false
	}
	iff, ok := pred.Instrs[len(pred.Instrs)-1].(*ssa.If)
	if !ok {
		return false
	}
	x, tnil, ok := nilTest(iff.Cond)
	if !ok || x != phi.Edges[i] {
		return false
	}
	for j, s := range pred.Succs {
		if s == phi.Block() && pred.Succs[1-j] != phi.Block() {
			return (j == 0) == tnil
		}
	}
	return false
}

// builderContents evaluates buf.Bytes()/String() of a local bytes.Buffer or
// strings.Builder: the Write* calls on the same variable and the library helper
// functions it is passed to (which write to it in turn) must all dominate the
// read and be totally ordered by dominance (straight-line use).
func (k *keyEvaluator) builderContents(read *ssa.Call, env kenv, depth int, busy map[ssa.Value]bool) ([]Tmpl, bool) {
	recv := read.Common().Args[0]
	al, ok := recv.(*ssa.Alloc)
	if !ok {
		return nil, false
	}
	return k.builderEvents(al, read, env, depth, busy)
}

// builderEvents: ordered contents written through the address addr (an Alloc or
// a *Builder parameter). until != nil: only events dominating that instruction.
func (k *keyEvaluator) builderEvents(addr ssa.Value, until ssa.Instruction, env kenv, depth int, busy map[ssa.Value]bool) ([]Tmpl, bool) {
	if depth > 6 {
		return nil, false
	}
	type event struct {
		call   *ssa.Call
		helper *ssa.Function
		pidx   int
	}
	var events []event
	for _, r := range realReferrers(addr) {
		call, ok := r.(*ssa.Call)
		if !ok {
			return nil, false // the address escapes in a way we do not follow
		}
		if ssa.Instruction(call) == until {
			continue
		}
		name := calleeFullName(call)
		isRecv := len(call.Common().Args) > 0 && call.Common().Args[0] == addr && (strings.HasPrefix(name, "(*bytes.Buffer).") || strings.HasPrefix(name, "(*strings.Builder)."))
		switch {
		case isRecv && (strings.HasSuffix(name, ").Write") || strings.HasSuffix(name, ").WriteString") || strings.HasSuffix(name, ").WriteByte") || strings.HasSuffix(name, ").WriteRune")):
			events = append(events, event{call: call})
		case isRecv && (strings.HasSuffix(name, ").Bytes") || strings.HasSuffix(name, ").String") || strings.HasSuffix(name, ").Len") || strings.HasSuffix(name, ").Grow") || strings.HasSuffix(name, ").Cap")):
		case isRecv:
			return nil, false // Reset, Truncate, ...
		default:
			g := staticCallee(call)
			if g == nil || !k.c.IsLib(k.c.declared(g)) {
				return nil, false
			}
			g = k.c.declared(g)
			pidx := -1
			for i, a := range call.Common().Args {
				if a == addr {
					pidx = i
				}
			}
			if pidx < 0 || pidx >= len(g.Params) {
				return nil, false
			}
			events = append(events, event{call: call, helper: g, pidx: pidx})
		}
	}
	for _, e := range events {
		if k.c.inLoop(e.call.Block()) {
			return nil, false
		}
		if until != nil && !instrDominates(e.call, until) {
			return nil, false
		}
		if until == nil {
			// inside a helper: the write must happen on every path
			for _, ret := range returnsOf(e.call.Parent()) {
				if !instrDominates(e.call, ret) {
					return nil, false
				}
			}
		}
	}
	sort.SliceStable(events, func(i, j int) bool { return instrDominates(events[i].call, events[j].call) })
	for i := 0; i+1 < len(events); i++ {
		if !instrDominates(events[i].call, events[i+1].call) {
			return nil, false
		}
	}
	out := lit("")
	for _, e := range events {
		if e.helper != nil {
			nenv := kenv{}
			for i, p := range e.helper.Params {
				if i < len(e.call.Common().Args) && (isStringOrBytes(p.Type()) || isIntType(p.Type())) {
					nenv[p] = k.evalArg(e.call.Common().Args[i], env, depth, busy)
				}
			}
			sub, ok := k.builderEvents(e.helper.Params[e.pidx], nil, nenv, depth+1, busy)
			if !ok {
				return nil, false
			}
			out = concat(out, sub)
			continue
		}
		a := e.call.Common().Args[1]
		if isIntType(a.Type()) {
			if ci, ok := constInt(a); ok {
				out = concat(out, lit(string(rune(ci))))
				continue
			}
			return nil, false
		}
		out = concat(out, k.eval(a, env, depth, busy))
	}
	return out, true
}

// fieldContents resolves a load of struct field n.f (a string/[]byte field of a
// library struct) to what the library ever stores there: every store to that
// field anywhere in the library is evaluated in its own function and its
// parameters expanded at the call sites. ok=false when nothing literal comes out
// (the field then stays an opaque variable).
func (k *keyEvaluator) fieldContents(n *types.Named, f string, depth int) ([]Tmpl, bool) {
	if n == nil || n.Obj().Pkg() == nil || k.c.LibPkgs[n.Obj().Pkg().Path()] == nil || depth > 6 {
		return nil, false
	}
	key := n.Obj().Pkg().Path() + "." + n.Obj().Name() + "." + f
	if k.fieldMemo == nil {
		k.fieldMemo = map[string][]Tmpl{}
		k.fieldBusy = map[string]bool{}
	}
	if t, ok := k.fieldMemo[key]; ok {
		return t, t != nil
	}
	if k.fieldBusy[key] {
		return nil, false
	}
	k.fieldBusy[key] = true
	defer delete(k.fieldBusy, key)
	var out []Tmpl
	found := false
	for _, fn := range k.c.LibFuncs {
		for _, b := range fn.Blocks {
			for _, in := range b.Instrs {
				st, ok := in.(*ssa.Store)
				if !ok || !isStringOrBytes(st.Val.Type()) {
					continue
				}
				_, sf, sn := fieldOfAddr(st.Addr)
				if sf != f || sn == nil || !types.Identical(sn, n) {
					continue
				}
				found = true
				ts := k.expand(k.eval(st.Val, nil, depth+1, map[ssa.Value]bool{}), 0)
				out = union(out, ts)
			}
		}
	}
	literal := false
	for _, t := range out {
		if !t.onlyOpaque() && !t.isNil() {
			literal = true
		}
	}
	if !found || !literal || len(out) > 8 {
		k.fieldMemo[key] = nil
		return nil, false
	}
	k.fieldMemo[key] = out
	return out, true
}

// dropDegenerate removes a template that is another template of the same sink
// with its trailing variable part empty ("c:"<x>";d:" next to "c:"<x>";d:"<id>):
// a variable may be empty anyway, so the shorter one describes no additional
// key; it typically comes from the zero value on the not-found path of a
// helper returning (string, bool).
func dropDegenerate(ts []Tmpl) []Tmpl {
	var out []Tmpl
	for i, t := range ts {
		tn := t.norm()
		degenerate := false
		for j, u := range ts {
			if i == j {
				continue
			}
			un := u.norm()
			if len(un) == len(tn)+1 && (un[len(un)-1].K == pVar || un[len(un)-1].K == pParam) && Tmpl(un[:len(tn)]).skeleton() == tn.skeleton() && len(tn) > 0 && tn[len(tn)-1].K == pLit {
				degenerate = true
			}
		}
		if !degenerate {
			out = append(out, t)
		}
	}
	return out
}
