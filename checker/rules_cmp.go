package main

import (
	"fmt"
	"go/constant"
	"go/token"
	"go/types"
	"sort"
	"strings"

	"golang.org/x/tools/go/ssa"
)

// ---------------------------------------------------------------- canonical types

type canonType struct {
	Name string
	T    types.Type // nil for the nil value
	Rank int        // position in the documented order
}

func (c *Ctx) timeType() types.Type {
	if p := c.Prog.ImportedPackage("time"); p != nil {
		if t := p.Type("Time"); t != nil {
			return t.Type()
		}
	}
	return nil
}

func (c *Ctx) canonTypes() []canonType {
	empty := types.NewInterfaceType(nil, nil)
	return []canonType{
		{"nil", nil, 0},
		{"int64", types.Typ[types.Int64], 1},
		{"uint64", types.Typ[types.Uint64], 1},
		{"float64", types.Typ[types.Float64], 1},
		{"string", types.Typ[types.String], 2},
		{"map[string]interface{}", types.NewMap(types.Typ[types.String], empty), 3},
		{"[]interface{}", types.NewSlice(empty), 4},
		{"bool", types.Typ[types.Bool], 5},
		{"time.Time", c.timeType(), 6},
	}
}

// storedTypes are the dynamic types a stored field can have: the canonical types plus
// []byte, which Normalize passes through unchanged (pinned by clover's own encoding test).
func (c *Ctx) storedTypes() []canonType {
	return append(c.canonTypes(), canonType{"[]byte", types.NewSlice(types.Typ[types.Uint8]), 4})
}

func constIntOf(a aval) (int64, bool) {
	if a.K != aConst || a.C == nil || a.C.Kind() != constant.Int {
		return 0, false
	}
	return constant.Int64Val(a.C)
}

// ---------------------------------------------------------------- CMP1

func ruleCMP1(c *Ctx) []Ob {
	o := newObs(c, "CMP1")
	typeId := c.lookupFunc("internal", "TypeId")
	if typeId == nil {
		o.add(UNDECIDED, "TypeId", "-", "internal.TypeId not found")
		return o.list
	}
	te := c.newTagEval()
	ranks := map[string]int64{}
	pos := relPath(c, typeId.Pos())
	for _, ct := range c.canonTypes() {
		if ct.Name != "nil" && ct.T == nil {
			o.add(UNDECIDED, "rank "+ct.Name, pos, "type not found in the program")
			continue
		}
		outs := te.Eval(typeId, []aval{tagOf(ct.T)}, 0)
		key := "rank " + ct.Name
		if len(outs) != 1 || outs[0].Panic {
			why := "several outcomes"
			if len(outs) > 0 && outs[0].Panic {
				why = outs[0].Why + " at " + relPath(c, outs[0].Pos)
			}
			o.add(UNDECIDED, key, pos, "TypeId(%s) is not a single constant: %s", ct.Name, why)
			continue
		}
		r, ok := constIntOf(outs[0].Vals[0])
		if !ok {
			o.add(UNDECIDED, key, pos, "TypeId(%s) is not decided by type tags and table constants (%s)", ct.Name, outs[0].Vals[0])
			continue
		}
		ranks[ct.Name] = r
		if r < 0 || r > 9 {
			o.add(VIOLATED, key, pos, "rank %d of %s is not a single decimal digit: decimal text order of the index key differs from numeric order", r, ct.Name)
		} else {
			o.add(OK, key, pos, "TypeId(%s) = %d", ct.Name, r)
		}
	}
	cts := c.canonTypes()
	for i, a := range cts {
		for _, b := range cts[i+1:] {
			ra, oka := ranks[a.Name]
			rb, okb := ranks[b.Name]
			if !oka || !okb {
				continue
			}
			key := "order " + a.Name + " vs " + b.Name
			switch {
			case a.Rank == b.Rank && ra != rb:
				o.add(VIOLATED, key, pos, "%s and %s are both numbers but have ranks %d and %d: numbers would no longer compare by value across int/uint/float", a.Name, b.Name, ra, rb)
			case a.Rank < b.Rank && !(ra < rb):
				o.add(VIOLATED, key, pos, "documented order puts %s before %s, the rank table gives %d and %d", a.Name, b.Name, ra, rb)
			default:
				o.add(OK, key, pos, "ranks %d and %d agree with nil < number < string < object < array < bool < time", ra, rb)
			}
		}
	}
	return o.list
}

// ---------------------------------------------------------------- CMP2

func (c *Ctx) comparatorFuncs() map[*ssa.Function]bool {
	set := map[*ssa.Function]bool{}
	var add func(f *ssa.Function)
	add = func(f *ssa.Function) {
		if f == nil || set[f] || !c.IsLib(f) {
			return
		}
		set[f] = true
		allCalls(f, func(call ssa.CallInstruction) {
			if g := staticCallee(call); g != nil {
				add(c.declared(g))
			}
			for _, a := range call.Common().Args {
				if cf := closureFn(a); cf != nil {
					add(cf)
				}
			}
		})
	}
	add(c.lookupFunc("internal", "Compare"))
	add(c.lookupFunc("", "compareDocuments"))
	// less functions handed to sort.Slice & co
	for _, fn := range c.LibFuncs {
		allCalls(fn, func(call ssa.CallInstruction) {
			if strings.HasPrefix(calleeFullName(call), "sort.") {
				for _, a := range call.Common().Args {
					if cf := closureFn(a); cf != nil {
						add(cf)
					}
				}
			}
		})
	}
	return set
}

// boundedInt: an int value known to be small (no overflow when subtracted).
func (c *Ctx) boundedInt(v ssa.Value, depth int) bool {
	if depth > 4 {
		return false
	}
	for _, og := range origins(v) {
		switch x := og.(type) {
		case *ssa.Const:
		case *ssa.Call:
			if b, ok := x.Common().Value.(*ssa.Builtin); ok && (b.Name() == "len" || b.Name() == "cap") {
				continue
			}
			g := staticCallee(x)
			if g == nil || !c.IsLib(g) {
				return false
			}
			for _, ret := range returnsOf(g) {
				rv, ok := returnedValue(ret, 0)
				if !ok || !c.boundedInt(rv, depth+1) {
					return false
				}
			}
		case *ssa.Lookup:
			// table lookup in a package-level constant map (bounded by CMP1)
			if globalLoad(x.X) == nil {
				return false
			}
		case *ssa.Convert:
			if !c.boundedInt(x.X, depth+1) {
				return false
			}
		default:
			return false
		}
	}
	return true
}

func is64(t types.Type, unsigned bool) bool {
	b, ok := t.Underlying().(*types.Basic)
	if !ok {
		return false
	}
	if unsigned {
		return b.Kind() == types.Uint64 || b.Kind() == types.Uint || b.Kind() == types.Uintptr
	}
	return b.Kind() == types.Int64 || b.Kind() == types.Int
}

func ruleCMP2(c *Ctx) []Ob {
	o := newObs(c, "CMP2")
	fset := c.comparatorFuncs()
	var fns []*ssa.Function
	for f := range fset {
		fns = append(fns, f)
	}
	// the functions that make the index keys compare numbers too (by the bytes they produce): a sign
	// conversion on the way into a key wraps the same values
	keyFns := map[*ssa.Function]bool{}
	if oc := c.lookupFunc("internal", "OrderedCode"); oc != nil {
		for f := range c.staticReach(oc) {
			if c.IsLib(f) && !fset[f] {
				keyFns[f] = true
				fns = append(fns, f)
			}
		}
	}
	sort.Slice(fns, func(i, j int) bool { return c.fname(fns[i]) < c.fname(fns[j]) })
	for _, fn := range fns {
		n := 0
		for _, b := range fn.Blocks {
			for _, in := range b.Instrs {
				switch x := in.(type) {
				case *ssa.Call:
					if keyFns[fn] {
						continue // K1: time keys are UnixNano (KEY11's matter)
					}
					if full := calleeFullName(x); full == "(time.Time).UnixNano" {
						n++
						o.add(VIOLATED, c.fname(fn)+"/time compared through UnixNano", relPath(c, x.Pos()), "times are ordered through UnixNano(), which is only defined for instants between 1678 and 2262 and wraps silently outside: year 2300 compares before 2020; compare instants with Before/After/Equal")
					}
				case *ssa.BinOp:
					if x.Op != token.SUB || !isIntType(x.Type()) || keyFns[fn] {
						continue
					}
					n++
					key := fmt.Sprintf("%s/subtraction %s - %s", c.fname(fn), describeValue(c, x.X), describeValue(c, x.Y))
					if c.boundedInt(x.X, 0) && c.boundedInt(x.Y, 0) {
						o.add(OK, key, relPath(c, x.Pos()), "both operands are bounded (len, table rank, 0/1, constant): the difference cannot wrap")
					} else {
						o.add(VIOLATED, key, relPath(c, x.Pos()), "three-way comparison by subtraction of unbounded integers: the difference wraps at the extremes (MinInt64 < 1 becomes false; year 1700 > year 2200) and is truncated by int()")
					}
				case *ssa.Convert:
					from, to := x.X.Type(), x.Type()
					switch {
					case is64(from, true) && is64(to, false):
						n++
						key := c.fname(fn) + "/conversion uint64->int64"
						o.add(VIOLATED, key, relPath(c, x.Pos()), "an unsigned 64-bit value is reinterpreted as signed before being compared: values above MaxInt64 become negative (MaxUint64 > 1 is false)")
					case is64(from, false) && is64(to, true) && !keyFns[fn]:
						n++
						key := c.fname(fn) + "/conversion int64->uint64"
						src := x.X
						nonNeg := guardEdges(fn, func(cond ssa.Value, branch bool) bool {
							bo, ok := cond.(*ssa.BinOp)
							if !ok {
								return false
							}
							k, isK := constInt(bo.Y)
							if !isK || k != 0 || !(bo.X == src || sameOrigin(bo.X, src)) {
								return false
							}
							switch bo.Op {
							case token.LSS:
								return !branch
							case token.GEQ:
								return branch
							}
							return false
						})
						if guardedBy(fn, x.Block(), nonNeg) {
							o.add(OK, key, relPath(c, x.Pos()), "conversion happens only after the value was found non-negative")
						} else {
							o.add(VIOLATED, key, relPath(c, x.Pos()), "a signed value is reinterpreted as unsigned without a sign test: negative numbers compare as huge")
						}
					}
				}
			}
		}
		if n == 0 {
			o.add(OK, c.fname(fn)+"/no wrap-around arithmetic", relPath(c, fn.Pos()), "comparator function contains no integer subtraction or 64-bit sign conversion")
		}
	}
	return o.list
}

// ---------------------------------------------------------------- CMP3

func ruleCMP3(c *Ctx) []Ob {
	o := newObs(c, "CMP3")
	te := c.newTagEval()
	cmp := c.lookupFunc("internal", "Compare")
	oc := c.lookupFunc("internal", "OrderedCode")
	isNum := c.lookupFunc("util", "IsNumber")
	cts := c.canonTypes()
	if cmp == nil || oc == nil || isNum == nil {
		o.add(UNDECIDED, "model", "-", "internal.Compare / internal.OrderedCode / util.IsNumber not found")
		return o.list
	}
	pos := relPath(c, cmp.Pos())
	for _, a := range c.storedTypes() {
		for _, b := range c.storedTypes() {
			key := "Compare(" + a.Name + ", " + b.Name + ")"
			outs := te.Eval(cmp, []aval{tagOf(a.T), tagOf(b.T)}, 0)
			bad := ""
			for _, oc := range outs {
				if oc.Panic {
					bad = fmt.Sprintf("%s at %s", oc.Why, relPath(c, oc.Pos))
				}
			}
			if bad != "" {
				o.add(VIOLATED, key, pos, "dispatch on dynamic types reaches a panic: %s", bad)
				continue
			}
			if a.Rank != b.Rank {
				// different type classes: the result must be a constant of the right sign
				okSign := len(outs) > 0
				for _, oc := range outs {
					r, ok := constIntOf(oc.Vals[0])
					if !ok || (a.Rank < b.Rank) != (r < 0) || r == 0 {
						okSign = false
					}
				}
				if !okSign {
					o.add(VIOLATED, key, pos, "values of different type classes are not ordered by the rank table alone")
					continue
				}
			}
			o.add(OK, key, pos, "every path of the type dispatch ends in a return (%d abstract outcomes)", len(outs))
		}
	}
	for _, a := range cts {
		key := "OrderedCode(" + a.Name + ")"
		outs := te.Eval(oc, []aval{{}, tagOf(a.T)}, 0)
		bad := ""
		for _, x := range outs {
			if x.Panic {
				bad = fmt.Sprintf("%s at %s", x.Why, relPath(c, x.Pos))
			}
		}
		if bad != "" {
			o.add(VIOLATED, key, relPath(c, oc.Pos()), "key encoding of a %s reaches a panic: %s", a.Name, bad)
		} else {
			o.add(OK, key, relPath(c, oc.Pos()), "key encoding dispatch handles the type (%d abstract outcomes)", len(outs))
		}
		// number classification
		outs = te.Eval(isNum, []aval{tagOf(a.T)}, 0)
		key = "IsNumber(" + a.Name + ")"
		want := a.Rank == 1
		good := len(outs) == 1 && !outs[0].Panic && outs[0].Vals[0].K == aConst && outs[0].Vals[0].C != nil &&
			outs[0].Vals[0].C.Kind() == constant.Bool && constant.BoolVal(outs[0].Vals[0].C) == want
		if good {
			o.add(OK, key, relPath(c, isNum.Pos()), "= %v", want)
		} else {
			o.add(VIOLATED, key, relPath(c, isNum.Pos()), "number classification of %s is not %v", a.Name, want)
		}
	}
	return o.list
}

// ---------------------------------------------------------------- CMP4

func (c *Ctx) isDocGetCall(v ssa.Value) bool {
	call, ok := v.(*ssa.Call)
	if !ok {
		return false
	}
	g := staticCallee(call)
	return g != nil && c.declared(g) == c.lookupMethod("document", "Document", "Get")
}

func (c *Ctx) isNormalizeResult(v ssa.Value) bool {
	ex, ok := v.(*ssa.Extract)
	if !ok || ex.Index != 0 {
		return false
	}
	call, ok := ex.Tuple.(*ssa.Call)
	if !ok {
		return false
	}
	g := staticCallee(call)
	return g != nil && c.declared(g) == c.lookupFunc("internal", "Normalize")
}

func (c *Ctx) normalisedValue(v ssa.Value, depth int) (bool, string) {
	if depth > 5 {
		return false, "too deep"
	}
	for _, og := range origins(v) {
		switch {
		case c.isDocGetCall(og) || c.isNormalizeResult(og):
			continue
		}
		switch x := og.(type) {
		case *ssa.UnOp:
			// element of a slice: *(&s[i])
			if x.Op == token.MUL {
				if ia, ok := x.X.(*ssa.IndexAddr); ok {
					if ok, why := c.normalisedValue(ia.X, depth+1); ok {
						continue
					} else {
						return false, "element of a slice that is " + why
					}
				}
				if _, f, n := fieldLoad(x); f != "" {
					return false, "the raw " + namedName(n) + "." + f
				}
			}
			return false, "a loaded value of unknown provenance"
		case *ssa.Extract:
			if ta, ok := x.Tuple.(*ssa.TypeAssert); ok {
				if ok, why := c.normalisedValue(ta.X, depth+1); ok {
					continue
				} else {
					return false, why
				}
			}
			if _, ok := x.Tuple.(*ssa.Next); ok {
				return false, "a map/range element of unknown provenance"
			}
			// a library wrapper whose result is what Normalize returned (operand(doc, v) = Normalize(resolve(doc, v)))
			if call, ok := x.Tuple.(*ssa.Call); ok {
				if g := staticCallee(call); g != nil && c.IsLib(c.declared(g)) && len(c.declared(g).Blocks) > 0 {
					g = c.declared(g)
					all, n := true, 0
					for _, ret := range returnsOf(g) {
						rv, has := returnedValue(ret, x.Index)
						if !has {
							continue
						}
						if isNilConst(rv) {
							continue // the failure return
						}
						n++
						if ok, _ := c.normalisedValue(rv, depth+1); !ok {
							all = false
						}
					}
					if all && n > 0 {
						continue
					}
				}
			}
			return false, "result of a call that is not Normalize"
		case *ssa.TypeAssert:
			if ok, why := c.normalisedValue(x.X, depth+1); ok {
				continue
			} else {
				return false, why
			}
		case *ssa.Call:
			return false, "the result of " + c.calleeName(x) + " (may be the raw literal)"
		case *ssa.Parameter:
			// an unexported helper's parameter: what its call sites in the library pass
			g := x.Parent()
			sites := c.staticCallers(g)
			if g.Parent() == nil && g.Object() != nil && !g.Object().Exported() && len(sites) > 0 {
				idx := paramIndex(g, x)
				allOK := idx >= 0
				why := ""
				for _, cs := range sites {
					if idx < 0 || idx >= len(cs.Common().Args) {
						allOK = false
						continue
					}
					if ok, w := c.normalisedValue(cs.Common().Args[idx], depth+1); !ok {
						allOK, why = false, w
					}
				}
				if allOK {
					continue
				}
				return false, "the parameter " + x.Name() + ", which a call site binds to " + why
			}
			return false, "the raw parameter " + x.Name()
		case *ssa.Const:
			continue
		case *ssa.Slice:
			// a slice literal: every element stored into its backing array
			if al, ok := x.X.(*ssa.Alloc); ok && al.Referrers() != nil {
				allOK, why, cnt := true, "", 0
				for _, r := range *al.Referrers() {
					ia, ok := r.(*ssa.IndexAddr)
					if !ok || ia.Referrers() == nil {
						continue
					}
					for _, rr := range *ia.Referrers() {
						if st, ok := rr.(*ssa.Store); ok && st.Addr == ssa.Value(ia) {
							cnt++
							if ok, w := c.normalisedValue(st.Val, depth+1); !ok {
								allOK, why = false, w
							}
						}
					}
				}
				if allOK && cnt > 0 {
					continue
				}
				return false, "a slice literal holding " + why
			}
			return false, "a re-slice of unknown provenance"
		default:
			return false, fmt.Sprintf("a %T", og)
		}
	}
	return true, ""
}

func ruleCMP4(c *Ctx) []Ob {
	o := newObs(c, "CMP4")
	cmp := c.lookupFunc("internal", "Compare")
	for _, fn := range c.LibFuncs {
		if c.pkgRel(fn) != "query" {
			continue
		}
		allCalls(fn, func(call ssa.CallInstruction) {
			if g := staticCallee(call); g == nil || c.declared(g) != cmp {
				return
			}
			key := c.fname(fn) + "/Compare operands"
			pos := relPath(c, call.Pos())
			bad := ""
			for _, a := range call.Common().Args {
				if ok, why := c.normalisedValue(a, 0); !ok {
					bad = why
				}
			}
			if bad != "" {
				o.add(VIOLATED, key, pos, "an operand of internal.Compare is %s: a literal supplied as int/int32/float32/... is compared un-normalised (different result per Go numeric type, and `panic: not a number` in the numeric branch)", bad)
			} else {
				o.add(OK, key, pos, "both operands are document values or results of internal.Normalize")
			}
		})
	}
	return o.list
}

// ---------------------------------------------------------------- CMP5

func (c *Ctx) reflectKind(name string) (int64, bool) {
	p := c.Prog.ImportedPackage("reflect")
	if p == nil {
		return 0, false
	}
	cst, ok := p.Pkg.Scope().Lookup(name).(*types.Const)
	if !ok {
		return 0, false
	}
	return constantInt(cst)
}

func isCanonicalStatic(c *Ctx, t types.Type) bool {
	for _, ct := range c.canonTypes() {
		if ct.T != nil && types.Identical(t, ct.T) {
			return true
		}
	}
	return false
}

// classifyNormalizeReturn: "canon:<type>" | "nil" | "passthrough:<what>" | "bad:<type>"
func (c *Ctx) classifyNormalizeReturn(v ssa.Value, depth int) []string {
	var out []string
	if depth > 4 {
		return []string{"bad:too deep"}
	}
	for _, og := range origins(v) {
		switch x := og.(type) {
		case *ssa.Parameter:
			// the input itself: a pass-through when it happens under a successful type assertion on it
			fn := x.Parent()
			okEdges := guardEdges(fn, func(cond ssa.Value, branch bool) bool {
				ex, isEx := cond.(*ssa.Extract)
				if !isEx || ex.Index != 1 || !branch {
					return false
				}
				ta, isTA := ex.Tuple.(*ssa.TypeAssert)
				return isTA && ta.CommaOk && ta.X == ssa.Value(x)
			})
			guarded := false
			if in, isInstr := v.(ssa.Instruction); isInstr {
				guarded = guardedBy(fn, in.Block(), okEdges)
			}
			for _, ret := range returnsOf(fn) {
				if rv, ok := returnedValue(ret, 0); ok && (rv == v || sameOrigin(rv, v)) && guardedBy(fn, ret.Block(), okEdges) {
					guarded = true
				}
			}
			if guarded {
				out = append(out, "passthrough:input matching a type assertion")
			} else {
				out = append(out, "bad:"+typeString(x.Type())+" (the input, returned unconverted)")
			}
			continue
		case *ssa.Const:
			if isNilConst(x) {
				out = append(out, "nil")
			} else {
				out = append(out, "bad:constant")
			}
			continue
		case *ssa.Call:
			full := calleeFullName(x)
			if full == "(reflect.Value).Interface" {
				out = append(out, "passthrough:reflect.Value.Interface()")
				continue
			}
			if full == "(reflect.Value).Bytes" {
				// exactly []byte, and only defined for slices (and addressable arrays): needs a Kind() == Slice guard
				if c.kindGuarded(x, "Slice") {
					out = append(out, "passthrough-bytes:reflect.Value.Bytes() under Kind() == Slice")
				} else {
					out = append(out, "bad:[]byte from reflect.Value.Bytes() without a Kind() == Slice test (panics on an array that is not addressable)")
				}
				continue
			}
			if isCanonicalStatic(c, x.Type()) {
				out = append(out, "canon:"+typeString(x.Type()))
				continue
			}
			out = append(out, "bad:"+typeString(x.Type())+" from "+c.calleeName(x))
			continue
		case *ssa.Extract:
			if call, ok := x.Tuple.(*ssa.Call); ok {
				g := staticCallee(call)
				if g != nil && c.IsLib(c.declared(g)) {
					if isCanonicalStatic(c, x.Type()) {
						// a typed nil map/slice handed back as a successful result is not the canonical (non-nil) container
						nilRes := false
						gd := c.declared(g)
						if ei := errResultIndex(gd.Signature); ei >= 0 {
							for _, ret := range returnsOf(gd) {
								rv, ok1 := returnedValue(ret, x.Index)
								ev, ok2 := returnedValue(ret, ei)
								if ok1 && ok2 && isNilConst(rv) && !c.provablyNonNil(gd, ev, ret.Block()) {
									nilRes = true
								}
							}
						}
						if nilRes {
							out = append(out, "nil-result:"+c.fname(gd))
						}
						out = append(out, "canon:"+typeString(x.Type()))
						continue
					}
					g = c.declared(g)
					for _, ret := range returnsOf(g) {
						if rv, ok := returnedValue(ret, x.Index); ok {
							if isNilConst(rv) {
								// nil next to an error is the failure path; nil next to a nil error is a result
								ei := errResultIndex(g.Signature)
								if ei < 0 {
									out = append(out, "nil") // no error result: a plain nil (nil pointer input, "not handled here")
									continue
								}
								if ev, ok := returnedValue(ret, ei); ok && c.provablyNonNil(g, ev, ret.Block()) {
									out = append(out, "nilerr")
									continue
								}
								out = append(out, "nil-result:"+c.fname(g))
								continue
							}
							out = append(out, c.classifyNormalizeReturn(rv, depth+1)...)
						}
					}
					continue
				}
			}
			if _, ok := x.Tuple.(*ssa.TypeAssert); ok {
				out = append(out, "passthrough:type-switch binding "+typeString(x.Type()))
				continue
			}
			if call, ok := x.Tuple.(*ssa.Call); ok && staticCallee(call) == nil && !call.Call.IsInvoke() {
				// a function taken from the kind table: any of its entries
				if tbl := c.kindTableOf(call.Call.Value); len(tbl) > 0 {
					var fs []*ssa.Function
					seenF := map[*ssa.Function]bool{}
					for _, f := range tbl {
						if !seenF[f] {
							seenF[f] = true
							fs = append(fs, f)
						}
					}
					sort.Slice(fs, func(i, j int) bool { return c.fname(fs[i]) < c.fname(fs[j]) })
					for _, f := range fs {
						for _, ret := range returnsOf(f) {
							if rv, ok := returnedValue(ret, x.Index); ok {
								if isNilConst(rv) {
									if ei := errResultIndex(f.Signature); ei >= 0 {
										if ev, ok := returnedValue(ret, ei); ok && c.provablyNonNil(f, ev, ret.Block()) {
											out = append(out, "nilerr")
											continue
										}
									}
									out = append(out, "nil-result:"+c.fname(f))
									continue
								}
								out = append(out, c.classifyNormalizeReturn(rv, depth+1)...)
							}
						}
					}
					continue
				}
			}
		}
		if isCanonicalStatic(c, og.Type()) {
			out = append(out, "canon:"+typeString(og.Type()))
		} else if in, isInstr := og.(ssa.Instruction); isInstr && isFreshBytes(og) && c.kindGuarded(in, "Slice") {
			// a []byte made here (the empty slice standing for a nil one) on the byte-slice path
			out = append(out, "passthrough-bytes:fresh []byte under Kind() == Slice")
		} else {
			out = append(out, "bad:"+typeString(og.Type()))
		}
	}
	return out
}

// isFreshBytes: v is a []byte allocated at this point (make([]byte, n) or a []byte{...} literal).
func isFreshBytes(v ssa.Value) bool {
	sl, ok := v.Type().Underlying().(*types.Slice)
	if !ok {
		return false
	}
	if b, ok := sl.Elem().Underlying().(*types.Basic); !ok || b.Kind() != types.Uint8 {
		return false
	}
	switch x := v.(type) {
	case *ssa.MakeSlice:
		return true
	case *ssa.Slice:
		_, isAlloc := x.X.(*ssa.Alloc)
		return isAlloc
	}
	return false
}

// kindTableOf: when v is an entry looked up in a package-level table keyed by reflect.Kind
// (a map or an array filled with functions), the table: kind constant -> function.
func (c *Ctx) kindTableOf(v ssa.Value) map[int64]*ssa.Function {
	for _, og := range origins(v) {
		var container ssa.Value
		var keyT types.Type
		switch x := og.(type) {
		case *ssa.Lookup:
			container = x.X
			if m, ok := x.X.Type().Underlying().(*types.Map); ok {
				keyT = m.Key()
			}
		case *ssa.Extract:
			if lk, ok := x.Tuple.(*ssa.Lookup); ok && x.Index == 0 {
				container = lk.X
				if m, ok := lk.X.Type().Underlying().(*types.Map); ok {
					keyT = m.Key()
				}
			}
		case *ssa.UnOp:
			if ia, ok := x.X.(*ssa.IndexAddr); ok && x.Op == token.MUL {
				container = ia.X
				keyT = ia.Index.Type()
			}
		}
		if container == nil || keyT == nil || !namedIs(keyT, "reflect", "Kind") {
			continue
		}
		var g *ssa.Global
		for _, co := range origins(container) {
			if u, ok := co.(*ssa.UnOp); ok && u.Op == token.MUL {
				co = u.X
			}
			if gg, ok := co.(*ssa.Global); ok {
				g = gg
			}
		}
		if g == nil {
			continue
		}
		tbl := map[int64]*ssa.Function{}
		var fnOf func(v ssa.Value) *ssa.Function
		fnOf = func(v ssa.Value) *ssa.Function {
			switch f := v.(type) {
			case *ssa.ChangeType:
				return fnOf(f.X)
			case *ssa.Function:
				return c.declared(f)
			case *ssa.MakeClosure:
				if ff, ok := f.Fn.(*ssa.Function); ok {
					return ff
				}
			}
			return nil
		}
		for _, fn := range c.LibFuncs {
			for _, b := range fn.Blocks {
				for _, in := range b.Instrs {
					st, ok := in.(*ssa.Store)
					if !ok {
						continue
					}
					if st.Addr == ssa.Value(g) {
						// the container stored into the table variable: its constant-key entries
						if refs := st.Val.Referrers(); refs != nil {
							for _, r := range *refs {
								if mu, ok := r.(*ssa.MapUpdate); ok && mu.Map == st.Val {
									if k, ok := constInt(mu.Key); ok {
										if f := fnOf(mu.Value); f != nil {
											tbl[k] = f
										}
									}
								}
							}
						}
					}
					if ia, ok := st.Addr.(*ssa.IndexAddr); ok && ia.X == ssa.Value(g) {
						if k, ok := constInt(ia.Index); ok {
							if f := fnOf(st.Val); f != nil {
								tbl[k] = f
							}
						}
					}
				}
			}
		}
		if len(tbl) > 0 {
			return tbl
		}
	}
	return nil
}

// kindTable: the kind table consulted by a dynamic call in what `from` reaches, if any.
func (c *Ctx) kindTable(from *ssa.Function) map[int64]*ssa.Function {
	var fns []*ssa.Function
	for f := range c.staticReach(from) {
		fns = append(fns, f)
	}
	sort.Slice(fns, func(i, j int) bool { return c.fname(fns[i]) < c.fname(fns[j]) })
	for _, f := range fns {
		var tbl map[int64]*ssa.Function
		allCalls(f, func(ci ssa.CallInstruction) {
			if tbl == nil && !ci.Common().IsInvoke() && ci.Common().StaticCallee() == nil {
				tbl = c.kindTableOf(ci.Common().Value)
			}
		})
		if tbl != nil {
			return tbl
		}
	}
	return nil
}

// kindGuarded reports whether instruction in runs only where some reflect.Kind was found equal to reflect.<kind>.
func (c *Ctx) kindGuarded(in ssa.Instruction, kind string) bool {
	kv, ok := c.reflectKind(kind)
	if !ok {
		return false
	}
	fn := in.Parent()
	es := guardEdges(fn, func(cond ssa.Value, branch bool) bool {
		b, ok := cond.(*ssa.BinOp)
		if !ok {
			return false
		}
		k, isC := constInt(b.Y)
		if !isC || k != kv {
			return false
		}
		if n, ok := b.X.Type().(*types.Named); !ok || n.Obj().Pkg() == nil || n.Obj().Pkg().Path() != "reflect" || n.Obj().Name() != "Kind" {
			return false
		}
		return (b.Op == token.EQL && branch) || (b.Op == token.NEQ && !branch)
	})
	return guardedBy(fn, in.Block(), es)
}

func ruleCMP5(c *Ctx) []Ob {
	o := newObs(c, "CMP5")
	norm := c.lookupFunc("internal", "Normalize")
	if norm == nil {
		o.add(UNDECIDED, "Normalize", "-", "internal.Normalize not found")
		return o.list
	}
	// kind switch: which reflect.Kind constants guard which return. The switch is in
	// Normalize or in a helper whose result Normalize returns.
	kindFn := norm
	{
		countKinds := func(f *ssa.Function) int {
			n := 0
			ifEdges(f, func(cond ssa.Value, e edge) {
				if b, ok := cond.(*ssa.BinOp); ok && b.Op == token.EQL && e.Branch {
					if nn, ok := b.X.Type().(*types.Named); ok && nn.Obj().Pkg() != nil && nn.Obj().Pkg().Path() == "reflect" && nn.Obj().Name() == "Kind" {
						n++
					}
				}
			})
			return n
		}
		seen := map[*ssa.Function]bool{}
		var find func(f *ssa.Function, depth int) *ssa.Function
		find = func(f *ssa.Function, depth int) *ssa.Function {
			if f == nil || seen[f] || depth > 3 || len(f.Blocks) == 0 {
				return nil
			}
			seen[f] = true
			if countKinds(f) >= 5 {
				return f
			}
			for _, ret := range returnsOf(f) {
				rv, ok := returnedValue(ret, 0)
				if !ok {
					continue
				}
				for _, og := range origins(rv) {
					var call *ssa.Call
					switch x := og.(type) {
					case *ssa.Call:
						call = x
					case *ssa.Extract:
						call, _ = x.Tuple.(*ssa.Call)
					}
					if call == nil {
						continue
					}
					if g := staticCallee(call); g != nil && c.IsLib(g) {
						if r := find(g, depth+1); r != nil {
							return r
						}
					}
				}
			}
			return nil
		}
		if f := find(norm, 0); f != nil {
			kindFn = f
		}
	}
	kindEdges := map[int64][]edge{}
	ifEdges(kindFn, func(cond ssa.Value, e edge) {
		b, ok := cond.(*ssa.BinOp)
		if !ok || b.Op != token.EQL || !e.Branch {
			return
		}
		k, ok := constInt(b.Y)
		if !ok {
			return
		}
		if n, ok := b.X.Type().(*types.Named); !ok || n.Obj().Pkg() == nil || n.Obj().Pkg().Path() != "reflect" || n.Obj().Name() != "Kind" {
			return
		}
		kindEdges[k] = append(kindEdges[k], e)
	})
	want := map[string]string{
		"Int": "int64", "Int8": "int64", "Int16": "int64", "Int32": "int64", "Int64": "int64",
		"Uint": "uint64", "Uint8": "uint64", "Uint16": "uint64", "Uint32": "uint64", "Uint64": "uint64", "Uintptr": "uint64",
		"Float32": "float64", "Float64": "float64", "String": "string", "Bool": "bool",
		"Struct": "map[string]interface{}", "Map": "map[string]interface{}",
		"Slice": "[]interface{}", "Array": "[]interface{}",
	}
	var kinds []string
	for k := range want {
		kinds = append(kinds, k)
	}
	sort.Strings(kinds)
	for _, kn := range kinds {
		kv, ok := c.reflectKind(kn)
		key := "kind " + kn
		if !ok {
			o.add(UNDECIDED, key, "-", "reflect.%s not found", kn)
			continue
		}
		es := kindEdges[kv]
		tableFn := c.kindTable(norm)[kv]
		if len(es) == 0 && tableFn == nil {
			o.add(VIOLATED, key, relPath(c, kindFn.Pos()), "Normalize (%s) has no case for reflect.%s: such values are rejected or fall through un-normalised", c.fname(kindFn), kn)
			continue
		}
		found := false
		caseFn := kindFn
		if len(es) == 0 {
			caseFn = tableFn // the dispatch is a table from kinds to functions: the entry's returns are the case
		}
		for _, ret := range returnsOf(caseFn) {
			hit := caseFn == tableFn && len(es) == 0
			for _, e := range es {
				if e.to() == ret.Block() || e.to().Dominates(ret.Block()) {
					hit = true
				}
			}
			if !hit {
				continue
			}
			rv, ok := returnedValue(ret, 0)
			if !ok {
				continue
			}
			found = true
			cls := c.classifyNormalizeReturn(rv, 0)
			bad := ""
			for _, cl := range cls {
				switch {
				case cl == "nilerr":
				case strings.HasPrefix(cl, "nil-result:"):
					bad = "nil (returned as a result, with a nil error, by " + strings.TrimPrefix(cl, "nil-result:") + ")"
				case cl == "nil":
				case strings.HasPrefix(cl, "canon:"):
					if strings.TrimPrefix(cl, "canon:") != want[kn] {
						bad = cl
					}
				case strings.HasPrefix(cl, "passthrough-bytes:") && kn == "Slice":
					// []byte pass-through pinned by clover's own TestNormalize
				case strings.HasPrefix(cl, "passthrough-bytes:") && kn == "Array":
					// the pass-through is guarded by Kind() == Slice: not taken for arrays
				case strings.HasPrefix(cl, "passthrough:") && (kn == "Slice" || kn == "Array"):
					bad = "the value itself (reflect.Value.Interface()): a byte array [N]uint8 or a named byte-slice type is stored as is, which is neither a generic slice nor the []byte clover's own test pins, and changes type when the document is stored and read back"
				default:
					bad = cl
				}
			}
			if bad != "" {
				o.add(VIOLATED, key, relPath(c, ret.Pos()), "a value of kind %s is normalised to %s, the canonical type is %s", kn, strings.TrimPrefix(strings.TrimPrefix(bad, "bad:"), "canon:"), want[kn])
			} else {
				o.add(OK, key, relPath(c, ret.Pos()), "kind %s -> %s", kn, want[kn])
			}
		}
		if !found {
			o.add(UNDECIDED, key, relPath(c, kindFn.Pos()), "no return is tied to the case for reflect.%s", kn)
		}
	}
	// every return of Normalize and helpers: canonical, nil, or a listed pass-through
	pass := 0
	for _, ret := range returnsOf(norm) {
		rv, ok := returnedValue(ret, 0)
		if !ok {
			continue
		}
		for _, cl := range c.classifyNormalizeReturn(rv, 0) {
			key := "Normalize/return " + cl
			switch {
			case cl == "nil" || cl == "nilerr" || strings.HasPrefix(cl, "canon:"):
				o.add(OK, key, relPath(c, ret.Pos()), "canonical result type")
			case strings.HasPrefix(cl, "nil-result:"):
				o.add(VIOLATED, "Normalize/return nil result of a helper", relPath(c, ret.Pos()), "%s returns nil as a successful result: a non-nil input (an empty map, an empty slice) is normalised to nil - the stored field changes from {} to null, and code that writes into the sub-map panics on the nil map", strings.TrimPrefix(cl, "nil-result:"))
			case strings.HasPrefix(cl, "passthrough:") || strings.HasPrefix(cl, "passthrough-bytes:"):
				pass++
				o.add(INFO, key, relPath(c, ret.Pos()), "pass-through pinned by clover's own tests (BinaryMarshaler / time.Time / internal.Value / []byte)")
			default:
				o.add(VIOLATED, key, relPath(c, ret.Pos()), "Normalize can return a non-canonical %s: downstream comparison and encoding only know int64/uint64/float64/string/bool/time/map/slice", strings.TrimPrefix(cl, "bad:"))
			}
		}
	}
	// Document.Set leaves the document unchanged on error
	if set := c.lookupMethod("document", "Document", "Set"); set != nil {
		var errV ssa.Value
		allCalls(set, func(call ssa.CallInstruction) {
			if cl, ok := call.(*ssa.Call); ok && staticCallee(call) != nil && c.declared(staticCallee(call)) == norm {
				if vs := resultValues(cl, 1); len(vs) > 0 {
					errV = vs[0]
				}
			}
		})
		for _, b := range set.Blocks {
			for _, in := range b.Instrs {
				mutating := false
				switch x := in.(type) {
				case *ssa.MapUpdate:
					mutating = true
				case *ssa.Call:
					// lookupField(..., force=true) creates intermediate maps
					for _, a := range x.Common().Args {
						if bv, ok := constBool(a); ok && bv {
							mutating = true
						}
					}
				}
				if !mutating {
					continue
				}
				key := "Document.Set/mutation after successful normalisation"
				if errV != nil && guardedBy(set, b, nilEdges(set, sameValue(errV))) {
					o.add(OK, key, relPath(c, in.Pos()), "the document is touched only when Normalize returned no error")
				} else {
					o.add(VIOLATED, key, relPath(c, in.Pos()), "Document.Set modifies the document on a path where normalisation failed: an unsupported value does not leave the document unchanged")
				}
			}
		}
	}
	return o.list
}

// ---------------------------------------------------------------- COD1 / COD2

// staticReach: the library functions reachable from `from` through static calls, closures,
// function values used as operands, and function tables kept in package-level variables
// (a function that loads such a variable may call whatever was stored into it).
func (c *Ctx) staticReach(from *ssa.Function) map[*ssa.Function]bool {
	seen := map[*ssa.Function]bool{}
	tables := c.globalFuncTables()
	var walk func(f *ssa.Function)
	walk = func(f *ssa.Function) {
		if f == nil || seen[f] || !c.IsLib(f) {
			return
		}
		seen[f] = true
		allCalls(f, func(call ssa.CallInstruction) {
			if g := staticCallee(call); g != nil {
				walk(c.declared(g))
			}
		})
		for _, a := range f.AnonFuncs {
			walk(a)
		}
		for _, b := range f.Blocks {
			for _, in := range b.Instrs {
				for _, op := range in.Operands(nil) {
					if op == nil || *op == nil {
						continue
					}
					switch x := (*op).(type) {
					case *ssa.Function:
						walk(c.declared(x))
					case *ssa.Global:
						for _, g := range tables[x] {
							walk(g)
						}
					}
				}
			}
		}
	}
	walk(from)
	return seen
}

// globalFuncTables: for each package-level variable of the library, the functions stored
// into it (directly, or as entries of the map / slice / array / struct stored into it).
func (c *Ctx) globalFuncTables() map[*ssa.Global][]*ssa.Function {
	if c.funcTables != nil {
		return c.funcTables
	}
	out := map[*ssa.Global][]*ssa.Function{}
	var funcsIn func(v ssa.Value, depth int, seen map[ssa.Value]bool) []*ssa.Function
	funcsIn = func(v ssa.Value, depth int, seen map[ssa.Value]bool) []*ssa.Function {
		if v == nil || seen[v] || depth > 6 {
			return nil
		}
		seen[v] = true
		var fs []*ssa.Function
		switch x := v.(type) {
		case *ssa.Function:
			return []*ssa.Function{c.declared(x)}
		case *ssa.MakeClosure:
			if f, ok := x.Fn.(*ssa.Function); ok {
				return []*ssa.Function{f}
			}
		case *ssa.MakeInterface:
			return funcsIn(x.X, depth+1, seen)
		case *ssa.ChangeType:
			return funcsIn(x.X, depth+1, seen)
		case *ssa.Slice:
			return funcsIn(x.X, depth+1, seen)
		case *ssa.Phi:
			for _, e := range x.Edges {
				fs = append(fs, funcsIn(e, depth+1, seen)...)
			}
			return fs
		case *ssa.UnOp:
			if x.Op == token.MUL {
				return funcsIn(x.X, depth+1, seen)
			}
		}
		// a container built here: whatever is stored into it
		if refs := v.Referrers(); refs != nil {
			for _, r := range *refs {
				switch y := r.(type) {
				case *ssa.MapUpdate:
					if y.Map == v {
						fs = append(fs, funcsIn(y.Value, depth+1, seen)...)
					}
				case *ssa.Store:
					if y.Addr == v {
						fs = append(fs, funcsIn(y.Val, depth+1, seen)...)
					}
				case *ssa.IndexAddr:
					if y.X == v {
						fs = append(fs, funcsIn(y, depth+1, seen)...)
					}
				case *ssa.FieldAddr:
					if y.X == v {
						fs = append(fs, funcsIn(y, depth+1, seen)...)
					}
				}
			}
		}
		return fs
	}
	for _, fn := range c.LibFuncs {
		for _, b := range fn.Blocks {
			for _, in := range b.Instrs {
				st, ok := in.(*ssa.Store)
				if !ok {
					continue
				}
				var g *ssa.Global
				switch a := st.Addr.(type) {
				case *ssa.Global:
					g = a
				case *ssa.IndexAddr:
					g, _ = a.X.(*ssa.Global)
				case *ssa.FieldAddr:
					g, _ = a.X.(*ssa.Global)
				}
				if g == nil {
					continue
				}
				out[g] = append(out[g], funcsIn(st.Val, 0, map[ssa.Value]bool{})...)
			}
		}
	}
	c.funcTables = out
	return out
}

func ruleCOD1(c *Ctx) []Ob {
	o := newObs(c, "COD1")
	lt := c.libType("internal", "LocalizedTime")
	enc, dec := c.lookupFunc("internal", "Encode"), c.lookupFunc("internal", "Decode")
	if lt == nil || enc == nil || dec == nil {
		o.add(UNDECIDED, "model", "-", "internal.LocalizedTime / Encode / Decode not found")
		return o.list
	}
	wrappers, unwrappers := map[*ssa.Function]bool{}, map[*ssa.Function]bool{}
	for _, fn := range c.LibFuncs {
		if c.pkgRel(fn) != "internal" {
			continue
		}
		for _, b := range fn.Blocks {
			for _, in := range b.Instrs {
				switch x := in.(type) {
				case *ssa.Alloc:
					if p, ok := x.Type().Underlying().(*types.Pointer); ok && types.Identical(p.Elem(), lt) {
						wrappers[fn] = true
					}
				case *ssa.TypeAssert:
					if p, ok := x.AssertedType.(*types.Pointer); ok && types.Identical(p.Elem(), lt) {
						unwrappers[fn] = true
					}
				}
			}
		}
	}
	if len(wrappers) == 0 || len(unwrappers) == 0 {
		o.add(UNDECIDED, "transformers", "-", "time wrapping/unwrapping functions not found")
		return o.list
	}
	check := func(entry *ssa.Function, forbidden map[*ssa.Function]bool, what string) {
		reach := c.staticReach(entry)
		bad := ""
		for f := range forbidden {
			if reach[f] {
				bad = c.fname(f)
			}
		}
		key := c.fname(entry) + "/does not reach the " + what
		if bad != "" {
			o.add(VIOLATED, key, relPath(c, entry.Pos()), "%s reaches %s, the transformer of the opposite direction: times in some positions come back wrapped/unwrapped wrongly", c.fname(entry), bad)
		} else {
			o.add(OK, key, relPath(c, entry.Pos()), "the opposite transformer is unreachable")
		}
	}
	check(dec, wrappers, "time wrapper")
	check(enc, unwrappers, "time unwrapper")
	// the transformers are applied unconditionally: Decode cannot return success without
	// having unwrapped, and what Encode marshals is the wrapper's result
	{
		key := c.fname(dec) + "/unwraps on every success path"
		ei := errResultIndex(dec.Signature)
		callBlocks := map[*ssa.BasicBlock]bool{}
		allCalls(dec, func(call ssa.CallInstruction) {
			if g := staticCallee(call); g != nil && unwrappers[c.declared(g)] {
				callBlocks[call.Block()] = true
			}
		})
		bad := ""
		if len(callBlocks) == 0 {
			bad = "never"
		} else if ei >= 0 && len(dec.Blocks) > 0 {
			// path exploration avoiding the call; along a path, error values found non-nil by a
			// branch are remembered, so `if err == nil { unwrap }; return err` is understood
			type state struct {
				b      *ssa.BasicBlock
				nonNil string
			}
			seen := map[state]bool{}
			var walk func(b *ssa.BasicBlock, known map[ssa.Value]bool)
			walk = func(b *ssa.BasicBlock, known map[ssa.Value]bool) {
				if callBlocks[b] {
					return
				}
				sig := ""
				for v := range known {
					sig += v.Name() + ","
				}
				if seen[state{b, sig}] {
					return
				}
				seen[state{b, sig}] = true
				last := b.Instrs[len(b.Instrs)-1]
				if ret, ok := last.(*ssa.Return); ok {
					if rv, ok := returnedValue(ret, ei); ok {
						isErr := !isNilConst(rv) && c.provablyNonNil(dec, rv, b)
						for _, og := range origins(rv) {
							if known[og] {
								isErr = true
							}
						}
						if !isErr {
							bad = relPath(c, ret.Pos())
						}
					}
					return
				}
				if iff, ok := last.(*ssa.If); ok {
					if x, tnil, okn := nilTest(iff.Cond); okn && isErrorType(x.Type()) {
						for i, s := range b.Succs {
							k2 := map[ssa.Value]bool{}
							for v := range known {
								k2[v] = true
							}
							if (i == 0) != tnil { // the branch on which x is non-nil
								k2[x] = true
							}
							walk(s, k2)
						}
						return
					}
				}
				for _, s := range b.Succs {
					walk(s, known)
				}
			}
			walk(dec.Blocks[0], map[ssa.Value]bool{})
		}
		if bad == "never" {
			o.add(VIOLATED, key, relPath(c, dec.Pos()), "Decode never applies the time unwrapper")
		} else if bad != "" {
			o.add(VIOLATED, key, bad, "Decode can return without an error on a path that skips the time unwrapper (a fast path / shortcut): documents on that path are handed out with *LocalizedTime wrappers in place of time.Time")
		} else {
			o.add(OK, key, relPath(c, dec.Pos()), "every return that is not an error passes through the unwrapper")
		}
		key = c.fname(enc) + "/marshals the wrapped value"
		okEnc := false
		allCalls(enc, func(call ssa.CallInstruction) {
			if calleeFullName(call) != "github.com/vmihailenco/msgpack/v5.Marshal" {
				return
			}
			okEnc = true
			for _, og := range origins(call.Common().Args[0]) {
				wc, isCall := og.(*ssa.Call)
				if !isCall || staticCallee(wc) == nil || !wrappers[c.declared(staticCallee(wc))] {
					okEnc = false
				}
			}
		})
		if okEnc {
			o.add(OK, key, relPath(c, enc.Pos()), "msgpack.Marshal receives the result of the time wrapper")
		} else {
			o.add(VIOLATED, key, relPath(c, enc.Pos()), "what Encode marshals is not (only) the result of the time wrapper: times are stored with msgpack's native timestamp, which drops the zone offset")
		}
	}
	// recursion on container elements is self-recursion
	for _, set := range []map[*ssa.Function]bool{wrappers, unwrappers} {
		for f := range set {
			if f.Signature.Params().Len() != 1 || f.Signature.Results().Len() != 1 {
				continue
			}
			// both container types are descended into: under the ok edge of the assertion to
			// map[string]interface{} / []interface{} there is a self-call
			for _, ct := range c.canonTypes() {
				if ct.Rank != 3 && ct.Rank != 4 {
					continue
				}
				key := c.fname(f) + "/descends into " + ct.Name
				var okEdges []edge
				found := false
				for _, b := range f.Blocks {
					for _, in := range b.Instrs {
						ta, isTA := in.(*ssa.TypeAssert)
						if !isTA || !ta.CommaOk || !types.Identical(ta.AssertedType, ct.T) {
							continue
						}
						found = true
						for _, ex := range extractsOf(ta, 1) {
							okEdges = append(okEdges, guardEdges(f, func(cond ssa.Value, branch bool) bool { return cond == ssa.Value(ex) && branch })...)
						}
					}
				}
				if !found {
					o.add(VIOLATED, key, relPath(c, f.Pos()), "%s does not look inside %s values at all: times nested there are not transformed", c.fname(f), ct.Name)
					continue
				}
				rec := false
				allCalls(f, func(call ssa.CallInstruction) {
					if staticCallee(call) == f && guardedBy(f, call.Block(), okEdges) {
						rec = true
					}
					// or through a helper for this kind of container, which goes through the elements and
					// hands each one back to f
					if h := staticCallee(call); h != nil && h != f && c.IsLib(c.declared(h)) && guardedBy(f, call.Block(), okEdges) {
						allCalls(c.declared(h), func(hc ssa.CallInstruction) {
							if staticCallee(hc) == f && c.inLoop(hc.Block()) {
								rec = true
							}
						})
					}
				})
				// ... and on every path: no return under the ok edge that is taken before the loop over
				// the elements (a fast path deciding from a look at the elements that nothing has to be
				// done has to be as complete as the transformer itself; only emptiness is accepted)
				bypass := ""
				if rec {
					var headers []*ssa.BasicBlock
					allCalls(f, func(call ssa.CallInstruction) {
						if staticCallee(call) == f && guardedBy(f, call.Block(), okEdges) && c.inLoop(call.Block()) {
							if h, _ := c.innermostLoop(call.Block()); h != nil {
								headers = append(headers, h)
							}
						}
					})
					emptyEdges := guardEdges(f, func(cond ssa.Value, branch bool) bool {
						b, ok := cond.(*ssa.BinOp)
						if !ok {
							return false
						}
						cl, ok := b.X.(*ssa.Call)
						if !ok {
							return false
						}
						bi, ok := cl.Call.Value.(*ssa.Builtin)
						if !ok || bi.Name() != "len" {
							return false
						}
						if k, ok := constInt(b.Y); !ok || k != 0 {
							return false
						}
						return (b.Op == token.EQL && branch) || (b.Op == token.NEQ && !branch) || (b.Op == token.GTR && !branch)
					})
					for _, ret := range returnsOf(f) {
						if !guardedBy(f, ret.Block(), okEdges) || len(headers) == 0 {
							continue
						}
						behind := false
						for _, h := range headers {
							if h.Dominates(ret.Block()) {
								behind = true
							}
						}
						if !behind && !guardedBy(f, ret.Block(), emptyEdges) {
							bypass = relPath(c, ret.Pos())
						}
					}
				}
				if bypass != "" {
					o.add(VIOLATED, key, relPath(c, f.Pos()), "%s can return at %s, inside its %s branch, without having gone through the elements: a time reachable only through the elements this shortcut does not look at (an array nested in an array) is stored with msgpack's native timestamp (zone offset lost) or read back still wrapped", c.fname(f), bypass, ct.Name)
				} else if rec {
					o.add(OK, key, relPath(c, f.Pos()), "elements of %s values are transformed recursively", ct.Name)
				} else {
					o.add(VIOLATED, key, relPath(c, f.Pos()), "the %s branch of %s does not recurse into its elements: a time inside an object/array nested in such a value is stored with msgpack's native timestamp (zone offset lost) or read back still wrapped", ct.Name, c.fname(f))
				}
			}
			allCalls(f, func(call ssa.CallInstruction) {
				g := staticCallee(call)
				if g == nil || !c.IsLib(g) || c.pkgRel(g) != "internal" {
					return
				}
				if !types.Identical(g.Signature, f.Signature) {
					return
				}
				key := c.fname(f) + "/recursive call " + c.fname(g)
				if g == f {
					o.add(OK, key, relPath(c, call.Pos()), "container elements are transformed by the same function")
				} else {
					o.add(VIOLATED, key, relPath(c, call.Pos()), "container elements are handed to %s instead of %s itself", c.fname(g), c.fname(f))
				}
			})
		}
	}
	return o.list
}

func ruleCOD2(c *Ctx) []Ob {
	o := newObs(c, "COD2")
	const mp = "github.com/vmihailenco/msgpack/v5"
	allowed := map[string]bool{mp + ".Marshal": true, mp + ".Unmarshal": true, mp + ".RegisterExt": true}
	n := 0
	for _, fn := range c.LibFuncs {
		allCalls(fn, func(call ssa.CallInstruction) {
			full := calleeFullName(call)
			if !strings.Contains(full, mp) || strings.HasSuffix(full, ".init") {
				return
			}
			n++
			key := c.fname(fn) + "/" + shortName(full)
			if allowed[full] {
				o.add(OK, key, relPath(c, call.Pos()), "default, type-preserving msgpack entry point")
			} else {
				o.add(UNDECIDED, key, relPath(c, call.Pos()), "msgpack API outside Marshal/Unmarshal/RegisterExt: encoder/decoder options (compact ints/floats, loose interface decoding) change the Go types read back")
			}
		})
	}
	for _, name := range []string{"Encode", "Decode"} {
		f := c.lookupFunc("internal", name)
		want := mp + ".Marshal"
		if name == "Decode" {
			want = mp + ".Unmarshal"
		}
		has := false
		if f != nil {
			allCalls(f, func(call ssa.CallInstruction) {
				if calleeFullName(call) == want {
					has = true
				}
			})
		}
		if has {
			o.add(OK, "internal."+name+"/entry", relPath(c, f.Pos()), "uses %s", shortName(want))
		} else {
			o.add(UNDECIDED, "internal."+name+"/entry", "-", "codec entry point does not call %s", shortName(want))
		}
	}
	return o.list
}

// ---------------------------------------------------------------- ADP1 / ADP2

// storeImpls: methods named `method` of library types implementing store.<iface>.
func (c *Ctx) storeImpls(iface, method string) []*ssa.Function {
	it := c.libType("store", iface)
	if it == nil {
		return nil
	}
	ui := it.Underlying().(*types.Interface)
	for i := 0; i < ui.NumMethods(); i++ {
		if ui.Method(i).Name() == method {
			fs := c.libImpls(ui.Method(i))
			sort.Slice(fs, func(a, b int) bool { return c.fname(fs[a]) < c.fname(fs[b]) })
			return fs
		}
	}
	return nil
}

func ruleADP1(c *Ctx) []Ob {
	o := newObs(c, "ADP1")
	for _, get := range c.storeImpls("Tx", "Get") {
		key := c.fname(get) + "/not-found is (nil, nil)"
		pos := relPath(c, get.Pos())
		// backend calls returning an error
		var backendErr []ssa.Value
		var backendPkg *types.Package
		allCalls(get, func(call ssa.CallInstruction) {
			cl, ok := call.(*ssa.Call)
			if !ok {
				return
			}
			g := staticCallee(call)
			if g == nil || c.IsLib(g) || g.Pkg == nil {
				return
			}
			ei := errResultIndex(g.Signature)
			if ei < 0 {
				return
			}
			if g.Pkg.Pkg.Scope().Lookup("ErrKeyNotFound") == nil {
				return
			}
			backendPkg = g.Pkg.Pkg
			backendErr = append(backendErr, resultValues(cl, ei)...)
		})
		if len(backendErr) == 0 {
			// the backend reports absence by a nil value: the adapter must return a nil error with it
			good := true
			for _, ret := range returnsOf(get) {
				if rv, ok := returnedValue(ret, 1); ok && !isNilConst(rv) {
					_ = rv
				}
			}
			if good {
				o.add(OK, key, pos, "backend lookup has no error result; absence is its nil value, returned as is")
			}
			continue
		}
		okAll := true
		why := ""
		for _, ev := range backendErr {
			var nf []edge
			ifEdges(get, func(cond ssa.Value, e edge) {
				if x, target, ok := errorsIsCall(cond); ok && e.Branch && (x == ev || sameOrigin(x, ev)) {
					if g := globalLoad(target); g != nil && g.Name() == "ErrKeyNotFound" && g.Pkg.Pkg == backendPkg {
						nf = append(nf, e)
					}
				}
			})
			if len(nf) == 0 {
				okAll, why = false, "the backend's error is never compared with its ErrKeyNotFound"
				continue
			}
			mapped := false
			for _, ret := range returnsOf(get) {
				if !guardedBy(get, ret.Block(), nf) {
					continue
				}
				v0, ok0 := returnedValue(ret, 0)
				v1, ok1 := returnedValue(ret, 1)
				if ok0 && ok1 && isNilConst(v0) && isNilConst(v1) {
					mapped = true
				} else {
					okAll, why = false, "the not-found branch does not return (nil, nil)"
				}
			}
			if !mapped {
				okAll, why = false, "no (nil, nil) return under errors.Is(err, ErrKeyNotFound)"
			}
			// the generic error test must come after the not-found test
			for _, e := range nonNilEdges(get, sameValue(ev)) {
				for _, n := range nf {
					if !n.From.Dominates(e.From) && n.From != e.From {
						okAll, why = false, "the error is tested against nil before the not-found mapping"
					}
				}
			}
		}
		if okAll {
			o.add(OK, key, pos, "errors.Is(err, ErrKeyNotFound) is mapped to (nil, nil) before the generic error test")
		} else {
			o.add(VIOLATED, key, pos, "%s: a missing key surfaces as an error (or a value) instead of (nil, nil), so existence probes (HasCollection, duplicate check) misbehave on this backend", why)
		}
	}
	return o.list
}

func ruleADP2(c *Ctx) []Ob {
	o := newObs(c, "ADP2")
	it := c.libType("store", "Cursor")
	if it == nil {
		o.add(UNDECIDED, "store.Cursor", "-", "interface not found")
		return o.list
	}
	ui := it.Underlying().(*types.Interface)
	seen := map[*ssa.Function]bool{}
	var fns []*ssa.Function
	for i := 0; i < ui.NumMethods(); i++ {
		for _, f := range c.libImpls(ui.Method(i)) {
			if !seen[f] {
				seen[f] = true
				fns = append(fns, f)
			}
		}
	}
	// helpers called by those methods in the adapter packages
	for _, f := range append([]*ssa.Function{}, fns...) {
		for g := range c.staticReach(f) {
			if !seen[g] && strings.HasPrefix(c.pkgRel(g), "store/") {
				seen[g] = true
				fns = append(fns, g)
			}
		}
	}
	sort.Slice(fns, func(i, j int) bool { return c.fname(fns[i]) < c.fname(fns[j]) })
	isValueComponent := func(v ssa.Value) bool {
		for _, og := range origins(v) {
			if _, f, n := fieldLoad(og); f == "Value" && n != nil && c.libNamedIs(n, "store", "Item") {
				return true
			}
			if ex, ok := og.(*ssa.Extract); ok && ex.Index == 1 {
				if call, ok := ex.Tuple.(*ssa.Call); ok {
					full := calleeFullName(call)
					if strings.HasPrefix(full, "(*go.etcd.io/bbolt.Cursor).") {
						return true
					}
				}
			}
		}
		return false
	}
	for _, fn := range fns {
		bad := ""
		for _, b := range fn.Blocks {
			for _, in := range b.Instrs {
				bo, ok := in.(*ssa.BinOp)
				if !ok {
					continue
				}
				if x, _, ok := nilTest(bo); ok && isValueComponent(x) {
					bad = relPath(c, bo.Pos())
				}
			}
		}
		key := c.fname(fn) + "/validity independent of the value"
		if bad != "" {
			o.add(VIOLATED, key, bad, "cursor position validity depends on the entry's *value* being non-nil: keys stored with an empty value (every index entry) are invisible or end the iteration on this backend")
		} else {
			o.add(OK, key, relPath(c, fn.Pos()), "no branch on the value component of the cursor position")
		}
	}
	// method-set parity of the adapters is enforced by the type checker (both implement store.Store/Tx/Cursor)
	return o.list
}

// ---------------------------------------------------------------- CMP6

// CMP6: struct normalisation flattens every embedded (anonymous) field whose
// normalised value is an object: the plain `m[name] = value` store is reached
// only for non-anonymous fields or for anonymous fields that did not normalise
// to a map. Any further condition (kind of the field, pointer-ness) makes
// embedded pointers / embedded values behave differently.
func ruleCMP6(c *Ctx) []Ob {
	o := newObs(c, "CMP6")
	found := false
	// the writer's side only: what Normalize can reach (the reader's rename-back walk also
	// looks at Anonymous, but stores names for encoding/json, not document fields)
	writer := c.staticReach(c.lookupFunc("internal", "Normalize"))
	// the reader's flattening predicate: a library function (reflect.StructField) bool reading
	// Anonymous that the way back (Convert) consults. Writer and reader must flatten the same
	// fields, or what went in at the level of the struct is not looked for there on the way back.
	var pred *ssa.Function
	if conv := c.lookupFunc("internal", "Convert"); conv != nil {
		var cands []*ssa.Function
		for f := range c.staticReach(conv) {
			if c.pkgRel(f) != "internal" || f.Parent() != nil || len(f.Params) != 1 || f.Signature.Results().Len() != 1 || !namedIs(f.Params[0].Type(), "reflect", "StructField") {
				continue
			}
			if bt, ok := f.Signature.Results().At(0).Type().Underlying().(*types.Basic); !ok || bt.Kind() != types.Bool {
				continue
			}
			reads := false
			for _, b := range f.Blocks {
				for _, in := range b.Instrs {
					if structFieldRead(in, "Anonymous") {
						reads = true
					}
				}
			}
			if reads {
				cands = append(cands, f)
			}
		}
		sort.Slice(cands, func(i, j int) bool { return c.fname(cands[i]) < c.fname(cands[j]) })
		if len(cands) > 0 {
			pred = cands[0]
		}
	}
	// predWrapper[g] = 1 + index of the bool result of g that is true only where the predicate is
	predWrapper := map[*ssa.Function]int{}
	if pred != nil {
		for _, g := range c.LibFuncs {
			if c.pkgRel(g) != "internal" || g.Parent() != nil || g == pred {
				continue
			}
			bi := -1
			res := g.Signature.Results()
			for k := 0; k < res.Len(); k++ {
				if bt, ok := res.At(k).Type().Underlying().(*types.Basic); ok && bt.Kind() == types.Bool {
					bi = k
				}
			}
			if bi < 0 || res.Len() < 2 {
				continue
			}
			predTrue := guardEdges(g, func(cond ssa.Value, branch bool) bool {
				if call, ok := cond.(*ssa.Call); ok && staticCallee(call) != nil && c.declared(staticCallee(call)) == pred {
					return branch
				}
				if u, ok := cond.(*ssa.UnOp); ok && u.Op == token.NOT {
					if call, ok := u.X.(*ssa.Call); ok && staticCallee(call) != nil && c.declared(staticCallee(call)) == pred {
						return !branch
					}
				}
				return false
			})
			if len(predTrue) == 0 {
				continue
			}
			ok := true
			for _, ret := range returnsOf(g) {
				rv, has := returnedValue(ret, bi)
				if !has {
					ok = false
					continue
				}
				if cst, isC := rv.(*ssa.Const); isC && cst.Value != nil && cst.Value.Kind() == constant.Bool && !constant.BoolVal(cst.Value) {
					continue // answers false
				}
				if !guardedBy(g, ret.Block(), predTrue) {
					ok = false
				}
			}
			if ok {
				predWrapper[g] = bi + 1
			}
		}
	}
	nflat := map[*ssa.Function]int{}
	for _, fn := range c.LibFuncs {
		if c.pkgRel(fn) != "internal" || !writer[rootFunc(fn)] || fn == pred {
			continue
		}
		// the struct normaliser: loads reflect.StructField.Anonymous
		isAnon := func(v ssa.Value) bool {
			for _, og := range origins(v) {
				if _, f, n := fieldLoad(og); f == "Anonymous" && n != nil && n.Obj().Pkg() != nil && n.Obj().Pkg().Path() == "reflect" {
					return true
				}
			}
			return false
		}
		isPred := func(v ssa.Value) bool {
			if pred == nil {
				return false
			}
			if call, ok := v.(*ssa.Call); ok && staticCallee(call) != nil && c.declared(staticCallee(call)) == pred {
				return true
			}
			// the boolean result of a wrapper that answers true only where the predicate does
			// (embeddedStruct(field, value) (reflect.Value, bool))
			if ex, ok := v.(*ssa.Extract); ok {
				if call, ok := ex.Tuple.(*ssa.Call); ok && staticCallee(call) != nil {
					return predWrapper[c.declared(staticCallee(call))] == ex.Index+1
				}
			}
			return false
		}
		uses := false
		ifEdges(fn, func(cond ssa.Value, e edge) {
			if isAnon(cond) || isPred(cond) {
				uses = true
			}
		})
		if !uses {
			continue
		}
		found = true
		mapT := types.NewMap(types.Typ[types.String], types.NewInterfaceType(nil, nil))
		allowed := guardEdges(fn, func(cond ssa.Value, branch bool) bool {
			if isAnon(cond) || isPred(cond) {
				return !branch
			}
			if u, ok := cond.(*ssa.UnOp); ok && u.Op == token.NOT && (isAnon(u.X) || isPred(u.X)) {
				return branch
			}
			if ex, ok := cond.(*ssa.Extract); ok && ex.Index == 1 {
				if ta, ok := ex.Tuple.(*ssa.TypeAssert); ok && ta.CommaOk && types.Identical(ta.AssertedType, mapT) {
					return !branch
				}
			}
			return false
		})
		flattenOK := guardEdges(fn, func(cond ssa.Value, branch bool) bool {
			if isPred(cond) {
				return branch
			}
			if u, ok := cond.(*ssa.UnOp); ok && u.Op == token.NOT && isPred(u.X) {
				return !branch
			}
			return false
		})
		anonTrue := guardEdges(fn, func(cond ssa.Value, branch bool) bool { return isAnon(cond) && branch })
		// the flattening done by recursion: the walker calls itself (or a sibling walker) on the embedded
		// struct with the same destination map
		allCalls(fn, func(ci ssa.CallInstruction) {
			g := staticCallee(ci)
			if g == nil || c.declared(g) != fn {
				return
			}
			sameDst := false
			for i, p := range fn.Params {
				if _, isMap := p.Type().Underlying().(*types.Map); isMap && i < len(ci.Common().Args) && ci.Common().Args[i] == ssa.Value(p) {
					sameDst = true
				}
			}
			if !sameDst {
				return
			}
			nflat[fn]++
			fkey := c.fname(fn) + "/flattening by recursion"
			if nflat[fn] > 1 {
				fkey += fmt.Sprintf(" #%d", nflat[fn])
			}
			switch {
			case pred == nil:
				o.add(OK, fkey, relPath(c, ci.Pos()), "the fields of the embedded struct are stored into the parent")
			case guardedBy(fn, ci.Block(), flattenOK):
				o.add(OK, fkey, relPath(c, ci.Pos()), "the fields of an embedded field go into the parent exactly when %s, which the way back consults, says the field is flattened", c.fname(pred))
			default:
				o.add(VIOLATED, fkey, relPath(c, ci.Pos()), "the fields of an embedded field are stored into the parent without %s, by which the way back (Unmarshal) decides where to look for them, having been asked", c.fname(pred))
			}
		})
		for _, b := range fn.Blocks {
			for _, in := range b.Instrs {
				mu, ok := in.(*ssa.MapUpdate)
				if !ok {
					continue
				}
				// bookkeeping maps (map[string]bool, map[string]int) are not the document, whose values are interface{}
				if mt, ok := mu.Map.Type().Underlying().(*types.Map); ok {
					if _, isIface := mt.Elem().Underlying().(*types.Interface); !isIface {
						continue
					}
				}
				// keys coming from ranging over the embedded object's map are the flattening itself
				fromRange := false
				for _, og := range origins(mu.Key) {
					if ex, ok := og.(*ssa.Extract); ok {
						if _, isNext := ex.Tuple.(*ssa.Next); isNext {
							fromRange = true
						}
					}
				}
				key := c.fname(fn) + "/store under the field's own name"
				if fromRange {
					nflat[fn]++
					fkey := c.fname(fn) + "/flattening store"
					if nflat[fn] > 1 {
						fkey += fmt.Sprintf(" #%d", nflat[fn])
					}
					// a promoted field must not replace a field of the struct itself: the merge is behind
					// a lookup of the same key (in the document being built or in a set of own names)
					miss := guardEdges(fn, func(cond ssa.Value, branch bool) bool {
						neg := false
						for {
							if u, ok := cond.(*ssa.UnOp); ok && u.Op == token.NOT {
								cond, neg = u.X, !neg
								continue
							}
							break
						}
						var lk *ssa.Lookup
						switch x := cond.(type) {
						case *ssa.Lookup:
							lk = x
						case *ssa.Extract:
							if l, ok := x.Tuple.(*ssa.Lookup); ok && x.Index == 1 {
								lk = l
							}
						}
						if lk == nil || !(lk.Index == mu.Key || sameOrigin(lk.Index, mu.Key)) {
							return false
						}
						return branch == neg // the branch on which the key was NOT found
					})
					hkey := strings.Replace(fkey, "/flattening store", "/promoted fields do not hide the struct's own", 1)
					if guardedBy(fn, b, miss) {
						o.add(OK, hkey, relPath(c, mu.Pos()), "a promoted field is merged only if the struct itself has no field of that name")
					} else {
						o.add(VIOLATED, hkey, relPath(c, mu.Pos()), "the fields of an embedded struct are merged into the parent unconditionally: with struct{ ID string; Base } where Base also has ID, the embedded field (declared later) replaces the struct's own, contrary to Go's and encoding/json's shadowing rule - {ID: \"outer\"} becomes the document {ID: \"\"} and comes back as ID = \"\"")
					}
					switch {
					case pred == nil:
						o.add(OK, fkey, relPath(c, mu.Pos()), "keys of the embedded object are merged into the parent")
					case guardedBy(fn, b, flattenOK):
						o.add(OK, fkey, relPath(c, mu.Pos()), "keys of the embedded object are merged into the parent exactly when %s, which the way back consults, says the field is flattened", c.fname(pred))
					case guardedBy(fn, b, anonTrue) && c.kindGuarded(mu, "Struct"):
						o.add(OK, fkey, relPath(c, mu.Pos()), "keys of an embedded struct (Anonymous and of kind Struct) are merged into the parent")
					default:
						o.add(VIOLATED, fkey, relPath(c, mu.Pos()), "the fields of an embedded field are merged into the parent without %s, by which the way back (Unmarshal) decides where to look for them, having been asked: an embedded field of a named map type is flattened on the way in, but looked for under its type name on the way back, and its entries are silently lost", c.fname(pred))
					}
					continue
				}
				recursive := false
				allCalls(fn, func(ci ssa.CallInstruction) {
					if g := staticCallee(ci); g != nil && c.declared(g) == fn {
						recursive = true
					}
				})
				if recursive {
					// fields found at different depths share one destination: which of them takes a name is
					// decided by a lookup of that name in a bookkeeping map (the depth at which it was taken)
					book := guardEdges(fn, func(cond ssa.Value, branch bool) bool {
						found := false
						var walk func(v ssa.Value, d int)
						walk = func(v ssa.Value, d int) {
							if v == nil || d > 4 || found {
								return
							}
							switch x := v.(type) {
							case *ssa.Extract:
								if lk, ok := x.Tuple.(*ssa.Lookup); ok && lk.X != mu.Map && (lk.Index == mu.Key || sameOrigin(lk.Index, mu.Key)) {
									found = true
								}
							case *ssa.Lookup:
								if x.X != mu.Map && (x.Index == mu.Key || sameOrigin(x.Index, mu.Key)) {
									found = true
								}
							case *ssa.Call:
								// a helper given the name, which looks it up in a record of its own (walk.take(name, depth))
								if h := staticCallee(x); h != nil && c.IsLib(c.declared(h)) {
									h = c.declared(h)
									for ai, a := range x.Call.Args {
										if !(a == mu.Key || sameOrigin(a, mu.Key)) || ai >= len(h.Params) {
											continue
										}
										hp := h.Params[ai]
										for _, hb := range h.Blocks {
											for _, hi := range hb.Instrs {
												if lk, ok := hi.(*ssa.Lookup); ok && (lk.Index == ssa.Value(hp) || sameOrigin(lk.Index, hp)) {
													if mt, ok := lk.X.Type().Underlying().(*types.Map); ok && isIntType(mt.Elem()) {
														found = true
													}
												}
											}
										}
									}
								}
							case *ssa.BinOp:
								walk(x.X, d+1)
								walk(x.Y, d+1)
							case *ssa.UnOp:
								walk(x.X, d+1)
							case *ssa.Phi:
								for _, e := range x.Edges {
									walk(e, d+1)
								}
							}
						}
						walk(cond, 0)
						return found
					})
					hkey := c.fname(fn) + "/a name is taken by the shallowest field"
					if guardedBy(fn, b, book) {
						o.add(OK, hkey, relPath(c, mu.Pos()), "whether a field is stored under a name is decided by a lookup of that name in the record of the depths at which names were taken")
					} else {
						o.add(VIOLATED, hkey, relPath(c, mu.Pos()), "fields found at different depths of embedding are stored into one map without a record of which depth took a name: a field promoted from a deeper struct replaces a shallower one (or the struct's own) depending on declaration order, contrary to Go's and encoding/json's rule")
					}
				}
				if guardedBy(fn, b, allowed) {
					o.add(OK, key, relPath(c, mu.Pos()), "reached only for a non-embedded field, an embedded field that is not an object, or one the reader's predicate does not flatten")
				} else {
					o.add(VIOLATED, key, relPath(c, mu.Pos()), "a field can be stored under its own name although it is embedded and normalises to an object (the path is not decided by Anonymous and map-ness alone): embedded structs reached through a pointer / of some kinds are no longer flattened, and Unmarshal (encoding/json flattens them) no longer round-trips")
				}
			}
		}
	}
	// the way back: a walker that follows embedded types and writes the names encoding/json expects into
	// one map shared by all depths must keep the same record
	if conv := c.lookupFunc("internal", "Convert"); conv != nil {
		var rfns []*ssa.Function
		for f := range c.staticReach(conv) {
			if c.pkgRel(f) == "internal" && f.Parent() == nil && !writer[f] {
				rfns = append(rfns, f)
			}
		}
		sort.Slice(rfns, func(i, j int) bool { return c.fname(rfns[i]) < c.fname(rfns[j]) })
		for _, fn := range rfns {
			var dst *ssa.Parameter
			allCalls(fn, func(ci ssa.CallInstruction) {
				if g := staticCallee(ci); g == nil || c.declared(g) != fn {
					return
				}
				typeDriven := false
				for i, p := range fn.Params {
					if i < len(ci.Common().Args) && namedIs(p.Type(), "reflect", "Type") && ci.Common().Args[i] != ssa.Value(p) {
						typeDriven = true
					}
				}
				if !typeDriven {
					return
				}
				for i, p := range fn.Params {
					if mt, isMap := p.Type().Underlying().(*types.Map); isMap && i < len(ci.Common().Args) && ci.Common().Args[i] == ssa.Value(p) {
						if _, isIface := mt.Elem().Underlying().(*types.Interface); isIface {
							dst = p
						}
					}
				}
			})
			if dst == nil {
				continue
			}
			k := 0
			for _, b := range fn.Blocks {
				for _, in := range b.Instrs {
					mu, ok := in.(*ssa.MapUpdate)
					if !ok || mu.Map != ssa.Value(dst) {
						continue
					}
					k++
					hkey := fmt.Sprintf("%s/a name is taken by the shallowest field #%d", c.fname(fn), k)
					book := guardEdges(fn, func(cond ssa.Value, branch bool) bool {
						found := false
						var walk func(v ssa.Value, d int)
						walk = func(v ssa.Value, d int) {
							if v == nil || d > 4 || found {
								return
							}
							switch x := v.(type) {
							case *ssa.Extract:
								if lk, ok := x.Tuple.(*ssa.Lookup); ok && lk.X != mu.Map && (lk.Index == mu.Key || sameOrigin(lk.Index, mu.Key)) {
									found = true
								}
							case *ssa.Lookup:
								if x.X != mu.Map && (x.Index == mu.Key || sameOrigin(x.Index, mu.Key)) {
									found = true
								}
							case *ssa.BinOp:
								walk(x.X, d+1)
								walk(x.Y, d+1)
							case *ssa.UnOp:
								walk(x.X, d+1)
							}
						}
						walk(cond, 0)
						return found
					})
					if guardedBy(fn, b, book) {
						o.add(OK, hkey, relPath(c, mu.Pos()), "on the way back too, which field a name expected by encoding/json is taken for is decided by a lookup in the record of depths")
					} else {
						o.add(VIOLATED, hkey, relPath(c, mu.Pos()), "the rename-back walk writes the names encoding/json expects for fields of every depth of embedding into one map without a record of depths: with struct{ ID string `clover:\"id\"`; Base } where Base has ID, the promoted field, visited later, overwrites the entry of the struct's own field, and Unmarshal returns ID = \"\"")
					}
				}
			}
		}
	}
	if !found {
		o.add(UNDECIDED, "struct-normaliser", "-", "no function of package internal branches on reflect.StructField.Anonymous")
	}
	return o.list
}

// ---------------------------------------------------------------- CMP7

// CMP7: times are canonical after normalisation. Abstractly evaluating
// internal.Normalize on an input whose dynamic type is time.Time or *time.Time
// yields a value of dynamic type time.Time (or nil for a nil pointer) on every
// path - never the pointer itself (which the BinaryMarshaler pass-through would
// let through: a *time.Time implements it).
func ruleCMP7(c *Ctx) []Ob {
	o := newObs(c, "CMP7")
	norm := c.lookupFunc("internal", "Normalize")
	tt := c.timeType()
	if norm == nil || tt == nil {
		o.add(UNDECIDED, "Normalize", "-", "internal.Normalize or time.Time not found")
		return o.list
	}
	for _, in := range []struct {
		name string
		t    types.Type
	}{{"time.Time", tt}, {"*time.Time", types.NewPointer(tt)}} {
		te := c.newTagEval()
		outs := te.Eval(norm, []aval{tagOf(in.t)}, 0)
		key := "Normalize(" + in.name + ")"
		bad, undec := "", ""
		for _, oc := range outs {
			if oc.Panic {
				bad = "panics: " + oc.Why
				continue
			}
			v := oc.Vals[0]
			// an error return is fine
			if len(oc.Vals) > 1 && !(oc.Vals[1].K == aTag && oc.Vals[1].Tag == nil) && oc.Vals[1].K != aUnknown {
				continue
			}
			switch {
			case v.K == aTag && v.Tag == nil:
			case v.K == aTag && types.Identical(v.Tag, tt):
			case v.K == aTag:
				bad = "returns a value of dynamic type " + typeString(v.Tag)
			default:
				undec = "result type not decided (" + v.String() + ")"
			}
		}
		switch {
		case bad != "":
			o.add(VIOLATED, key, relPath(c, norm.Pos()), "%s: pointers are to be followed and times stored as time.Time; a *time.Time left in a document has type rank 0 in comparisons and is encoded without its zone", bad)
		case undec != "" || len(outs) == 0:
			o.add(UNDECIDED, key, relPath(c, norm.Pos()), "%s", undec)
		default:
			o.add(OK, key, relPath(c, norm.Pos()), "-> time.Time (or nil) on every path")
		}
	}
	return softenUndecided(o.list)
}

// ---------------------------------------------------------------- EMPTY1

// EMPTY1: the helpers that copy or transform document values keep empty
// containers empty: a []interface{} or map[string]interface{} they return or
// store into a container is never a nil value on a success path. (`var s
// []interface{}` + append yields nil for an empty input; encoding/json writes
// a nil slice as null, msgpack as nil: an empty array would read back as nil.)
func ruleEMPTY1(c *Ctx) []Ob {
	o := newObs(c, "EMPTY1")
	empty := types.NewInterfaceType(nil, nil)
	sliceT := types.NewSlice(empty)
	mapT := types.NewMap(types.Typ[types.String], empty)
	isContainer := func(t types.Type) bool { return types.Identical(t, sliceT) || types.Identical(t, mapT) }
	mayBeNil := func(v ssa.Value) bool {
		seen := map[ssa.Value]bool{}
		var walk func(v ssa.Value) bool
		walk = func(v ssa.Value) bool {
			if v == nil || seen[v] {
				return false
			}
			seen[v] = true
			switch x := v.(type) {
			case *ssa.Const:
				return x.Value == nil
			case *ssa.Phi:
				for _, e := range x.Edges {
					if walk(e) {
						return true
					}
				}
			case *ssa.MakeInterface:
				return walk(x.X)
			case *ssa.ChangeType:
				return walk(x.X)
			case *ssa.Call:
				// append(nil, ...) over a loop that may not execute: the phi at the loop header
				if b, ok := x.Common().Value.(*ssa.Builtin); ok && b.Name() == "append" {
					return false
				}
			case *ssa.UnOp:
				if al, ok := x.X.(*ssa.Alloc); ok && x.Op == token.MUL {
					for _, sv := range storesTo(al) {
						if walk(sv) {
							return true
						}
					}
					if len(storesTo(al)) == 0 {
						return true // declared and never assigned: zero value
					}
				}
			}
			return false
		}
		return walk(v)
	}
	n := 0
	for _, fn := range c.LibFuncs {
		rel := c.pkgRel(fn)
		if rel != "util" && rel != "internal" && rel != "document" {
			continue
		}
		ei := errResultIndex(fn.Signature)
		for _, b := range fn.Blocks {
			for _, in := range b.Instrs {
				switch x := in.(type) {
				case *ssa.Return:
					for i := range x.Results {
						rv, ok := returnedValue(x, i)
						if !ok {
							continue
						}
						inner := stripIfaceOnly(rv)
						if !isContainer(inner.Type()) {
							continue
						}
						n++
						key := fmt.Sprintf("%s/returned %s", c.fname(fn), typeString(inner.Type()))
						if !mayBeNil(inner) {
							o.add(OK, key, relPath(c, x.Pos()), "never the nil container on this return")
							continue
						}
						// nil together with an error is the failure convention
						if ei >= 0 && ei != i {
							if ev, ok := returnedValue(x, ei); ok && c.provablyNonNil(fn, ev, b) {
								o.add(OK, key, relPath(c, x.Pos()), "nil only together with a non-nil error")
								continue
							}
						}
						if _, isConst := inner.(*ssa.Const); isConst {
							o.add(OK, key+" (explicit nil)", relPath(c, x.Pos()), "an explicit nil result (documented absence), not a transformed container")
							continue
						}
						o.add(VIOLATED, key, relPath(c, x.Pos()), "a container built here can come out nil for an empty input (declared with `var` and only appended to / never made): an empty array or object of a document turns into nil when copied, exported (JSON null) or encoded")
					}
				case *ssa.MapUpdate:
					inner := stripIfaceOnly(x.Value)
					if !isContainer(inner.Type()) {
						continue
					}
					n++
					key := fmt.Sprintf("%s/stored %s", c.fname(fn), typeString(inner.Type()))
					if mayBeNil(inner) {
						o.add(VIOLATED, key, relPath(c, x.Pos()), "a container that can be nil for an empty input is stored into a document value")
					} else {
						o.add(OK, key, relPath(c, x.Pos()), "stored container is never nil")
					}
				}
			}
		}
	}
	if n == 0 {
		o.add(UNDECIDED, "containers", "-", "no container-valued returns found in util/internal/document")
	}
	return o.list
}

// ---------------------------------------------------------------- CMP8

// fromDynamicValue: v is a number or string taken out of an interface{} value
// (type assertion, type-switch binding, or a util conversion helper applied to
// an interface{}), possibly converted afterwards.
func (c *Ctx) fromDynamicValue(v ssa.Value, depth int, seen map[ssa.Value]bool) bool {
	if v == nil || seen[v] || depth > 6 {
		return false
	}
	seen[v] = true
	for _, og := range origins(v) {
		switch x := og.(type) {
		case *ssa.TypeAssert:
			if _, isIface := x.X.Type().Underlying().(*types.Interface); isIface {
				if _, toIface := x.AssertedType.Underlying().(*types.Interface); !toIface {
					return true
				}
			}
		case *ssa.Extract:
			if ta, ok := x.Tuple.(*ssa.TypeAssert); ok && x.Index == 0 {
				if _, isIface := ta.X.Type().Underlying().(*types.Interface); isIface {
					if _, toIface := ta.AssertedType.Underlying().(*types.Interface); !toIface {
						return true
					}
				}
			}
		case *ssa.Convert:
			if c.fromDynamicValue(x.X, depth+1, seen) {
				return true
			}
		case *ssa.Call:
			g := staticCallee(x)
			if g != nil && c.IsLib(c.declared(g)) && c.pkgRel(c.declared(g)) == "util" {
				for _, a := range x.Common().Args {
					if _, isIface := a.Type().Underlying().(*types.Interface); isIface {
						return true
					}
				}
			}
		}
	}
	return false
}

// CMP8: values are ordered by internal.Compare and by nothing else. Outside
// packages internal and util, no ordering comparison (<, <=, >, >=) or
// subtraction is applied to two operands that were both taken out of
// interface{} values (document fields, criteria operands, range bounds): a
// private fast path for "the common types" is a second comparator, and the two
// disagree at the edges (uint64 above MaxInt64 cast to int64, int64 differences
// that wrap, mixed int/float).
func ruleCMP8(c *Ctx) []Ob {
	o := newObs(c, "CMP8")
	n := 0
	for _, fn := range c.LibFuncs {
		rel := c.pkgRel(fn)
		if rel == "internal" || rel == "util" || strings.HasPrefix(rel, "store") {
			continue
		}
		k := 0
		for _, b := range fn.Blocks {
			for _, in := range b.Instrs {
				bo, ok := in.(*ssa.BinOp)
				if !ok {
					continue
				}
				switch bo.Op {
				case token.LSS, token.LEQ, token.GTR, token.GEQ, token.SUB:
				default:
					continue
				}
				if !c.fromDynamicValue(bo.X, 0, map[ssa.Value]bool{}) || !c.fromDynamicValue(bo.Y, 0, map[ssa.Value]bool{}) {
					continue
				}
				n++
				k++
				o.add(VIOLATED, fmt.Sprintf("%s/%s on two dynamic values #%d", c.fname(fn), bo.Op, k), relPath(c, bo.Pos()), "two values taken out of interface{} are ordered here with %s instead of internal.Compare: a second comparator that disagrees with the one behind filters, sorts and index keys for some values (uint64 above MaxInt64, wrapped differences, mixed numeric types)", bo.Op)
			}
		}
	}
	if n == 0 {
		o.add(OK, "single comparator", "-", "outside internal/util no ordering operator or subtraction is applied to two values taken out of interface{}")
	}
	return o.list
}

// ---------------------------------------------------------------- DOC1

// DOC1: how a dotted field path is walked. The function behind Get/Has/Set
// (package document: takes the path, the field map and the create flag) is
// abstractly evaluated on constant paths - the evaluator folds the string
// operations - with map lookups answered by the rule: every lookup finds a
// sub-map (the full-path case), or the k-th lookup finds nothing. The sequence
// of (map, key) lookups must be exactly the segments strings.Split(path, ".")
// gives, one level per segment, including empty segments ("a." is "a" then "");
// the map and name returned must be the last level's; without the create flag a
// miss yields (nil, nil, ""); with it, a missing inner level is created and
// linked under its segment, and nothing is created for the last segment.
func ruleDOC1(c *Ctx) []Ob {
	o := newObs(c, "DOC1")
	var walk *ssa.Function
	for _, fn := range c.LibFuncs {
		if c.pkgRel(fn) != "document" || fn.Parent() != nil || len(fn.Params) != 3 {
			continue
		}
		p := fn.Params
		if !isStringType(p[0].Type()) {
			continue
		}
		if _, ok := p[1].Type().Underlying().(*types.Map); !ok {
			continue
		}
		if bt, ok := p[2].Type().Underlying().(*types.Basic); !ok || bt.Kind() != types.Bool {
			continue
		}
		walk = fn
	}
	if walk == nil || walk.Signature.Results().Len() != 3 {
		o.add(UNDECIDED, "path walker", "-", "func(path string, fields map, create bool) (map, value, name) not found in package document")
		return softenUndecided(o.list)
	}
	pos := relPath(c, walk.Pos())
	mapT := walk.Params[1].Type()
	mapVal := func(id int64) aval { return aval{K: aTag, Tag: mapT, C: constant.MakeInt64(id)} }
	idOf := func(a aval) (int64, bool) {
		if a.C != nil && a.C.Kind() == constant.Int && (a.K == aConst || a.K == aTag) {
			k, _ := constant.Int64Val(a.C)
			return k, true
		}
		return 0, false
	}
	type look struct {
		m   int64
		key string
	}
	paths := []string{"a", "a.b", "a.b.c", "a.", ".a", "a..b", ""}
	if c.Tier == "thorough" {
		paths = append(paths, "a.b.c.d", "..", "a.b.", ".", "ab.cd.ef", "a. .b")
	}
	for _, path := range paths {
		segs := strings.Split(path, ".")
		for _, force := range []bool{false, true} {
			// miss = -1: every level exists; otherwise the lookup of segment #miss finds nothing
			for miss := -1; miss < len(segs); miss++ {
				var looks []look
				var found []int64 // the sub-map each lookup returned (-1: nothing)
				type upd struct {
					m   int64
					key string
					v   int64
				}
				var upds []upd
				next := int64(100)
				undec := ""
				te := c.newTagEval()
				te.maxVisits = 8
				te.lookupHook = func(l *ssa.Lookup, m, k aval) ([]aval, bool) {
					id, ok1 := idOf(m)
					if !ok1 || k.K != aConst || k.C == nil || k.C.Kind() != constant.String {
						undec = "a lookup whose map or key the evaluator does not know"
						return []aval{{}, {}}, true
					}
					looks = append(looks, look{id, constant.StringVal(k.C)})
					if len(looks)-1 == miss {
						found = append(found, -1)
						return []aval{{K: aTag, Tag: nil}, boolConst(false)}, true
					}
					next++
					found = append(found, next)
					return []aval{mapVal(next), boolConst(true)}, true
				}
				te.makeMapHook = func(mm *ssa.MakeMap) (aval, bool) {
					next++
					return aval{K: aConst, C: constant.MakeInt64(next)}, true
				}
				te.mapUpdateObs = func(u *ssa.MapUpdate, m, k, v aval) {
					mi, ok1 := idOf(m)
					vi, ok3 := idOf(v)
					if !ok1 || !ok3 || k.K != aConst || k.C == nil || k.C.Kind() != constant.String {
						undec = "a map assignment the evaluator cannot identify"
						return
					}
					upds = append(upds, upd{mi, constant.StringVal(k.C), vi})
				}
				outs := te.Eval(walk, []aval{{K: aConst, C: constant.MakeString(path)}, {K: aConst, C: constant.MakeInt64(1)}, boolConst(force)}, 0)
				key := fmt.Sprintf("%s/path %q create=%v miss=%d", c.fname(walk), path, force, miss)
				if undec == "" && (len(outs) != 1 || outs[0].Panic || len(outs[0].Vals) != 3) {
					undec = fmt.Sprintf("%d outcomes", len(outs))
					if len(outs) > 0 && outs[0].Panic {
						undec = "panics: " + outs[0].Why
					}
				}
				if undec != "" {
					o.add(UNDECIDED, key, pos, "%s", undec)
					continue
				}
				// expected lookups
				bad := ""
				cur := int64(1)
				wantN := len(segs)
				if !force && miss >= 0 {
					wantN = miss + 1
				}
				if len(looks) != wantN {
					bad = fmt.Sprintf("%d map lookups for %d path segments %q", len(looks), wantN, segs[:wantN])
				}
				created := map[int]int64{}
				for i := 0; bad == "" && i < len(looks); i++ {
					if looks[i].key != segs[i] {
						bad = fmt.Sprintf("level %d is looked up under %q, the segment is %q", i, looks[i].key, segs[i])
						break
					}
					if looks[i].m != cur {
						bad = fmt.Sprintf("level %d is looked up in the wrong map", i)
						break
					}
					// the map the next level lives in
					if i == miss {
						if force && i < len(segs)-1 {
							// must have been created and linked
							linked := false
							for _, u := range upds {
								if u.m == cur && u.key == segs[i] {
									linked = true
									created[i] = u.v
									cur = u.v
								}
							}
							if !linked {
								bad = fmt.Sprintf("the missing level %q is not created and linked", segs[i])
							}
						}
					} else {
						cur = found[i]
					}
				}
				if bad == "" {
					rv := outs[0].Vals
					name, _ := func() (string, bool) {
						if rv[2].K == aConst && rv[2].C != nil && rv[2].C.Kind() == constant.String {
							return constant.StringVal(rv[2].C), true
						}
						return "?", false
					}()
					mid, mok := idOf(rv[0])
					isNilMap := (rv[0].K == aConst && rv[0].C == nil) || (rv[0].K == aTag && rv[0].Tag == nil)
					switch {
					case !force && miss >= 0:
						if !isNilMap || name != "" {
							bad = "a missing level must yield (nil, nil, \"\")"
						}
					default:
						// the map holding the last segment
						wantMap := int64(1)
						for i := 0; i < len(segs)-1; i++ {
							if v, ok := created[i]; ok {
								wantMap = v
							} else if i < len(found) {
								wantMap = found[i]
							}
						}
						if !mok || mid != wantMap {
							bad = fmt.Sprintf("the map returned is not the one holding the last segment %q", segs[len(segs)-1])
						} else if name != segs[len(segs)-1] {
							bad = fmt.Sprintf("the name returned is %q, the last segment is %q", name, segs[len(segs)-1])
						}
						for _, u := range upds {
							lastLevel := true
							for i, v := range created {
								if v == u.v && i < len(segs)-1 {
									lastLevel = false
								}
							}
							if lastLevel {
								bad = fmt.Sprintf("a map is created for the last segment %q (it would replace the value stored there)", u.key)
							}
						}
					}
				}
				if bad != "" {
					o.add(VIOLATED, key, pos, "%s", bad)
				} else {
					o.add(OK, key, pos, "one lookup per segment of %q, right map and name returned", segs)
				}
			}
		}
	}
	return softenUndecided(o.list)
}

// ---------------------------------------------------------------- COD3

// kindsComparedIn: the reflect.Kind constants a set of functions compare a kind with.
func (c *Ctx) kindsComparedIn(fns map[*ssa.Function]bool) map[int64]bool {
	out := map[int64]bool{}
	for fn := range fns {
		for _, b := range fn.Blocks {
			for _, in := range b.Instrs {
				bo, ok := in.(*ssa.BinOp)
				if !ok || (bo.Op != token.EQL && bo.Op != token.NEQ) {
					continue
				}
				for _, pair := range [][2]ssa.Value{{bo.X, bo.Y}, {bo.Y, bo.X}} {
					if n, ok := pair[0].Type().(*types.Named); ok && n.Obj().Pkg() != nil && n.Obj().Pkg().Path() == "reflect" && n.Obj().Name() == "Kind" {
						if k, ok := constInt(pair[1]); ok {
							out[k] = true
						}
					}
				}
			}
		}
	}
	return out
}

// COD3: struct -> document -> struct. The writer (Normalize) renames struct
// fields to their clover names at every depth: inside pointers, slices, arrays
// and maps it recurses into. The reader (Convert, behind Document.Unmarshal)
// must rename them back at every depth the writer reaches: the container kinds
// the writer recurses through are also kinds the reader's walk distinguishes.
// A reader that only descends into struct-typed fields leaves the elements of a
// []S or map[string]S (and a *S in a fresh target) under their clover names,
// and json.Unmarshal silently drops them.
func ruleCOD3(c *Ctx) []Ob {
	o := newObs(c, "COD3")
	norm := c.lookupFunc("internal", "Normalize")
	conv := c.lookupFunc("internal", "Convert")
	if norm == nil || conv == nil {
		o.add(UNDECIDED, "model", "-", "internal.Normalize or internal.Convert not found")
		return softenUndecided(o.list)
	}
	inInternal := func(from *ssa.Function) map[*ssa.Function]bool {
		out := map[*ssa.Function]bool{}
		for f := range c.staticReach(from) {
			if c.pkgRel(f) == "internal" {
				out[f] = true
			}
		}
		return out
	}
	wk := c.kindsComparedIn(inInternal(norm))
	rfns := inInternal(conv)
	delete(rfns, norm)
	for f := range inInternal(norm) {
		if f != conv {
			// helpers shared with the writer do not count as the reader's own walk
			if !c.staticReach(conv)[f] {
				continue
			}
		}
	}
	rk := c.kindsComparedIn(rfns)
	for _, kn := range []string{"Struct", "Slice", "Map"} {
		kv, ok := c.reflectKind(kn)
		key := "Convert/renames back inside " + kn
		if !ok {
			o.add(UNDECIDED, key, "-", "reflect.%s not found", kn)
			continue
		}
		switch {
		case !wk[kv]:
			o.add(OK, key, relPath(c, norm.Pos()), "the writer does not recurse through kind %s", kn)
		case rk[kv]:
			o.add(OK, key, relPath(c, conv.Pos()), "the reader's walk distinguishes kind %s, as the writer's does", kn)
		default:
			o.add(VIOLATED, key, relPath(c, conv.Pos()), "Normalize recurses into values of kind %s and renames the struct fields it finds there to their clover names, but no function behind Convert looks at kind %s: those fields are not renamed back, and json.Unmarshal leaves them zero - a struct holding a %s of tagged structs does not survive NewDocumentOf + Unmarshal", kn, kn, strings.ToLower(kn))
		}
	}
	return o.list
}

// ---------------------------------------------------------------- CMP10

// structFieldRead reports whether instruction in reads field `name` of a reflect.StructField.
func structFieldRead(in ssa.Instruction, name string) bool {
	var st types.Type
	idx := -1
	switch x := in.(type) {
	case *ssa.FieldAddr:
		if p, ok := x.X.Type().Underlying().(*types.Pointer); ok {
			st, idx = p.Elem(), x.Field
		}
	case *ssa.Field:
		st, idx = x.X.Type(), x.Field
	}
	if st == nil || !namedIs(st, "reflect", "StructField") {
		return false
	}
	s, ok := st.Underlying().(*types.Struct)
	return ok && idx < s.NumFields() && s.Field(idx).Name() == name
}

// CMP10: a walker over the fields of a struct that skips unexported fields
// (StructField.PkgPath != "") looks at StructField.Anonymous before it skips:
// the exported fields of an embedded struct of an unexported type are promoted
// (encoding/json, through which documents are unmarshalled, includes them), so
// "embedded flattening" has to reach them. The writer (normalizeStruct) and the
// reader (rename-back walk) are held to the same rule.
func ruleCMP10(c *Ctx) []Ob {
	o := newObs(c, "CMP10")
	readsAnonymous := func(g *ssa.Function) bool {
		found := false
		for _, b := range g.Blocks {
			for _, in := range b.Instrs {
				if structFieldRead(in, "Anonymous") {
					found = true
				}
			}
		}
		return found
	}
	n := 0
	for _, fn := range c.LibFuncs {
		rel := c.pkgRel(fn)
		if rel != "internal" && rel != "document" && rel != "util" {
			continue
		}
		// edges on which the field is known to be exported
		var pkgPathReads []ssa.Instruction
		for _, b := range fn.Blocks {
			for _, in := range b.Instrs {
				if structFieldRead(in, "PkgPath") {
					pkgPathReads = append(pkgPathReads, in)
				}
			}
		}
		if len(pkgPathReads) == 0 {
			continue
		}
		isPkgPath := func(v ssa.Value) bool {
			for _, og := range origins(v) {
				if u, ok := og.(*ssa.UnOp); ok && u.Op == token.MUL {
					og = u.X
				}
				if in, ok := og.(ssa.Instruction); ok && structFieldRead(in, "PkgPath") {
					return true
				}
			}
			return false
		}
		exported := guardEdges(fn, func(cond ssa.Value, branch bool) bool {
			b, ok := cond.(*ssa.BinOp)
			if !ok || !(isPkgPath(b.X) || isPkgPath(b.Y)) {
				return false
			}
			return (b.Op == token.EQL && branch) || (b.Op == token.NEQ && !branch)
		})
		if len(exported) == 0 {
			continue
		}
		n++
		key := c.fname(fn) + "/embedded fields are looked at before unexported fields are skipped"
		ok := false
		for _, b := range fn.Blocks {
			for _, in := range b.Instrs {
				hit := structFieldRead(in, "Anonymous")
				if call, isCall := in.(ssa.CallInstruction); isCall && !hit {
					if g := staticCallee(call); g != nil && c.IsLib(c.declared(g)) && readsAnonymous(c.declared(g)) {
						hit = true
					}
				}
				if hit && !guardedBy(fn, b, exported) {
					ok = true
				}
			}
		}
		if ok {
			o.add(OK, key, relPath(c, pkgPathReads[0].Pos()), "StructField.Anonymous is read outside the branch taken for exported fields")
		} else {
			o.add(VIOLATED, key, relPath(c, pkgPathReads[0].Pos()), "every field whose PkgPath is not empty is skipped, embedded structs included: the exported fields of an embedded struct of an unexported type (type base struct{ID string}; type User struct{base; Name string}) are dropped by NewDocumentOf although they are promoted fields that encoding/json reads and writes")
		}
	}
	if n == 0 {
		o.add(UNDECIDED, "struct walkers", "-", "no function testing reflect.StructField.PkgPath was found")
	}
	return o.list
}

// ---------------------------------------------------------------- COD4

// COD4: the way back from a document to a Go value (Convert, behind
// Document.Unmarshal) does not re-encode the document's values through a codec
// that rejects values of the canonical domain. encoding/json.Marshal fails on
// +Inf, -Inf and NaN ("json: unsupported value"), which are float64 values a
// document can hold: a struct with such a field converts to a document and
// cannot be unmarshalled back.
func ruleCOD4(c *Ctx) []Ob {
	o := newObs(c, "COD4")
	conv := c.lookupFunc("internal", "Convert")
	if conv == nil {
		o.add(UNDECIDED, "model", "-", "internal.Convert not found")
		return o.list
	}
	n := 0
	fns := c.staticReach(conv)
	var list []*ssa.Function
	for f := range fns {
		list = append(list, f)
	}
	sort.Slice(list, func(i, j int) bool { return c.fname(list[i]) < c.fname(list[j]) })
	for _, f := range list {
		allCalls(f, func(ci ssa.CallInstruction) {
			switch calleeFullName(ci) {
			case "encoding/json.Marshal", "encoding/json.MarshalIndent", "(*encoding/json.Encoder).Encode":
				n++
				// keyed by the entry point and an ordinal, not by the function the call happens to sit in: moving the
				// one call into a helper is the same construct, a second call is another one
				ckey := c.fname(conv) + "/document values re-encoded through encoding/json"
				if n > 1 {
					ckey += fmt.Sprintf(" #%d", n)
				}
				o.add(VIOLATED, ckey, relPath(c, ci.Pos()), "Convert marshals the document with encoding/json before unmarshalling it into the target: json.Marshal fails on +Inf, -Inf and NaN, so type S struct{F float64} with F = +Inf converts to the document {F: +Inf} but Unmarshal fails with \"json: unsupported value: +Inf\"")
			}
		})
	}
	if n == 0 {
		o.add(OK, "Convert", relPath(c, conv.Pos()), "the reader does not pass document values through encoding/json.Marshal")
	}
	return o.list
}

// ---------------------------------------------------------------- EMPTY3

// EMPTY3: a byte slice handed through by the normaliser is never nil. Every other
// nil slice is normalised to an empty generic slice; a nil []byte that is passed
// through ((reflect.Value).Bytes() of a nil slice is nil) is written by msgpack as
// a null and read back as an untyped nil: the field changes type (and rank in the
// order) once the document has been stored. The value of Bytes() may be returned
// only where the slice is known not to be nil.
func ruleEMPTY3(c *Ctx) []Ob {
	o := newObs(c, "EMPTY3")
	norm := c.lookupFunc("internal", "Normalize")
	if norm == nil {
		o.add(UNDECIDED, "Normalize", "-", "internal.Normalize not found")
		return o.list
	}
	n := 0
	var fns []*ssa.Function
	for f := range c.staticReach(norm) {
		if c.pkgRel(f) == "internal" {
			fns = append(fns, f)
		}
	}
	sort.Slice(fns, func(i, j int) bool { return c.fname(fns[i]) < c.fname(fns[j]) })
	for _, fn := range fns {
		allCalls(fn, func(ci ssa.CallInstruction) {
			call, ok := ci.(*ssa.Call)
			if !ok || calleeFullName(call) != "(reflect.Value).Bytes" {
				return
			}
			recv := call.Call.Args[0]
			// edges on which the reflected slice / the bytes are known not to be nil
			safe := nonNilEdges(fn, sameValue(call))
			safe = append(safe, guardEdges(fn, func(cond ssa.Value, branch bool) bool {
				if ic, ok := cond.(*ssa.Call); ok && calleeFullName(ic) == "(reflect.Value).IsNil" && (ic.Call.Args[0] == recv || sameOrigin(ic.Call.Args[0], recv)) {
					return !branch
				}
				if bo, ok := cond.(*ssa.BinOp); ok {
					if lc, ok := bo.X.(*ssa.Call); ok {
						full := calleeFullName(lc)
						isLen := full == "(reflect.Value).Len"
						if b, isB := lc.Call.Value.(*ssa.Builtin); isB && b.Name() == "len" {
							isLen = true
						}
						if k, isK := constInt(bo.Y); isLen && isK && k == 0 {
							return (bo.Op == token.GTR && branch) || (bo.Op == token.NEQ && branch) || (bo.Op == token.EQL && !branch)
						}
					}
				}
				return false
			})...)
			var okAt func(v ssa.Value, at *ssa.BasicBlock, via *edge, depth int) bool
			okAt = func(v ssa.Value, at *ssa.BasicBlock, via *edge, depth int) bool {
				if depth > 5 {
					return false
				}
				switch x := v.(type) {
				case *ssa.MakeInterface:
					return okAt(x.X, at, via, depth+1)
				case *ssa.Phi:
					for i, e := range x.Edges {
						p := x.Block().Preds[i]
						var viaE *edge
						if len(p.Instrs) > 0 {
							if _, isIf := p.Instrs[len(p.Instrs)-1].(*ssa.If); isIf {
								viaE = &edge{p, p.Succs[0] == x.Block()}
							}
						}
						if !okAt(e, p, viaE, depth+1) {
							return false
						}
					}
					return true
				}
				if v != ssa.Value(call) {
					return true // another value (a fresh empty slice)
				}
				if via != nil {
					for _, e := range safe {
						if e == *via {
							return true
						}
					}
				}
				return guardedBy(fn, at, safe) || guardedBy(fn, call.Block(), safe)
			}
			for _, ret := range returnsOf(fn) {
				rv, has := returnedValue(ret, 0)
				if !has {
					continue
				}
				reaches := false
				var walk func(v ssa.Value, d int)
				walk = func(v ssa.Value, d int) {
					if d > 5 || v == nil {
						return
					}
					if v == ssa.Value(call) {
						reaches = true
					}
					switch x := v.(type) {
					case *ssa.MakeInterface:
						walk(x.X, d+1)
					case *ssa.Phi:
						for _, e := range x.Edges {
							walk(e, d+1)
						}
					}
				}
				walk(rv, 0)
				if !reaches {
					continue
				}
				n++
				key := c.fname(fn) + "/bytes handed through are not nil"
				if okAt(rv, ret.Block(), nil, 0) {
					o.add(OK, key, relPath(c, ret.Pos()), "(reflect.Value).Bytes() is returned only where the slice is known not to be nil")
				} else {
					o.add(VIOLATED, key, relPath(c, ret.Pos()), "the result of (reflect.Value).Bytes() is returned as the normal form without a nil test: a nil []byte (an unset Data []byte field) stays nil, msgpack stores it as a null, and the document read back holds an untyped nil where a []byte was written - while every other nil slice is normalised to an empty one")
				}
			}
		})
	}
	if n == 0 {
		o.add(OK, "byte pass-through", "-", "the normaliser hands no (reflect.Value).Bytes() through")
	}
	return o.list
}

// ---------------------------------------------------------------- CMP11

// CMP11: numbers compare by value across int64 / uint64 / float64: on the way into a
// comparison of floats no integer is converted to float64 (util.ToFloat64, float64(i)),
// which rounds it beyond 2^53 - int64(2^53+1) would equal float64(2^53), Eq(2^53.0)
// would select the document holding 2^53+1, and the order would stop being transitive
// (2^53+1 > 2^53 as integers, both "equal" to the float 2^53). A conversion whose result
// is an operand of the float comparator or of a float ordering test is reported; a
// conversion used in arithmetic on the way (the exact integral part of a float that lies
// within the integer's range) is not.
func ruleCMP11(c *Ctx) []Ob {
	o := newObs(c, "CMP11")
	toF := c.lookupFunc("util", "ToFloat64")
	isFloatCmp := func(g *ssa.Function) bool { return c.isFloatComparator(g, 0) }
	n := 0
	var fns []*ssa.Function
	for f := range c.comparatorFuncs() {
		fns = append(fns, f)
	}
	sort.Slice(fns, func(i, j int) bool { return c.fname(fns[i]) < c.fname(fns[j]) })
	for _, fn := range fns {
		k := 0
		for _, b := range fn.Blocks {
			for _, in := range b.Instrs {
				var conv ssa.Value
				what := ""
				switch x := in.(type) {
				case *ssa.Call:
					if g := staticCallee(x); g != nil && toF != nil && c.declared(g) == toF {
						conv, what = x, "util.ToFloat64"
					}
				case *ssa.Convert:
					from, okF := x.X.Type().Underlying().(*types.Basic)
					to, okT := x.Type().Underlying().(*types.Basic)
					if okF && okT && from.Info()&types.IsInteger != 0 && to.Kind() == types.Float64 {
						conv, what = x, "float64("+from.Name()+")"
					}
				}
				if conv == nil {
					continue
				}
				// direct use as an operand of a float comparison
				direct := ""
				for _, r := range realReferrers(conv) {
					switch y := r.(type) {
					case *ssa.Call:
						if g := staticCallee(y); g != nil && isFloatCmp(c.declared(g)) {
							direct = "an argument of " + c.fname(c.declared(g))
						}
					case *ssa.BinOp:
						switch y.Op {
						case token.LSS, token.GTR, token.LEQ, token.GEQ, token.EQL, token.NEQ:
							direct = "an operand of " + y.Op.String()
						}
					}
				}
				n++
				k++
				key := fmt.Sprintf("%s/integer to float conversion #%d", c.fname(fn), k)
				if direct == "" {
					o.add(OK, key, relPath(c, in.Pos()), "%s is not compared directly (arithmetic on an exact integral part)", what)
				} else {
					o.add(VIOLATED, key, relPath(c, in.Pos()), "the result of %s is %s: an integer beyond 2^53 is rounded before it is compared with a float, so int64(9007199254740993) equals float64(9007199254740992) - Eq(9007199254740992.0) selects the document holding ...993, Gt does not, and the order is no longer transitive", what, direct)
				}
			}
		}
	}
	if n == 0 {
		o.add(OK, "comparator", "-", "no integer is converted to float64 in the comparator")
	}
	return o.list
}

// ---------------------------------------------------------------- CMP12

// CMP12: objects are ordered lexicographically by their (key, value) sequence in
// key order. The object comparator is evaluated abstractly for every pair of key
// sets over {a, b} and every outcome of comparing the values found under a common
// key; the sign it returns must be the one the definition gives: at the first
// position where the sorted key lists differ the smaller key decides, where they
// agree the first unequal value decides, and a proper prefix sorts first. The
// sorted key lists (util.MapKeys), map lookups, len and internal.Compare are
// answered by the rule; the control flow in between is the code's own.
func ruleCMP12(c *Ctx) []Ob {
	o := newObs(c, "CMP12")
	cmp := c.lookupFunc("internal", "Compare")
	mapKeys := c.lookupFunc("util", "MapKeys")
	var objCmp *ssa.Function
	isObj := func(t types.Type) bool {
		m, ok := t.Underlying().(*types.Map)
		if !ok {
			return false
		}
		_, isI := m.Elem().Underlying().(*types.Interface)
		b, isS := m.Key().Underlying().(*types.Basic)
		return isI && isS && b.Kind() == types.String
	}
	for f := range c.comparatorFuncs() {
		if f.Parent() == nil && len(f.Params) == 2 && isObj(f.Params[0].Type()) && isObj(f.Params[1].Type()) && f.Signature.Results().Len() == 1 && isIntType(f.Signature.Results().At(0).Type()) {
			objCmp = f
		}
	}
	if objCmp == nil || cmp == nil {
		o.add(UNDECIDED, "object comparator", "-", "no function (map[string]interface{}, map[string]interface{}) int among the comparator's functions")
		return softenUndecided(o.list)
	}
	pos := relPath(c, objCmp.Pos())
	sets := [][]string{{}, {"a"}, {"b"}, {"a", "b"}}
	name := func(ks []string) string { return "{" + strings.Join(ks, ",") + "}" }
	has := func(ks []string, k string) bool {
		for _, x := range ks {
			if x == k {
				return true
			}
		}
		return false
	}
	sign := func(x int64) int {
		switch {
		case x < 0:
			return -1
		case x > 0:
			return 1
		}
		return 0
	}
	for _, k1 := range sets {
		for _, k2 := range sets {
			var common []string
			for _, k := range []string{"a", "b"} {
				if has(k1, k) && has(k2, k) {
					common = append(common, k)
				}
			}
			nOut := 1
			for range common {
				nOut *= 3
			}
			for code := 0; code < nOut; code++ {
				outcome := map[string]int64{}
				x := code
				for _, k := range common {
					outcome[k] = int64(x%3) - 1
					x /= 3
				}
				// the definition
				want := 0
				for i := 0; i < len(k1) && i < len(k2) && want == 0; i++ {
					switch {
					case k1[i] < k2[i]:
						want = -1
					case k1[i] > k2[i]:
						want = 1
					default:
						want = sign(outcome[k1[i]])
					}
				}
				if want == 0 {
					want = sign(int64(len(k1) - len(k2)))
				}
				key := fmt.Sprintf("%s vs %s", name(k1), name(k2))
				if len(common) > 0 {
					var parts []string
					for _, k := range common {
						parts = append(parts, fmt.Sprintf("%s:%+d", k, outcome[k]))
					}
					key += " values " + strings.Join(parts, " ")
				}
				keysOf := func(a aval) ([]string, string, bool) {
					if a.K == aConst && a.C != nil && a.C.Kind() == constant.String {
						switch constant.StringVal(a.C) {
						case "m1":
							return k1, "m1", true
						case "m2":
							return k2, "m2", true
						}
					}
					return nil, "", false
				}
				undec := ""
				te := c.newTagEval()
				te.descendUnknown = true
				te.maxVisits = 12
				te.lookupHook = func(l *ssa.Lookup, m, k aval) ([]aval, bool) {
					ks, id, ok := keysOf(m)
					if !ok || k.K != aConst || k.C == nil || k.C.Kind() != constant.String {
						undec = "a lookup whose map or key is not known"
						return []aval{{}, {}}, true
					}
					kk := constant.StringVal(k.C)
					if !has(ks, kk) {
						return []aval{{K: aTag, Tag: nil}, boolConst(false)}, true
					}
					return []aval{{K: aConst, C: constant.MakeString(id + ":" + kk)}, boolConst(true)}, true
				}
				te.callHookEnv = func(call *ssa.Call, val func(ssa.Value) aval) ([]aval, bool) {
					cc := call.Common()
					if b, ok := cc.Value.(*ssa.Builtin); ok && b.Name() == "len" {
						if ks, _, ok := keysOf(val(cc.Args[0])); ok {
							return []aval{{K: aConst, C: constant.MakeInt64(int64(len(ks)))}}, true
						}
						return nil, false
					}
					g := staticCallee(call)
					if g == nil {
						return nil, false
					}
					switch c.declared(g) {
					case mapKeys:
						ks, _, ok := keysOf(val(cc.Args[0]))
						if !ok {
							undec = "util.MapKeys of an unknown map"
							return []aval{{}}, true
						}
						sorted := true
						if len(cc.Args) > 1 {
							if sv := val(cc.Args[1]); !(sv.K == aConst && sv.C != nil && sv.C.Kind() == constant.Bool && constant.BoolVal(sv.C)) {
								sorted = false
							}
						}
						if !sorted {
							undec = "util.MapKeys asked for unsorted keys"
							return []aval{{}}, true
						}
						var l []aval
						for _, k := range ks {
							l = append(l, aval{K: aConst, C: constant.MakeString(k)})
						}
						return []aval{{K: aList, L: l}}, true
					case cmp:
						a, b := val(cc.Args[0]), val(cc.Args[1])
						sa, sb := "", ""
						if a.K == aConst && a.C != nil && a.C.Kind() == constant.String {
							sa = constant.StringVal(a.C)
						}
						if b.K == aConst && b.C != nil && b.C.Kind() == constant.String {
							sb = constant.StringVal(b.C)
						}
						// m1:k against m2:k
						if strings.HasPrefix(sa, "m1:") && strings.HasPrefix(sb, "m2:") && sa[3:] == sb[3:] {
							return []aval{{K: aConst, C: constant.MakeInt64(outcome[sa[3:]])}}, true
						}
						if strings.HasPrefix(sa, "m2:") && strings.HasPrefix(sb, "m1:") && sa[3:] == sb[3:] {
							return []aval{{K: aConst, C: constant.MakeInt64(-outcome[sa[3:]])}}, true
						}
						// values of different keys, or a missing value, compared: the outcome is not one of the table's
						undec = fmt.Sprintf("internal.Compare applied to %s and %s (not the two values of one key)", a, b)
						return []aval{{}}, true
					}
					return nil, false
				}
				outs := te.Eval(objCmp, []aval{{K: aConst, C: constant.MakeString("m1")}, {K: aConst, C: constant.MakeString("m2")}}, 0)
				bad := ""
				for _, oc := range outs {
					if oc.Panic {
						bad = "panics: " + oc.Why
						continue
					}
					r, ok := constIntOf(oc.Vals[0])
					if !ok {
						if undec == "" {
							undec = "the result is not a constant"
						}
						continue
					}
					if sign(r) != want {
						bad = fmt.Sprintf("returns %d, the lexicographic order of the (key, value) sequences gives %+d", r, want)
					}
				}
				switch {
				case bad != "":
					o.add(VIOLATED, key, pos, "%s: %s - the comparison is no longer the lexicographic order on sorted (key, value) sequences (nor sign-antisymmetric), and it disagrees with the index keys, which encode exactly that sequence", c.fname(objCmp), bad)
				case undec != "" || len(outs) == 0:
					o.add(UNDECIDED, key, pos, "not decided by abstract evaluation: %s", undec)
				default:
					o.add(OK, key, pos, "= %+d", want)
				}
			}
		}
	}
	return softenUndecided(o.list)
}

// ---------------------------------------------------------------- CMP13 / DET1

// CMP13: pointers are followed to nil or a value "of any depth": the loop of the
// normaliser that dereferences (it calls (reflect.Value).Elem while the kind is Ptr)
// also goes through interface values, which is what a pointer to an interface{}
// variable points to: otherwise &x with x = interface{}(5) is refused as an
// "invalid dtype" (and silently dropped by Document.Set), while the same pointer is
// accepted when the interface holds a time.
func ruleCMP13(c *Ctx) []Ob {
	o := newObs(c, "CMP13")
	norm := c.lookupFunc("internal", "Normalize")
	if norm == nil {
		o.add(UNDECIDED, "Normalize", "-", "internal.Normalize not found")
		return softenUndecided(o.list)
	}
	ptrK, ok1 := c.reflectKind("Ptr")
	ifaceK, ok2 := c.reflectKind("Interface")
	if !ok1 || !ok2 {
		o.add(UNDECIDED, "reflect", "-", "reflect.Ptr / reflect.Interface not found")
		return softenUndecided(o.list)
	}
	n := 0
	var fns []*ssa.Function
	for f := range c.staticReach(norm) {
		if c.pkgRel(f) == "internal" {
			fns = append(fns, f)
		}
	}
	sort.Slice(fns, func(i, j int) bool { return c.fname(fns[i]) < c.fname(fns[j]) })
	for _, fn := range fns {
		// only where the value walked is of unknown dynamic type: reflect.ValueOf of an interface{} parameter
		// (the field of a struct type whose static type is a chain of pointers to a struct cannot hold an interface)
		fromAny := false
		allCalls(fn, func(ci ssa.CallInstruction) {
			if calleeFullName(ci) != "reflect.ValueOf" || len(ci.Common().Args) != 1 {
				return
			}
			for _, og := range origins(ci.Common().Args[0]) {
				if p, ok := og.(*ssa.Parameter); ok {
					if _, isI := p.Type().Underlying().(*types.Interface); isI {
						fromAny = true
					}
				}
			}
		})
		if !fromAny {
			continue
		}
		li := c.loops(fn)
		for h, body := range li.loops {
			derefs := false
			kinds := map[int64]bool{}
			for b := range body {
				for _, in := range b.Instrs {
					if call, ok := in.(*ssa.Call); ok && calleeFullName(call) == "(reflect.Value).Elem" {
						derefs = true
					}
					if bo, ok := in.(*ssa.BinOp); ok && (bo.Op == token.EQL || bo.Op == token.NEQ) && namedIs(bo.X.Type(), "reflect", "Kind") {
						if k, isK := constInt(bo.Y); isK {
							kinds[k] = true
						}
					}
				}
			}
			if !derefs || !kinds[ptrK] {
				continue
			}
			n++
			key := c.fname(fn) + "/the dereferencing loop goes through interfaces"
			pos := relPath(c, h.Instrs[0].Pos())
			if pos == "-" {
				pos = relPath(c, fn.Pos())
			}
			if kinds[ifaceK] {
				o.add(OK, key, pos, "the loop continues on kind Ptr and on kind Interface")
			} else {
				o.add(VIOLATED, key, pos, "the loop that follows pointers stops at a value of kind Interface: a pointer to an interface{} variable (&x with x = interface{}(5)) ends on the interface, which the kind dispatch rejects as \"invalid dtype\" - Document.Set then drops the value silently and NewDocumentOf returns nil for a struct with a *interface{} field")
			}
		}
	}
	if n == 0 {
		o.add(INFO, "dereferencing loop", "-", "no loop calling (reflect.Value).Elem on kind Ptr in what Normalize reaches")
	}
	return o.list
}

// DET1: the document API is deterministic: no function of package document applies
// Set (or another mutator of the document) once per entry of a map in the map's own
// iteration order. Names given together can overlap ("a" and "a.b": the first replaces
// the object the second writes into), so the outcome would depend on Go's randomised
// map order - the same Update giving different stored documents on different runs.
func ruleDET1(c *Ctx) []Ob {
	o := newObs(c, "DET1")
	setM := c.lookupMethod("document", "Document", "Set")
	n := 0
	for _, fn := range c.LibFuncs {
		if c.pkgRel(fn) != "document" {
			continue
		}
		k := 0
		allCalls(fn, func(ci ssa.CallInstruction) {
			g := staticCallee(ci)
			if g == nil || setM == nil || c.declared(g) != setM || !c.inLoop(ci.Block()) {
				return
			}
			h, body := c.innermostLoop(ci.Block())
			if h == nil {
				return
			}
			n++
			k++
			key := fmt.Sprintf("%s/Set applied in a loop #%d", c.fname(fn), k)
			overMap := false
			for b := range body {
				for _, in := range b.Instrs {
					if nx, ok := in.(*ssa.Next); ok && !nx.IsString {
						if rg, ok := nx.Iter.(*ssa.Range); ok {
							if _, isMap := rg.X.Type().Underlying().(*types.Map); isMap {
								overMap = true
							}
						}
					}
				}
			}
			if overMap {
				o.add(VIOLATED, key, relPath(c, ci.Pos()), "Document.Set is applied once per entry of a map in the map's iteration order: with names that overlap ({\"a\": {\"c\": 1}, \"a.b\": 2}) the result depends on which comes first, and Go randomises that order - the same SetAll / Update stores different documents on different runs")
			} else {
				o.add(OK, key, relPath(c, ci.Pos()), "the loop runs over a slice (an ordered list of names), not over a map")
			}
		})
	}
	if n == 0 {
		o.add(OK, "Set in loops", "-", "package document applies Set in no loop")
	}
	return o.list
}
