package main

import (
	"fmt"
	"go/token"
	"go/types"
	"strings"

	"golang.org/x/tools/go/ssa"
)

// ---------------------------------------------------------------- ERR1

// err1Exceptions: enclosing function -> callee -> reason. One named symbol each.
var err1Exceptions = map[string]map[string]string{
	"document.newDocumentOf": {"internal.Normalize": "documented: an unconvertible value yields the nil document"},
	"NewObjectId":            {"NewV4": "random source failure of the uuid library, not a store error"},
}

var cleanupMethods = map[string]bool{"Rollback": true, "Close": true, "Discard": true, "Stop": true, "Done": true}

func (c *Ctx) calleeName(call ssa.CallInstruction) string {
	if f := staticCallee(call); f != nil {
		f = c.declared(f)
		if c.IsLib(f) {
			return c.fname(f)
		}
	}
	return calleeShort(call)
}

func calleeShort(call ssa.CallInstruction) string {
	n := calleeFullName(call)
	if n == "" {
		v := call.Common().Value
		if p, ok := v.(*ssa.Parameter); ok {
			return "callback " + p.Name()
		}
		if fv, ok := v.(*ssa.FreeVar); ok {
			return "callback " + fv.Name()
		}
		if _, f, n := fieldLoad(v); f != "" {
			return "callback " + namedName(n) + "." + f
		}
		for _, o := range origins(v) {
			if p, ok := o.(*ssa.Parameter); ok {
				return "callback " + p.Name()
			}
		}
		return "dynamic call"
	}
	return shortName(n)
}

func ruleERR1(c *Ctx) []Ob {
	o := newObs(c, "ERR1")
	for _, fn := range c.LibFuncs {
		fnName := c.fname(fn)
		allCalls(fn, func(ci ssa.CallInstruction) {
			sig := ci.Common().Signature()
			ei := errResultIndex(sig)
			if ei < 0 {
				return
			}
			callee := c.calleeName(ci)
			key := fnName + "/" + callee
			pos := relPath(c, ci.Pos())
			switch x := ci.(type) {
			case *ssa.Defer:
				m := ""
				if x.Call.IsInvoke() {
					m = x.Call.Method.Name()
				} else if f := staticCallee(x); f != nil {
					m = f.Name()
				}
				if cleanupMethods[m] {
					o.add(OK, key+" (deferred)", pos, "deferred cleanup after the outcome is decided")
				} else {
					o.add(VIOLATED, key+" (deferred)", pos, "the error of a deferred %s is dropped", callee)
				}
				return
			case *ssa.Go:
				o.add(VIOLATED, key+" (go)", pos, "error of a call started with `go` is dropped")
				return
			case *ssa.Call:
				used := false
				if sig.Results().Len() == 1 {
					used = len(realReferrers(x)) > 0
				} else {
					for _, e := range extractsOf(x, ei) {
						if len(realReferrers(e)) > 0 {
							used = true
						}
					}
				}
				if used {
					o.add(OK, key, pos, "error result is examined or propagated")
					return
				}
				if ex, ok := err1Exceptions[fnName]; ok {
					for cal, reason := range ex {
						if strings.HasSuffix(callee, cal) || callee == cal {
							o.add(INFO, key, pos, "exception: %s", reason)
							return
						}
					}
				}
				if c.isRollback(ci) && c.failureAlreadyReported(fn, x) {
					o.add(INFO, key, pos, "rollback on a path that already reports a failure (or re-raises a panic): its own error cannot be reported as well")
					return
				}
				// a cleanup call inside a result-less wrapper that is itself only ever deferred
				{
					m := ""
					if x.Call.IsInvoke() {
						m = x.Call.Method.Name()
					} else if f := staticCallee(x); f != nil {
						m = f.Name()
					}
					if cleanupMethods[m] && fn.Signature.Results().Len() == 0 {
						sites := c.staticCallers(fn)
						allDeferred := len(sites) > 0
						for _, s := range sites {
							if _, isDefer := s.(*ssa.Defer); !isDefer {
								allDeferred = false
							}
						}
						if allDeferred {
							o.add(OK, key+" (deferred)", pos, "cleanup inside %s, which is only ever deferred: after the outcome is decided", fnName)
							return
						}
					}
				}
				full := calleeFullName(ci)
				if strings.HasPrefix(full, "(*bytes.Buffer).") || strings.HasPrefix(full, "(*strings.Builder).") {
					o.add(INFO, key, pos, "in-memory writer: documented to always return a nil error")
					return
				}
				o.add(VIOLATED, key, pos, "the error returned by %s is dropped: a failure here is reported as success", callee)
			}
		})
	}
	return o.list
}

// ---------------------------------------------------------------- ERR2

var allowedSentinels = map[string]string{
	"/internal.ErrStopIteration":                    "iteration stop requested by the consumer",
	"github.com/dgraph-io/badger/v4.ErrKeyNotFound": "adapter maps not-found to (nil, nil)",
	"io.EOF": "end of input reported by a reader or decoder: the expected outcome of reading to the end, not a failure",
}

func (c *Ctx) sentinelAllowed(target ssa.Value) bool {
	g := globalLoad(target)
	if g == nil {
		return false
	}
	n := globalFullName(g)
	for suf := range allowedSentinels {
		if strings.HasSuffix(n, suf) {
			return true
		}
	}
	// an unexported package-level error of the library is an internal control signal: it can
	// neither come from the store nor be observed by callers (e.g. "roll back, report success")
	if g.Pkg != nil && c.LibPkgs[g.Pkg.Pkg.Path()] != nil && g.Object() != nil && !g.Object().Exported() {
		return true
	}
	return false
}

func ruleERR2(c *Ctx) []Ob {
	o := newObs(c, "ERR2")
	for _, fn := range c.LibFuncs {
		ei := errResultIndex(fn.Signature)
		if ei < 0 || len(fn.Blocks) == 0 {
			continue
		}
		// edges on which some error value is known to be non-nil
		type trig struct {
			e    edge
			val  ssa.Value
			what string
		}
		var trigs []trig
		var allowedEdges []edge
		ifEdges(fn, func(cond ssa.Value, e edge) {
			if x, tnil, ok := nilTest(cond); ok && isErrorType(x.Type()) {
				if e.Branch != tnil {
					trigs = append(trigs, trig{e, x, describeValue(c, x) + " != nil"})
				}
				return
			}
			// err == sentinel / err != sentinel
			if bo, ok := cond.(*ssa.BinOp); ok && (bo.Op == token.EQL || bo.Op == token.NEQ) && isErrorType(bo.X.Type()) {
				for _, pair := range [][2]ssa.Value{{bo.X, bo.Y}, {bo.Y, bo.X}} {
					if g := globalLoad(pair[1]); g != nil && (bo.Op == token.EQL) == e.Branch {
						if c.sentinelAllowed(pair[1]) {
							allowedEdges = append(allowedEdges, e)
						} else {
							trigs = append(trigs, trig{e, pair[0], describeValue(c, pair[0]) + " == " + g.Name()})
						}
						return
					}
				}
			}
			if ev, target, ok := errorsIsCall(cond); ok && e.Branch {
				if c.sentinelAllowed(target) {
					allowedEdges = append(allowedEdges, e)
				} else {
					trigs = append(trigs, trig{e, ev, "errors.Is(" + describeValue(c, ev) + ", " + describeValue(c, target) + ")"})
				}
			}
		})
		for _, t := range trigs {
			reach := reachableFrom(t.e.to(), true)
			bad := ""
			for _, ret := range returnsOf(fn) {
				if !reach[ret.Block()] {
					continue
				}
				// the return must be reachable from the edge *only*; if it is also reachable
				// around the edge it is the ordinary success exit, which the edge merely
				// falls through to: that is exactly a swallowed error.
				rv, ok := returnedValue(ret, ei)
				if !ok || !isNilConst(rv) {
					continue
				}
				if guardedBy(fn, ret.Block(), allowedEdges) {
					continue
				}
				// a loop back edge may lead from the error branch to the common exit only
				// through re-testing; require that the path does not re-enter through the
				// block that defines the error (then it is a new iteration, new error value)
				if !c.reachesWithoutRedefinition(t.e.to(), ret.Block(), t.val) {
					continue
				}
				bad = relPath(c, ret.Pos())
			}
			key := c.fname(fn) + "/" + t.what
			pos := relPath(c, t.e.From.Instrs[len(t.e.From.Instrs)-1].Pos())
			if bad != "" {
				o.add(VIOLATED, key, pos, "on the branch where %s the function can return a nil error (at %s): an error is converted into success", t.what, bad)
			} else {
				o.add(OK, key, pos, "no nil-error return is reachable from the branch where the error is set (stop/not-found sentinels excepted)")
			}
		}
	}
	return o.list
}

// reachesWithoutRedefinition: is `to` reachable from `from` without passing
// through the block that defines val (for values defined by an instruction)?
func (c *Ctx) reachesWithoutRedefinition(from, to *ssa.BasicBlock, val ssa.Value) bool {
	var def *ssa.BasicBlock
	if in, ok := val.(ssa.Instruction); ok {
		def = in.Block()
	}
	seen := map[*ssa.BasicBlock]bool{from: true}
	stack := []*ssa.BasicBlock{from}
	for len(stack) > 0 {
		b := stack[len(stack)-1]
		stack = stack[:len(stack)-1]
		if b == to {
			return true
		}
		for _, s := range b.Succs {
			if s == def && s != to {
				continue
			}
			if !seen[s] {
				seen[s] = true
				stack = append(stack, s)
			}
		}
	}
	return false
}

// ---------------------------------------------------------------- ERR3

// isElementCallback: a call that hands one element to an error-returning
// callback: a dynamic func value, planNode.Callback, or a forwarder to it.
func (c *Ctx) isElementCallback(call ssa.CallInstruction) bool {
	cc := call.Common()
	sig := cc.Signature()
	if errResultIndex(sig) < 0 || sig.Results().Len() != 1 {
		return false
	}
	if cc.IsInvoke() {
		return cc.Method.Name() == "Callback" && cc.Method.Pkg() != nil && cc.Method.Pkg().Path() == c.ModPath
	}
	if f := staticCallee(call); f != nil {
		f = c.declared(f)
		if !c.IsLib(f) || f.Parent() != nil {
			return false
		}
		// a forwarder: its body invokes planNode.Callback
		fwd := false
		allCalls(f, func(in ssa.CallInstruction) {
			ic := in.Common()
			if ic.IsInvoke() && ic.Method.Name() == "Callback" && ic.Method.Pkg() != nil && ic.Method.Pkg().Path() == c.ModPath {
				fwd = true
			}
		})
		return fwd && len(f.Blocks) <= 4
	}
	if _, ok := cc.Value.(*ssa.Builtin); ok {
		return false
	}
	if closureFn(cc.Value) != nil {
		return false
	}
	// a function taken from a package-level table is the library's own code, not a consumer
	v := cc.Value
	for i := 0; i < 10; i++ {
		switch x := v.(type) {
		case *ssa.Field:
			v = x.X
			continue
		case *ssa.Index:
			v = x.X
			continue
		case *ssa.FieldAddr:
			v = x.X
			continue
		case *ssa.IndexAddr:
			v = x.X
			continue
		case *ssa.Lookup:
			v = x.X
			continue
		case *ssa.UnOp:
			if x.Op == token.MUL {
				v = x.X
				continue
			}
		case *ssa.Alloc:
			// the local copy of a table entry (for _, e := range table)
			if vals := storesTo(x); len(vals) == 1 {
				v = vals[0]
				continue
			}
		case *ssa.Global:
			return false
		}
		break
	}
	// dynamic call of a func value with parameters (an element consumer)
	return sig.Params().Len() >= 1
}

func ruleERR3(c *Ctx) []Ob {
	o := newObs(c, "ERR3")
	for _, fn := range c.LibFuncs {
		ei := errResultIndex(fn.Signature)
		for _, b := range fn.Blocks {
			for _, in := range b.Instrs {
				call, ok := in.(*ssa.Call)
				if !ok || !c.isElementCallback(call) || !c.inLoop(b) {
					continue
				}
				key := c.fname(fn) + "/" + c.calleeName(call)
				pos := relPath(c, call.Pos())
				if len(realReferrers(call)) == 0 {
					o.add(VIOLATED, key, pos, "the callback's error is ignored inside the loop: neither an error nor a stop request ends the iteration")
					continue
				}
				isErr := func(x ssa.Value) bool {
					for _, og := range origins(x) {
						if og == ssa.Value(call) {
							return true
						}
					}
					return false
				}
				_, body := c.innermostLoop(b)
				// (2) a non-nil error leaves the loop
				nn := nonNilEdges(fn, isErr)
				var stopEdges []edge
				ifEdges(fn, func(cond ssa.Value, e edge) {
					if ev, target, ok := errorsIsCall(cond); ok && e.Branch && isErr(ev) {
						if g := globalLoad(target); g != nil && strings.HasSuffix(globalFullName(g), "/internal.ErrStopIteration") {
							stopEdges = append(stopEdges, e)
						}
					}
				})
				if len(nn) == 0 && len(stopEdges) == 0 {
					// returned directly?
					direct := false
					for _, r := range realReferrers(call) {
						if _, ok := r.(*ssa.Return); ok {
							direct = true
						}
						if st, ok := r.(*ssa.Store); ok && st.Val == ssa.Value(call) {
							direct = true // spilled result, returned below
						}
					}
					if direct && ei >= 0 {
						o.add(OK, key, pos, "the callback's error is returned as is, which leaves the loop")
					} else {
						o.add(VIOLATED, key, pos, "the callback's error is never tested against nil inside the loop")
					}
					continue
				}
				continues := false
				for _, e := range nn {
					// within the loop body, can we get back to the call block?
					seen := map[*ssa.BasicBlock]bool{}
					stack := []*ssa.BasicBlock{e.to()}
					for len(stack) > 0 {
						x := stack[len(stack)-1]
						stack = stack[:len(stack)-1]
						if seen[x] || (body != nil && !body[x]) {
							continue
						}
						seen[x] = true
						if x == b {
							continues = true
						}
						stack = append(stack, x.Succs...)
					}
				}
				if continues {
					o.add(VIOLATED, key, pos, "after a non-nil callback error the loop continues with the next element")
					continue
				}
				// (3) the stop sentinel is translated into a nil return here
				translated := false
				if ei >= 0 {
					for _, ret := range returnsOf(fn) {
						rv, ok := returnedValue(ret, ei)
						if ok && isNilConst(rv) && len(stopEdges) > 0 && guardedBy(fn, ret.Block(), stopEdges) {
							translated = true
						}
					}
				}
				if !translated {
					o.add(VIOLATED, key, pos, "the iteration-stop sentinel returned by the callback is not translated into a nil return at this loop: it would escape to the caller as an error")
					continue
				}
				o.add(OK, key, pos, "callback error tested; non-nil leaves the loop; stop sentinel becomes a nil return")
			}
		}
	}
	return o.list
}

var _ = fmt.Sprint
var _ types.Type

// ---------------------------------------------------------------- ERR4

// ERR4: an error result that is looked at somewhere is looked at before the
// function reports success. For a call whose error result e is bound, every
// path from the call to a `return ..., nil` crosses an edge on which e is known
// to be nil, or on which e was recognised as a sentinel (errors.Is / ==).
// (ERR1 asks that e is used at all; this asks that no path to success skips
// the test, e.g. `ok, err := probe(); if !ok { return nil }; if err != nil ...`.)
func ruleERR4(c *Ctx) []Ob {
	o := newObs(c, "ERR4")
	for _, fn := range c.LibFuncs {
		errIdx := errResultIndex(fn.Signature)
		if errIdx < 0 || len(fn.Blocks) == 0 {
			continue
		}
		var nilRets []*ssa.Return
		for _, ret := range returnsOf(fn) {
			if rv, ok := returnedValue(ret, errIdx); ok && isNilConst(rv) {
				nilRets = append(nilRets, ret)
			}
		}
		if len(nilRets) == 0 {
			continue
		}
		n := 0
		for _, b := range fn.Blocks {
			for _, in := range b.Instrs {
				call, ok := in.(*ssa.Call)
				if !ok {
					continue
				}
				sig := call.Common().Signature()
				ei := errResultIndex(sig)
				if ei < 0 {
					continue
				}
				evs := resultValues(call, ei)
				if len(evs) == 0 {
					continue
				}
				isE := func(x ssa.Value) bool {
					for _, og := range origins(x) {
						for _, e := range evs {
							if og == e {
								return true
							}
						}
					}
					return false
				}
				// the error is handed on as a value (returned, stored, passed): not this rule's business
				var cut []edge
				cut = append(cut, nilEdges(fn, isE)...)
				ifEdges(fn, func(cond ssa.Value, e edge) {
					if ev, _, ok := errorsIsCall(cond); ok && isE(ev) && e.Branch {
						cut = append(cut, e)
					}
					if bo, ok := cond.(*ssa.BinOp); ok && (bo.Op == token.EQL || bo.Op == token.NEQ) {
						if (isE(bo.X) && globalLoad(bo.Y) != nil) || (isE(bo.Y) && globalLoad(bo.X) != nil) {
							if e.Branch == (bo.Op == token.EQL) {
								cut = append(cut, e)
							}
						}
					}
				})
				// a companion boolean result that the callee sets to one constant whenever its error may be non-nil
				// ((stop bool, err error): err != nil only with stop == true): the branch on which the boolean has
				// the other value is a nil-error edge too
				if g := staticCallee(call); g != nil && c.IsLib(c.declared(g)) {
					g = c.declared(g)
					for bi := 0; bi < sig.Results().Len(); bi++ {
						bt, isB := sig.Results().At(bi).Type().Underlying().(*types.Basic)
						if !isB || bt.Kind() != types.Bool || bi == ei {
							continue
						}
						// the value of result bi on every return whose error may be non-nil
						var withErr *bool
						consistent := true
						for _, ret := range returnsOf(g) {
							erv, has := returnedValue(ret, ei)
							if !has {
								continue
							}
							if isNilConst(erv) {
								continue
							}
							brv, hasB := returnedValue(ret, bi)
							if !hasB {
								consistent = false
								continue
							}
							kb, isK := constBool(brv)
							if !isK {
								consistent = false
								continue
							}
							if withErr == nil {
								v := kb
								withErr = &v
							} else if *withErr != kb {
								consistent = false
							}
						}
						if !consistent || withErr == nil {
							continue
						}
						bvs := resultValues(call, bi)
						ifEdges(fn, func(cond ssa.Value, e edge) {
							for _, bv := range bvs {
								if cond == bv && e.Branch != *withErr {
									cut = append(cut, e)
								}
							}
						})
					}
				}
				cutSet := map[edge]bool{}
				for _, e := range cut {
					cutSet[e] = true
				}
				n++
				key := fmt.Sprintf("%s/%s", c.fname(fn), shortCallee(call))
				if n > 1 {
					key = fmt.Sprintf("%s #%d", key, n)
				}
				// walk from the call
				seen := map[*ssa.BasicBlock]bool{}
				stack := []*ssa.BasicBlock{b}
				first := true
				bad := ""
				for len(stack) > 0 && bad == "" {
					x := stack[len(stack)-1]
					stack = stack[:len(stack)-1]
					if seen[x] && !(first) {
						continue
					}
					if !first {
						seen[x] = true
						for _, r := range nilRets {
							if r.Block() == x {
								bad = relPath(c, r.Pos())
							}
						}
					} else {
						// the call's own block: a nil return in it comes after the call
						for _, r := range nilRets {
							if r.Block() == x {
								bad = relPath(c, r.Pos())
							}
						}
					}
					first = false
					isIf := false
					if len(x.Instrs) > 0 {
						_, isIf = x.Instrs[len(x.Instrs)-1].(*ssa.If)
					}
					for i, s := range x.Succs {
						if isIf && cutSet[edge{x, i == 0}] {
							continue
						}
						if !seen[s] {
							stack = append(stack, s)
						}
					}
				}
				if bad == "" {
					o.add(OK, key, relPath(c, call.Pos()), "no success return is reachable from the call without a nil (or sentinel) test of its error")
				} else {
					o.add(VIOLATED, key, relPath(c, call.Pos()), "the function can return success at %s on a path from this call that never tests the call's error: a failure of %s is swallowed into a success", bad, shortCallee(call))
				}
			}
		}
	}
	return o.list
}

func shortCallee(call ssa.CallInstruction) string {
	full := calleeFullName(call)
	if i := strings.LastIndex(full, "/"); i >= 0 {
		full = full[i+1:]
	}
	return full
}

// failureAlreadyReported: every way on from the call ends in a panic, in a
// return whose error is provably non-nil, or - in a function without an error
// result - the call is only reached when an *error parameter holds an error.
func (c *Ctx) failureAlreadyReported(fn *ssa.Function, call *ssa.Call) bool {
	errIdx := errResultIndex(fn.Signature)
	if errIdx < 0 {
		for _, p := range fn.Params {
			pt, ok := p.Type().(*types.Pointer)
			if !ok || !isErrorType(pt.Elem()) {
				continue
			}
			p := p
			isLoad := func(x ssa.Value) bool {
				u, ok := x.(*ssa.UnOp)
				return ok && u.Op == token.MUL && u.X == ssa.Value(p)
			}
			if guardedBy(fn, call.Block(), nonNilEdges(fn, isLoad)) {
				return true
			}
		}
	}
	seen := map[*ssa.BasicBlock]bool{}
	stack := []*ssa.BasicBlock{call.Block()}
	for len(stack) > 0 {
		b := stack[len(stack)-1]
		stack = stack[:len(stack)-1]
		if seen[b] {
			continue
		}
		seen[b] = true
		last := b.Instrs[len(b.Instrs)-1]
		switch x := last.(type) {
		case *ssa.Panic:
			continue
		case *ssa.Return:
			if errIdx < 0 {
				return false
			}
			ev, ok := returnedValue(x, errIdx)
			if !ok || !c.provablyNonNil(fn, ev, b) {
				return false
			}
			continue
		}
		stack = append(stack, b.Succs...)
	}
	return true
}
