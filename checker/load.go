package main

import (
	"fmt"
	"go/ast"
	"go/token"
	"go/types"
	"os"
	"path/filepath"
	"sort"
	"strings"

	"golang.org/x/tools/go/packages"
	"golang.org/x/tools/go/ssa"
	"golang.org/x/tools/go/ssa/ssautil"
)

// Ctx is everything the rules see: the type-checked program of /repo as it is
// on disk right now, its SSA form, and role tables discovered from it.
type Ctx struct {
	Repo    string
	ModPath string
	Tier    string
	Fset    *token.FileSet
	Initial []*packages.Package
	Prog    *ssa.Program

	// library packages (module packages outside examples/), by import path
	LibPkgs  map[string]*ssa.Package
	LibTypes map[string]*packages.Package
	// all source-level functions of the library, including closures
	LibFuncs []*ssa.Function

	funcSet map[*ssa.Function]bool

	// caches
	effCache         map[*ssa.Function]Eff
	callers          map[*ssa.Function][]ssa.CallInstruction
	implsCache       map[*types.Func][]*ssa.Function
	domCache         map[*ssa.Function]*loopInfo
	keyEval          *keyEvaluator
	roles            *Roles
	km               *keyModel
	funcTables       map[*ssa.Global][]*ssa.Function
	satPanics        map[token.Pos]bool
	satPanicsDecided bool
	inPlaceMemo      map[*ssa.Function][]int
	inPlaceBusy      map[*ssa.Function]bool
	keptMemo         map[interface{}]bool

	// statistics for evidence
	NPackages int
	NFuncs    int
	NCalls    int
	Whole     bool // whole-program bodies built (thorough)
}

func relPath(c *Ctx, pos token.Pos) string {
	if !pos.IsValid() {
		return "-"
	}
	p := c.Fset.Position(pos)
	f := p.Filename
	if r, err := filepath.Rel(c.Repo, f); err == nil && !strings.HasPrefix(r, "..") {
		f = r
	}
	return fmt.Sprintf("%s:%d:%d", f, p.Line, p.Column)
}

func readModPath(repo string) (string, error) {
	b, err := os.ReadFile(filepath.Join(repo, "go.mod"))
	if err != nil {
		return "", err
	}
	for _, l := range strings.Split(string(b), "\n") {
		l = strings.TrimSpace(l)
		if strings.HasPrefix(l, "module ") {
			return strings.TrimSpace(strings.TrimPrefix(l, "module ")), nil
		}
	}
	return "", fmt.Errorf("no module line in go.mod")
}

// Load type-checks ./... of repo and builds SSA. Any load or type error is a
// checker failure (never "held").
func Load(repo, tier string) (*Ctx, error) {
	mod, err := readModPath(repo)
	if err != nil {
		return nil, err
	}
	fset := token.NewFileSet()
	cfg := &packages.Config{
		Mode:  packages.LoadAllSyntax,
		Dir:   repo,
		Fset:  fset,
		Tests: false,
		Env: append(os.Environ(), "GOFLAGS=-mod=mod", "GOPROXY=off", "GOSUMDB=off",
			"GOTOOLCHAIN=local", "GOWORK=off"),
	}
	initial, err := packages.Load(cfg, "./...")
	if err != nil {
		return nil, fmt.Errorf("load: %v", err)
	}
	if len(initial) == 0 {
		return nil, fmt.Errorf("load: zero packages matched ./... in %s", repo)
	}
	var errs []string
	packages.Visit(initial, nil, func(p *packages.Package) {
		for _, e := range p.Errors {
			errs = append(errs, e.Error())
		}
	})
	if len(errs) > 0 {
		if len(errs) > 10 {
			errs = errs[:10]
		}
		return nil, fmt.Errorf("type/load errors:\n  %s", strings.Join(errs, "\n  "))
	}

	prog, _ := ssautil.AllPackages(initial, ssa.InstantiateGenerics)
	c := &Ctx{
		Repo: repo, ModPath: mod, Tier: tier, Fset: fset, Initial: initial, Prog: prog,
		LibPkgs:    map[string]*ssa.Package{},
		LibTypes:   map[string]*packages.Package{},
		funcSet:    map[*ssa.Function]bool{},
		effCache:   map[*ssa.Function]Eff{},
		implsCache: map[*types.Func][]*ssa.Function{},
		domCache:   map[*ssa.Function]*loopInfo{},
	}
	for _, p := range initial {
		if p.PkgPath != mod && !strings.HasPrefix(p.PkgPath, mod+"/") {
			continue
		}
		rel := strings.TrimPrefix(strings.TrimPrefix(p.PkgPath, mod), "/")
		if rel == "examples" || strings.HasPrefix(rel, "examples/") {
			continue
		}
		sp := prog.Package(p.Types)
		if sp == nil {
			return nil, fmt.Errorf("no SSA package for %s", p.PkgPath)
		}
		c.LibPkgs[p.PkgPath] = sp
		c.LibTypes[p.PkgPath] = p
	}
	if len(c.LibPkgs) == 0 {
		return nil, fmt.Errorf("no library packages under module %s", mod)
	}
	if tier == "thorough" {
		prog.Build()
		c.Whole = true
	} else {
		for _, sp := range c.LibPkgs {
			sp.Build()
		}
	}
	c.NPackages = len(c.LibPkgs)
	c.collectFuncs()
	c.installHeapResultOK()
	return c, nil
}

func (c *Ctx) collectFuncs() {
	var paths []string
	for p := range c.LibTypes {
		paths = append(paths, p)
	}
	sort.Strings(paths)
	var add func(fn *ssa.Function)
	add = func(fn *ssa.Function) {
		if fn == nil || c.funcSet[fn] {
			return
		}
		c.funcSet[fn] = true
		c.LibFuncs = append(c.LibFuncs, fn)
		for _, a := range fn.AnonFuncs {
			add(a)
		}
	}
	for _, path := range paths {
		p := c.LibTypes[path]
		for _, f := range p.Syntax {
			for _, d := range f.Decls {
				fd, ok := d.(*ast.FuncDecl)
				if !ok || fd.Body == nil {
					continue
				}
				obj, _ := p.TypesInfo.Defs[fd.Name].(*types.Func)
				if obj == nil {
					continue
				}
				add(c.Prog.FuncValue(obj))
			}
		}
		// package initialiser (global initial values, init funcs)
		if init := c.LibPkgs[path].Func("init"); init != nil {
			add(init)
		}
	}
	c.NFuncs = len(c.LibFuncs)
	for _, fn := range c.LibFuncs {
		for _, b := range fn.Blocks {
			for _, in := range b.Instrs {
				if _, ok := in.(ssa.CallInstruction); ok {
					c.NCalls++
				}
			}
		}
	}
}

// IsLib reports whether fn (or the function it is nested in) belongs to a
// library package of the module.
func (c *Ctx) IsLib(fn *ssa.Function) bool { return c.funcSet[fn] }

// pkgRel returns the module-relative package path of fn ("" for the root).
func (c *Ctx) pkgRel(fn *ssa.Function) string {
	for fn.Parent() != nil {
		fn = fn.Parent()
	}
	if fn.Pkg == nil {
		return "?"
	}
	p := fn.Pkg.Pkg.Path()
	return strings.TrimPrefix(strings.TrimPrefix(p, c.ModPath), "/")
}

// fname is a stable, readable name for a function: pkgrel.(Recv).Name$n
func (c *Ctx) fname(fn *ssa.Function) string {
	if fn == nil {
		return "<nil>"
	}
	name := fn.Name()
	if fn.Parent() != nil {
		return c.fname(fn.Parent()) + "$" + strings.TrimPrefix(name, fn.Parent().Name()+"$")
	}
	if recv := fn.Signature.Recv(); recv != nil {
		t := recv.Type()
		if p, ok := t.(*types.Pointer); ok {
			t = p.Elem()
		}
		if n, ok := t.(*types.Named); ok {
			name = n.Obj().Name() + "." + name
		}
	}
	rel := c.pkgRel(fn)
	if rel == "" {
		return name
	}
	return rel + "." + name
}

// rootFunc returns the outermost enclosing declared function.
func rootFunc(fn *ssa.Function) *ssa.Function {
	for fn.Parent() != nil {
		fn = fn.Parent()
	}
	return fn
}

// lookupFunc finds a package-level function by module-relative package and name.
func (c *Ctx) lookupFunc(rel, name string) *ssa.Function {
	p := c.ModPath
	if rel != "" {
		p += "/" + rel
	}
	sp := c.LibPkgs[p]
	if sp == nil {
		return nil
	}
	return sp.Func(name)
}

// lookupMethod finds a method of a named type declared in a library package.
func (c *Ctx) lookupMethod(rel, typ, name string) *ssa.Function {
	p := c.ModPath
	if rel != "" {
		p += "/" + rel
	}
	sp := c.LibPkgs[p]
	if sp == nil {
		return nil
	}
	t := sp.Type(typ)
	if t == nil {
		return nil
	}
	for _, T := range []types.Type{t.Type(), types.NewPointer(t.Type())} {
		ms := c.Prog.MethodSets.MethodSet(T)
		if sel := ms.Lookup(sp.Pkg, name); sel != nil {
			if f := c.Prog.MethodValue(sel); f != nil {
				return f
			}
		}
	}
	return nil
}

func (c *Ctx) libType(rel, name string) types.Type {
	p := c.ModPath
	if rel != "" {
		p += "/" + rel
	}
	sp := c.LibPkgs[p]
	if sp == nil {
		return nil
	}
	t := sp.Type(name)
	if t == nil {
		return nil
	}
	return t.Type()
}

// namedIs reports whether t (after pointer stripping) is the named type pkgpath.name.
func namedIs(t types.Type, pkgpath, name string) bool {
	if t == nil {
		return false
	}
	if p, ok := t.(*types.Pointer); ok {
		t = p.Elem()
	}
	n, ok := t.(*types.Named)
	if !ok || n.Obj().Pkg() == nil {
		return false
	}
	return n.Obj().Pkg().Path() == pkgpath && n.Obj().Name() == name
}

func (c *Ctx) libNamedIs(t types.Type, rel, name string) bool {
	p := c.ModPath
	if rel != "" {
		p += "/" + rel
	}
	return namedIs(t, p, name)
}
