package main

import (
	"fmt"
	"go/token"
	"go/types"
	"sort"

	"golang.org/x/tools/go/ssa"
)

// ---------------------------------------------------------------- openers

type opener struct {
	Fn       *ssa.Function
	Call     *ssa.Call
	Kind     string // r | w
	Tx       ssa.Value
	Err      ssa.Value // nil when the backend API has no error result
	Transfer bool      // the function hands the transaction to its caller
}

func (c *Ctx) returnsStoreTx(fn *ssa.Function) bool {
	res := fn.Signature.Results()
	for i := 0; i < res.Len(); i++ {
		if c.libNamedIs(res.At(i).Type(), "store", "Tx") {
			return true
		}
	}
	return false
}

func (c *Ctx) openers() []*opener {
	var out []*opener
	for _, fn := range c.LibFuncs {
		allCalls(fn, func(ci ssa.CallInstruction) {
			k := c.beginKind(ci)
			if k == "" {
				return
			}
			call, ok := ci.(*ssa.Call)
			if !ok {
				return
			}
			o := &opener{Fn: fn, Call: call, Kind: k, Transfer: c.returnsStoreTx(fn)}
			if call.Common().Signature().Results().Len() == 1 {
				o.Tx = call
			} else {
				if vs := resultValues(call, 0); len(vs) > 0 {
					o.Tx = vs[0]
				}
				if vs := resultValues(call, 1); len(vs) > 0 {
					o.Err = vs[0]
				}
			}
			out = append(out, o)
		})
	}
	return out
}

func txReceiver(call ssa.CallInstruction) ssa.Value {
	cc := call.Common()
	if cc.IsInvoke() {
		return cc.Value
	}
	if len(cc.Args) > 0 {
		return cc.Args[0]
	}
	return nil
}

// txFinisher: g(tx store.Tx, perr *error) ends a transaction according to *perr:
// tx.Commit() is called only when *perr is nil and its result is stored into
// *perr, and tx.Rollback() is reachable when *perr is not nil.
func (c *Ctx) txFinisher(g *ssa.Function) (txIdx, errIdx int, ok bool) {
	txIdx, errIdx = -1, -1
	if g == nil || len(g.Blocks) == 0 {
		return
	}
	for i, p := range g.Params {
		if c.libNamedIs(p.Type(), "store", "Tx") {
			txIdx = i
		}
		if pt, isP := p.Type().(*types.Pointer); isP && isErrorType(pt.Elem()) {
			errIdx = i
		}
	}
	if txIdx < 0 || errIdx < 0 {
		return
	}
	perr := g.Params[errIdx]
	isLoadOfErr := func(x ssa.Value) bool {
		u, isU := x.(*ssa.UnOp)
		return isU && u.Op == token.MUL && u.X == ssa.Value(perr)
	}
	commitOK, rollback := false, false
	allCalls(g, func(ci ssa.CallInstruction) {
		if txReceiver(ci) != ssa.Value(g.Params[txIdx]) {
			return
		}
		if c.isRollback(ci) {
			if !guardedBy(g, ci.Block(), nilEdges(g, isLoadOfErr)) {
				rollback = true
			}
		}
		if cl, isCall := ci.(*ssa.Call); isCall && c.isCommit(cl) {
			stored := false
			for _, r := range realReferrers(cl) {
				if st, isSt := r.(*ssa.Store); isSt && st.Addr == ssa.Value(perr) && st.Val == ssa.Value(cl) {
					stored = true
				}
			}
			if stored && guardedBy(g, cl.Block(), nilEdges(g, isLoadOfErr)) {
				commitOK = true
			}
		}
	})
	ok = commitOK && rollback
	return
}

// installHeapResultOK lets returnedValue look through a named result whose
// address is only handed to deferred transaction finishers.
func (c *Ctx) installHeapResultOK() {
	heapResultOK = func(al *ssa.Alloc) bool {
		for _, r := range realReferrers(al) {
			switch x := r.(type) {
			case *ssa.Store:
				if x.Addr != ssa.Value(al) {
					return false
				}
			case *ssa.UnOp:
			case *ssa.Defer:
				g := staticCallee(x)
				if g == nil {
					return false
				}
				if _, _, ok := c.txFinisher(c.declared(g)); !ok {
					return false
				}
			default:
				return false
			}
		}
		return true
	}
}

// finishedBy: the transaction tx opened in fn is ended by a deferred finisher
// that is given the address of fn's own named error result, which every return
// of fn delivers. Returns the defer.
func (c *Ctx) finishedBy(fn *ssa.Function, tx ssa.Value) *ssa.Defer {
	for _, r := range realReferrers(tx) {
		d, ok := r.(*ssa.Defer)
		if !ok {
			continue
		}
		g := staticCallee(d)
		if g == nil {
			continue
		}
		ti, ei, isFin := c.txFinisher(c.declared(g))
		if !isFin || ti >= len(d.Call.Args) || ei >= len(d.Call.Args) || d.Call.Args[ti] != tx {
			continue
		}
		al, isAl := d.Call.Args[ei].(*ssa.Alloc)
		if !isAl {
			continue
		}
		// al is the named error result: every return reads it back after the deferred calls ran
		eidx := errResultIndex(fn.Signature)
		if eidx < 0 || fn.Signature.Results().At(eidx).Name() == "" {
			continue
		}
		all := true
		n := 0
		for _, b := range fn.Blocks {
			for _, in := range b.Instrs {
				ret, isRet := in.(*ssa.Return)
				if !isRet || eidx >= len(ret.Results) {
					continue
				}
				n++
				u, isU := ret.Results[eidx].(*ssa.UnOp)
				if !isU || u.Op != token.MUL || u.X != ssa.Value(al) {
					all = false
				}
			}
		}
		if all && n > 0 {
			return d
		}
	}
	return nil
}

// ---------------------------------------------------------------- TX1

func ruleTX1(c *Ctx) []Ob {
	o := newObs(c, "TX1")
	for _, op := range c.openers() {
		key := c.fname(op.Fn) + "/Begin"
		pos := relPath(c, op.Call.Pos())
		if op.Transfer {
			o.add(INFO, key, pos, "ownership transfer: the function returns the transaction to its caller, which holds the obligation")
			continue
		}
		if op.Tx == nil {
			o.add(VIOLATED, key, pos, "transaction value of Begin is discarded: it can never be released")
			continue
		}
		hasErr := op.Call.Common().Signature().Results().Len() > 1
		if hasErr && op.Err == nil {
			o.add(VIOLATED, key, pos, "the error result of Begin is never examined")
			continue
		}
		var defers []*ssa.Defer
		for _, r := range realReferrers(op.Tx) {
			if d, ok := r.(*ssa.Defer); ok && c.isRollback(d) && txReceiver(d) == op.Tx {
				defers = append(defers, d)
			}
		}
		if len(defers) == 0 {
			if fd := c.finishedBy(op.Fn, op.Tx); fd != nil {
				bad := ""
				isBeginErr := func(x ssa.Value) bool {
					if x == op.Err {
						return true
					}
					for _, og := range origins(x) {
						if og == op.Err {
							return true
						}
					}
					return false
				}
				if hasErr && !guardedBy(op.Fn, fd.Block(), nilEdges(op.Fn, isBeginErr)) {
					bad = "the deferred finisher is not on the err == nil continuation of Begin"
				}
				for _, r := range realReferrers(op.Tx) {
					if r != ssa.Instruction(fd) && !instrDominates(fd, r) {
						bad = fmt.Sprintf("transaction used at %s before the finisher is deferred", relPath(c, r.Pos()))
					}
				}
				if bad != "" {
					o.add(VIOLATED, key, pos, "%s", bad)
				} else {
					o.add(OK, key, pos, "Begin error tested; a deferred finisher bound to the function's named error result rolls back on error and commits otherwise")
				}
				continue
			}
			unbound := false
			for _, r := range realReferrers(op.Tx) {
				if d, ok := r.(*ssa.Defer); ok {
					if g := staticCallee(d); g != nil {
						if _, _, isFin := c.txFinisher(c.declared(g)); isFin {
							unbound = true
						}
					}
				}
			}
			if unbound {
				o.add(VIOLATED, key, pos, "the deferred finisher is given the address of a variable that is not the function's named error result: `return x` does not assign it, so the finisher sees nil and COMMITS while the function returns an error (and the outcome of Commit is lost)")
				continue
			}
			o.add(VIOLATED, key, pos, "no `defer tx.Rollback()` on the transaction opened here: an early return leaks it (a leaked bbolt write transaction blocks every later writer)")
			continue
		}
		d := defers[0]
		bad := ""
		if hasErr {
			ne := nilEdges(op.Fn, sameValue(op.Err))
			if !guardedBy(op.Fn, d.Block(), ne) {
				bad = "the deferred Rollback is not on the err == nil continuation of Begin"
			}
		}
		if bad == "" {
			for _, r := range realReferrers(op.Tx) {
				if r == ssa.Instruction(d) {
					continue
				}
				if !instrDominates(d, r) {
					bad = fmt.Sprintf("transaction used at %s before the deferred Rollback is registered", relPath(c, r.Pos()))
					break
				}
			}
		}
		if bad == "" {
			reach := reachableFrom(op.Call.Block(), true)
			var nn []edge
			if hasErr {
				nn = nonNilEdges(op.Fn, sameValue(op.Err))
			}
			for _, ret := range returnsOf(op.Fn) {
				b := ret.Block()
				if !reach[b] {
					continue
				}
				if b == d.Block() || d.Block().Dominates(b) {
					continue
				}
				if hasErr && guardedBy(op.Fn, b, nn) {
					continue
				}
				bad = fmt.Sprintf("return at %s is reachable after Begin without the Rollback having been deferred", relPath(c, ret.Pos()))
				break
			}
		}
		if bad != "" {
			o.add(VIOLATED, key, pos, "%s", bad)
		} else {
			o.add(OK, key, pos, "Begin error tested; `defer Rollback` dominates every use and every exit")
		}
	}
	// operations written as bodies of a tx-scope helper never hold the transaction themselves
	for _, tb := range c.txBodies() {
		o.add(OK, c.fname(tb.Fn)+"/runs inside "+c.fname(tb.Helper), relPath(c, tb.Site.Pos()), "the transaction is opened and released by %s, which holds the TX1 obligation", c.fname(tb.Helper))
	}
	return o.list
}

// ---------------------------------------------------------------- TX2 / TX5

// provablyNonNil: value v (an error) cannot be nil when block b executes.
func (c *Ctx) provablyNonNil(fn *ssa.Function, v ssa.Value, b *ssa.BasicBlock) bool {
	// the value itself (a variable merged from several assignments) was found not nil on the way
	if vi, ok := v.(ssa.Instruction); ok && vi.Parent() == fn && guardedBy(fn, b, nonNilEdges(fn, sameValue(v))) {
		return true
	}
	for _, o := range origins(v) {
		ok := false
		if g := globalLoad(o); g != nil && isErrorType(g.Type().(*types.Pointer).Elem()) {
			ok = true
		}
		if call, isCall := o.(*ssa.Call); isCall {
			switch calleeFullName(call) {
			case "fmt.Errorf", "errors.New":
				ok = true
			}
		}
		if !ok && o.Parent() == fn && guardedBy(fn, b, nonNilEdges(fn, sameValue(o))) {
			ok = true
		}
		// what a library helper answers: each of its results is non-nil by itself, or is a parameter
		// that is given a non-nil value here
		if call, isCall := o.(*ssa.Call); isCall && !ok && o.Parent() == fn {
			if g := staticCallee(call); g != nil && c.IsLib(c.declared(g)) && len(c.declared(g).Blocks) > 0 && c.declared(g) != fn && g.Signature.Results().Len() == 1 {
				g = c.declared(g)
				all, any := true, false
				for _, ret := range returnsOf(g) {
					rv, has := returnedValue(ret, 0)
					if !has {
						all = false
						continue
					}
					any = true
					if p, isP := rv.(*ssa.Parameter); isP {
						if pi := paramIndex(g, p); pi >= 0 && pi < len(call.Call.Args) && c.provablyNonNil(fn, call.Call.Args[pi], call.Block()) {
							continue
						}
						all = false
						continue
					}
					if !c.provablyNonNil(g, rv, ret.Block()) {
						all = false
					}
				}
				if all && any {
					ok = true
				}
			}
		}
		// a second load of the same field (v.err tested, then v.err returned)
		if !ok && o.Parent() == fn {
			if base, f, n := fieldLoad(o); f != "" {
				same := func(x ssa.Value) bool {
					b2, f2, n2 := fieldLoad(x)
					return f2 == f && n2 == n && (b2 == base || sameOrigin(b2, base))
				}
				if guardedBy(fn, b, nonNilEdges(fn, same)) {
					ok = true
				}
			}
		}
		if !ok {
			return false
		}
	}
	return true
}

func describeValue(c *Ctx, v ssa.Value) string {
	if v == nil {
		return "?"
	}
	if isNilConst(v) {
		return "nil"
	}
	os := origins(v)
	if len(os) == 1 {
		switch x := os[0].(type) {
		case *ssa.Call:
			return "result of " + c.calleeName(x)
		case *ssa.Extract:
			if call, ok := x.Tuple.(*ssa.Call); ok {
				return fmt.Sprintf("result #%d of %s", x.Index, c.calleeName(call))
			}
		case *ssa.UnOp:
			if g := globalLoad(x); g != nil {
				return g.Name()
			}
		case *ssa.Const:
			return x.String()
		case *ssa.Parameter:
			return "parameter " + x.Name()
		}
	}
	if len(os) == 1 {
		if al, ok := os[0].(*ssa.Alloc); ok {
			return "new " + typeString(al.Type().Underlying().(*types.Pointer).Elem())
		}
	}
	return "value of type " + typeString(v.Type())
}

func shortName(full string) string {
	// strip package paths down to the last element
	out := []rune{}
	seg := []rune{}
	for _, r := range full {
		if r == '/' {
			seg = seg[:0]
			continue
		}
		if r == '(' || r == ')' || r == '*' {
			out = append(out, seg...)
			seg = seg[:0]
			out = append(out, r)
			continue
		}
		seg = append(seg, r)
	}
	out = append(out, seg...)
	return string(out)
}

func ruleTX2(c *Ctx) []Ob {
	o := newObs(c, "TX2")
	for _, op := range c.openers() {
		if op.Transfer || op.Kind != "w" || op.Tx == nil {
			continue
		}
		fn := op.Fn
		errIdx := errResultIndex(fn.Signature)
		key := c.fname(fn)
		if errIdx < 0 {
			o.add(UNDECIDED, key+"/signature", relPath(c, fn.Pos()), "write-transaction opener has no error result: commit outcome cannot be reported")
			continue
		}
		if fd := c.finishedBy(fn, op.Tx); fd != nil {
			o.add(OK, key+"/deferred finisher", relPath(c, fd.Pos()), "every return delivers the named error result after the deferred finisher ran: it commits exactly when that result is nil and replaces it by the outcome of Commit")
			continue
		}
		// forward may-analysis: has a store write happened?
		isWrite := func(in ssa.Instruction) bool {
			call, ok := in.(*ssa.Call)
			if !ok {
				return false
			}
			if c.isCommit(call) {
				return false
			}
			return c.callEff(call)&EffWrites != 0
		}
		blockWrites := map[*ssa.BasicBlock]bool{}
		for _, b := range fn.Blocks {
			for _, in := range b.Instrs {
				if isWrite(in) {
					blockWrites[b] = true
				}
			}
		}
		in := map[*ssa.BasicBlock]bool{}
		for changed := true; changed; {
			changed = false
			for _, b := range fn.Blocks {
				v := false
				for _, p := range b.Preds {
					if in[p] || blockWrites[p] {
						v = true
					}
				}
				if v && !in[b] {
					in[b] = true
					changed = true
				}
			}
		}
		reach := reachableFrom(op.Call.Block(), true)
		nWrites := 0
		for b := range blockWrites {
			if blockWrites[b] {
				nWrites++
			}
		}
		for _, ret := range returnsOf(fn) {
			b := ret.Block()
			if !reach[b] {
				continue
			}
			written := in[b] || blockWrites[b]
			rv, ok := returnedValue(ret, errIdx)
			if !ok {
				continue
			}
			k := key + "/return " + describeValue(c, rv)
			pos := relPath(c, ret.Pos())
			if !written {
				o.add(OK, k, pos, "no store write on any path to this return")
				continue
			}
			// every write that may precede this return is a call to a helper that reports,
			// through a boolean result tested on the way here, that it returned before writing
			refined := true
			for _, wb := range fn.Blocks {
				if !blockWrites[wb] || !(wb == b || reachableFrom(wb, false)[b]) {
					continue
				}
				for _, in := range wb.Instrs {
					if !isWrite(in) {
						continue
					}
					if !c.noWriteWhen(in.(*ssa.Call), b) {
						refined = false
					}
				}
			}
			if refined {
				o.add(OK, k, pos, "the helpers that write report (boolean result tested on the way to this return) that they returned before any store write")
				continue
			}
			// commit result?
			isCommit := true
			for _, og := range origins(rv) {
				call, isCall := og.(*ssa.Call)
				if isCall && c.isCommit(call) && txReceiver(call) == op.Tx {
					continue
				}
				// a helper that is handed the transaction and ends by committing it
				if isCall {
					if g := staticCallee(call); g != nil && c.IsLib(c.declared(g)) {
						ti := -1
						for i, a := range call.Common().Args {
							if a == op.Tx {
								ti = i
							}
						}
						if ti >= 0 && c.commitsOnSuccess(c.declared(g), ti, 0) {
							continue
						}
					}
				}
				isCommit = false
			}
			if isCommit {
				o.add(OK, k, pos, "returns the outcome of Commit on the transaction opened here")
				continue
			}
			if c.provablyNonNil(fn, rv, b) {
				o.add(OK, k, pos, "after a write, returns an error that is non-nil on this path (rollback by the deferred call)")
				continue
			}
			// `if err := tx.Commit(); err != nil { return wrap(err) }; return nil`
			if isNilConst(rv) {
				var committed []edge
				for _, r := range realReferrers(op.Tx) {
					if cc, ok := r.(*ssa.Call); ok && c.isCommit(cc) && txReceiver(cc) == op.Tx {
						committed = append(committed, nilEdges(fn, sameValue(cc))...)
					}
				}
				if guardedBy(fn, b, committed) {
					o.add(OK, k, pos, "returns nil only after Commit on this transaction was found to have succeeded")
					continue
				}
			}
			o.add(VIOLATED, k, pos, "a store write may precede this return, which neither returns tx.Commit() nor a provably non-nil error: success is acknowledged with nothing committed")
		}
		// TX5 part: nothing uses the transaction after Commit
		for _, r := range realReferrers(op.Tx) {
			call, ok := r.(*ssa.Call)
			if !ok || !c.isCommit(call) {
				continue
			}
			bad := ""
			for _, r2 := range realReferrers(op.Tx) {
				if r2 == r {
					continue
				}
				if _, isDefer := r2.(*ssa.Defer); isDefer {
					continue
				}
				if reachesAfter(call, r2) {
					bad = relPath(c, r2.Pos())
				}
			}
			k := key + "/commit-is-last"
			if bad != "" {
				o.add(VIOLATED, k, relPath(c, call.Pos()), "the transaction is used at %s after Commit", bad)
			} else {
				o.add(OK, k, relPath(c, call.Pos()), "Commit is the last use of the transaction")
			}
		}
	}
	return o.list
}

// writtenBefore: per block of fn, whether a store write (not Commit) may have
// happened before the block's last instruction.
func (c *Ctx) writtenBefore(fn *ssa.Function) map[*ssa.BasicBlock]bool {
	blockWrites := map[*ssa.BasicBlock]bool{}
	for _, b := range fn.Blocks {
		for _, in := range b.Instrs {
			if call, ok := in.(*ssa.Call); ok && !c.isCommit(call) && c.callEff(call)&EffWrites != 0 {
				blockWrites[b] = true
			}
		}
	}
	in := map[*ssa.BasicBlock]bool{}
	for changed := true; changed; {
		changed = false
		for _, b := range fn.Blocks {
			if in[b] {
				continue
			}
			for _, p := range b.Preds {
				if in[p] || blockWrites[p] {
					in[b] = true
					changed = true
				}
			}
		}
	}
	out := map[*ssa.BasicBlock]bool{}
	for _, b := range fn.Blocks {
		out[b] = in[b] || blockWrites[b]
	}
	return out
}

// noWriteWhen: call is a static call to a library helper with a boolean result r
// such that block b is only reached when r == K, and the helper returns r == K
// (or a non-constant r) only on paths on which it has not written to the store.
func (c *Ctx) noWriteWhen(call *ssa.Call, b *ssa.BasicBlock) bool {
	g := staticCallee(call)
	if g == nil || !c.IsLib(g) || len(g.Blocks) == 0 {
		return false
	}
	fn := call.Parent()
	res := g.Signature.Results()
	for i := 0; i < res.Len(); i++ {
		if bt, ok := res.At(i).Type().Underlying().(*types.Basic); !ok || bt.Kind() != types.Bool {
			continue
		}
		var vals []ssa.Value
		if res.Len() == 1 {
			vals = []ssa.Value{call}
		} else {
			for _, e := range extractsOf(call, i) {
				vals = append(vals, e)
			}
		}
		isRes := func(v ssa.Value) bool {
			for _, x := range vals {
				if x == v {
					return true
				}
			}
			return false
		}
		for _, K := range []bool{false, true} {
			// edges on which the result is known to be K
			var cut []edge
			ifEdges(fn, func(cond ssa.Value, e edge) {
				neg := false
				for {
					if u, ok := cond.(*ssa.UnOp); ok && u.Op == token.NOT {
						cond = u.X
						neg = !neg
						continue
					}
					break
				}
				if !isRes(cond) {
					return
				}
				val := e.Branch != neg // value of the result on this edge
				if val == K {
					cut = append(cut, e)
				}
			})
			if len(cut) == 0 || !guardedBy(fn, b, cut) {
				continue
			}
			wb := c.writtenBefore(g)
			ok := true
			// is b also only reached when the helper's error result is nil?
			ej := errResultIndex(g.Signature)
			errNil := false
			if ej >= 0 && res.Len() > 1 {
				var ne []edge
				for _, e := range extractsOf(call, ej) {
					ne = append(ne, nilEdges(fn, sameValue(e))...)
				}
				errNil = len(ne) > 0 && guardedBy(fn, b, ne)
			}
			for _, ret := range returnsOf(g) {
				rv, has := returnedValue(ret, i)
				if !has {
					ok = false
					break
				}
				if errNil {
					if ev, has := returnedValue(ret, ej); has && c.provablyNonNil(g, ev, ret.Block()) {
						continue
					}
				}
				if cb, isC := constBool(rv); isC && cb != K {
					continue
				}
				if wb[ret.Block()] {
					ok = false
				}
			}
			if ok {
				return true
			}
		}
	}
	return false
}

// commitsOnSuccess: every return of g delivers either the outcome of Commit on
// its parameter #ti, a provably non-nil error, or the result of another such helper.
func (c *Ctx) commitsOnSuccess(g *ssa.Function, ti int, depth int) bool {
	if g == nil || len(g.Blocks) == 0 || ti >= len(g.Params) || depth > 3 {
		return false
	}
	ei := errResultIndex(g.Signature)
	if ei < 0 {
		return false
	}
	txp := ssa.Value(g.Params[ti])
	n := 0
	for _, ret := range returnsOf(g) {
		rv, ok := returnedValue(ret, ei)
		if !ok {
			return false
		}
		n++
		if c.provablyNonNil(g, rv, ret.Block()) {
			continue
		}
		for _, og := range origins(rv) {
			call, isCall := og.(*ssa.Call)
			if !isCall {
				return false
			}
			if c.isCommit(call) && txReceiver(call) == txp {
				continue
			}
			h := staticCallee(call)
			if h == nil || !c.IsLib(c.declared(h)) {
				return false
			}
			hi := -1
			for i, a := range call.Common().Args {
				if a == txp {
					hi = i
				}
			}
			if hi < 0 || !c.commitsOnSuccess(c.declared(h), hi, depth+1) {
				return false
			}
		}
	}
	return n > 0
}

// ---------------------------------------------------------------- TX3

const inf = 1 << 20

type txCounter struct {
	c    *Ctx
	memo map[*ssa.Function]int
	busy map[*ssa.Function]bool
	any  bool // count read transactions too
	// context of the function being evaluated: its Begin-flag parameter is known false
	flagFalse map[*ssa.Function]bool
	memoF     map[*ssa.Function]int
}

func (t *txCounter) callWeight(call ssa.CallInstruction) int {
	c := t.c
	if _, isDefer := call.(*ssa.Defer); isDefer {
		return 0
	}
	switch c.beginKind(call) {
	case "w":
		if fp := c.beginFlag(call); fp != nil && t.flagFalse[call.Parent()] && !t.any {
			return 0 // Begin(update) in a helper called with update = false
		}
		return 1
	case "r":
		if t.any {
			return 1
		}
		return 0
	}
	w := 0
	cc := call.Common()
	// a tx-scope helper called with a constant false flag opens a read transaction
	if g := staticCallee(call); g != nil && !t.any {
		g = c.declared(g)
		if fi := c.flagParamIndex(g); fi >= 0 && fi < len(cc.Args) {
			if bv, ok := constBool(cc.Args[fi]); ok && !bv {
				w = t.maxFlagFalse(g)
				for _, a := range cc.Args {
					if f := closureFn(a); f != nil && c.IsLib(f) {
						w += t.max(f)
					}
				}
				return w
			}
		}
	}
	if cc.IsInvoke() {
		if !c.methodIsStoreIface(cc.Method) {
			for _, f := range c.libImpls(cc.Method) {
				if x := t.max(f); x > w {
					w = x
				}
			}
		}
	} else if g := staticCallee(call); g != nil {
		g = c.declared(g)
		if c.IsLib(g) {
			w = t.max(g)
		}
	}
	for _, a := range cc.Args {
		if f := closureFn(a); f != nil && c.IsLib(f) {
			w += t.max(f)
		}
	}
	if w > inf {
		w = inf
	}
	return w
}

// max: maximum over CFG paths of the number of transactions opened by fn and its callees.
func (t *txCounter) max(fn *ssa.Function) int {
	if v, ok := t.memo[fn]; ok {
		return v
	}
	if t.busy[fn] {
		return 0 // recursion: counted at the outer activation
	}
	t.busy[fn] = true
	defer delete(t.busy, fn)
	weight := map[*ssa.BasicBlock]int{}
	for _, b := range fn.Blocks {
		for _, in := range b.Instrs {
			if call, ok := in.(ssa.CallInstruction); ok {
				weight[b] += t.callWeight(call)
			}
		}
		if weight[b] > 0 && t.c.inLoop(b) {
			weight[b] = inf
		}
	}
	memo := map[*ssa.BasicBlock]int{}
	var longest func(b *ssa.BasicBlock) int
	longest = func(b *ssa.BasicBlock) int {
		if v, ok := memo[b]; ok {
			return v
		}
		memo[b] = 0
		best := 0
		for _, s := range b.Succs {
			if s.Dominates(b) {
				continue // back edge
			}
			if v := longest(s); v > best {
				best = v
			}
		}
		r := weight[b] + best
		if r > inf {
			r = inf
		}
		memo[b] = r
		return r
	}
	r := 0
	if len(fn.Blocks) > 0 {
		r = longest(fn.Blocks[0])
	}
	t.memo[fn] = r
	return r
}

// exportedOps lists exported functions and methods (on exported types) of the root package.
func (c *Ctx) exportedOps() []*ssa.Function {
	var out []*ssa.Function
	for _, fn := range c.LibFuncs {
		if fn.Parent() != nil || c.pkgRel(fn) != "" || fn.Object() == nil || !fn.Object().Exported() {
			continue
		}
		if recv := fn.Signature.Recv(); recv != nil {
			t := recv.Type()
			if p, ok := t.(*types.Pointer); ok {
				t = p.Elem()
			}
			n, ok := t.(*types.Named)
			if !ok || !n.Obj().Exported() {
				continue
			}
		}
		out = append(out, fn)
	}
	sort.Slice(out, func(i, j int) bool { return c.fname(out[i]) < c.fname(out[j]) })
	return out
}

func ruleTX3(c *Ctx) []Ob {
	o := newObs(c, "TX3")
	tw := &txCounter{c: c, memo: map[*ssa.Function]int{}, busy: map[*ssa.Function]bool{}}
	ta := &txCounter{c: c, memo: map[*ssa.Function]int{}, busy: map[*ssa.Function]bool{}, any: true}
	for _, fn := range c.exportedOps() {
		if c.eff(fn)&(EffBeginR|EffBeginW) == 0 {
			continue
		}
		n := tw.max(fn)
		key := c.fname(fn) + "/write-transactions"
		pos := relPath(c, fn.Pos())
		switch {
		case n >= inf:
			o.add(VIOLATED, key, pos, "a write transaction is opened inside a loop: the operation is not one atomic store transaction")
		case n > 1:
			o.add(VIOLATED, key, pos, "up to %d write transactions on one path: a failure, crash or concurrent reader between them sees the first one committed", n)
		default:
			o.add(OK, key, pos, "at most %d write transaction on every path", n)
		}
		// an operation that writes must do its reads in the same transaction (no check-then-act
		// across two transactions)
		if n >= 1 {
			na := ta.max(fn)
			k2 := c.fname(fn) + "/single transaction for read and write"
			if na > 1 {
				o.add(VIOLATED, k2, pos, "the operation opens %d transactions on one path, one of them for writing: what it read in the other one (an existence check, a lookup) can be stale when it writes - check-then-act across transactions is not atomic under concurrency", na)
			} else {
				o.add(OK, k2, pos, "the write transaction is the only transaction of the operation")
			}
		}
	}
	// a transaction body handed to a tx-scope helper opens no transaction of its own
	for _, tb := range c.txBodies() {
		key := c.fname(tb.Fn) + "/no-nested-transaction"
		if c.eff(tb.Fn)&(EffBeginR|EffBeginW) != 0 {
			o.add(VIOLATED, key, relPath(c, tb.Site.Pos()), "the function run inside %s's transaction opens another transaction (self-deadlock on bbolt, and its effects are not part of the outer transaction)", c.fname(tb.Helper))
		} else {
			o.add(OK, key, relPath(c, tb.Site.Pos()), "the transaction body opens no transaction of its own")
		}
	}
	// no transaction is opened while another one is held by the same function
	for _, op := range c.openers() {
		if op.Transfer {
			continue
		}
		bad := ""
		if c.inLoop(op.Call.Block()) {
			bad = "Begin sits in a loop"
		}
		allCalls(op.Fn, func(call ssa.CallInstruction) {
			if call == ssa.CallInstruction(op.Call) {
				return
			}
			if _, isDefer := call.(*ssa.Defer); isDefer {
				return
			}
			if !reachesAfter(op.Call, call) {
				return
			}
			if c.callEff(call)&(EffBeginR|EffBeginW) != 0 {
				bad = fmt.Sprintf("%s at %s opens another transaction while this one is held (self-deadlock on bbolt)", shortName(calleeFullName(call)), relPath(c, call.Pos()))
			}
		})
		key := c.fname(op.Fn) + "/no-nested-transaction"
		if bad != "" {
			o.add(VIOLATED, key, relPath(c, op.Call.Pos()), "%s", bad)
		} else {
			o.add(OK, key, relPath(c, op.Call.Pos()), "no transaction is opened while this one is held")
		}
	}
	return o.list
}

// ---------------------------------------------------------------- TX4

// readOps is the frozen list of public read operations (DESIGN §3 TX4).
var readOps = []string{"FindAll", "FindFirst", "FindById", "ForEach", "IterateDocs", "Count", "Exists",
	"HasCollection", "HasIndex", "ListIndexes", "ListCollections", "ExportCollection"}

type txEvent struct {
	fn   *ssa.Function
	call ssa.CallInstruction
	kind string // r | w | commit
}

// collectTx walks the library call structure from fn under an environment of
// known boolean parameters, recording transaction opens (with the flag
// resolved where it is a bound parameter) and commits in live code only.
func (c *Ctx) collectTx(fn *ssa.Function, env map[*ssa.Parameter]bool, seen map[string]bool, out *[]txEvent) {
	key := c.fname(fn)
	for p, v := range env {
		if p.Parent() == fn {
			key += fmt.Sprintf("|%s=%v", p.Name(), v)
		}
	}
	if seen[key] || len(fn.Blocks) == 0 {
		return
	}
	seen[key] = true
	live := liveBlocksUnder(fn, env)
	for _, b := range fn.Blocks {
		if !live[b] {
			continue
		}
		for _, in := range b.Instrs {
			if mc, ok := in.(*ssa.MakeClosure); ok {
				c.collectTx(mc.Fn.(*ssa.Function), env, seen, out)
				continue
			}
			call, ok := in.(ssa.CallInstruction)
			if !ok {
				continue
			}
			if k := c.beginKind(call); k != "" && !c.returnsStoreTx(fn) {
				if fp := c.beginFlag(call); fp != nil {
					if v, bound := env[fp]; bound {
						if v {
							k = "w"
						} else {
							k = "r"
						}
					}
				}
				*out = append(*out, txEvent{fn, call, k})
			}
			if c.isCommit(call) {
				*out = append(*out, txEvent{fn, call, "commit"})
			}
			cc := call.Common()
			if cc.IsInvoke() {
				if !c.methodIsStoreIface(cc.Method) {
					for _, g := range c.libImpls(cc.Method) {
						if c.IsLib(g) {
							c.collectTx(g, map[*ssa.Parameter]bool{}, seen, out)
						}
					}
				}
				continue
			}
			g := staticCallee(call)
			if g == nil {
				for _, t := range c.localClosureTargets(call) {
					c.collectTx(t, env, seen, out)
				}
				continue
			}
			g = c.declared(g)
			if !c.IsLib(g) {
				continue
			}
			nenv := map[*ssa.Parameter]bool{}
			for k, v := range env {
				nenv[k] = v // closures created below keep seeing the outer parameters
			}
			for i, p := range g.Params {
				if i >= len(cc.Args) {
					continue
				}
				if bv, ok := constBool(cc.Args[i]); ok {
					nenv[p] = bv
				} else if ap, ok := cc.Args[i].(*ssa.Parameter); ok {
					if v, bound := env[ap]; bound {
						nenv[p] = v
					}
				}
			}
			c.collectTx(g, nenv, seen, out)
		}
	}
}

func ruleTX4(c *Ctx) []Ob {
	o := newObs(c, "TX4")
	for _, name := range readOps {
		fn := c.lookupMethod("", "DB", name)
		if fn == nil {
			o.add(UNDECIDED, "DB."+name, "-", "public read operation DB.%s not found", name)
			continue
		}
		var evs []txEvent
		c.collectTx(fn, map[*ssa.Parameter]bool{}, map[string]bool{}, &evs)
		commitAt := ""
		for _, e := range evs {
			if e.kind == "commit" {
				commitAt = c.fname(e.fn)
			}
		}
		nBegin := 0
		for _, e := range evs {
			if e.kind == "commit" {
				continue
			}
			nBegin++
			key := "DB." + name + "/" + c.fname(e.fn) + "/Begin"
			pos := relPath(c, e.call.Pos())
			writes := Eff(0)
			for f := range c.reachFuncs(fn) {
				writes |= c.localEff(f) & EffWrites
			}
			switch {
			case e.kind == "r":
				o.add(OK, key, pos, "read-only transaction")
			case commitAt == "" || writes == 0:
				// it cannot change the database - but an update transaction is the store's writer slot: on bbolt
				// the read operation queues behind every writer, and called while the same goroutine holds the
				// writer slot (from an updater) it never returns, where the same history completes on badger
				o.add(VIOLATED, key, pos, "read operation DB.%s opens an update transaction although it writes nothing: on bbolt it takes the single writer lock (it waits for every writer, and never returns when called from inside a write operation's callback, while badger answers), where a read-only transaction gives the same result on both backends", name)
			default:
				o.add(VIOLATED, key, pos, "read operation DB.%s opens an update transaction and %s commits", name, commitAt)
			}
		}
		if nBegin == 0 {
			o.add(UNDECIDED, "DB."+name+"/Begin", relPath(c, fn.Pos()), "no transaction opener found on the paths of this read operation")
		}
	}
	return o.list
}

// flagParamIndex: index of the bool parameter of g that is passed to Begin in g, or -1.
func (c *Ctx) flagParamIndex(g *ssa.Function) int {
	idx := -1
	if g == nil || !c.IsLib(g) {
		return -1
	}
	allCalls(g, func(call ssa.CallInstruction) {
		if fp := c.beginFlag(call); fp != nil {
			idx = paramIndex(g, fp)
		}
	})
	return idx
}

// maxFlagFalse: like max, for a tx-scope helper whose flag is known false.
func (t *txCounter) maxFlagFalse(g *ssa.Function) int {
	if t.memoF == nil {
		t.memoF = map[*ssa.Function]int{}
		t.flagFalse = map[*ssa.Function]bool{}
	}
	if v, ok := t.memoF[g]; ok {
		return v
	}
	t.flagFalse[g] = true
	saved, had := t.memo[g]
	delete(t.memo, g)
	v := t.max(g)
	delete(t.memo, g)
	if had {
		t.memo[g] = saved
	}
	delete(t.flagFalse, g)
	t.memoF[g] = v
	return v
}

// ---------------------------------------------------------------- TXW1

// mustWriteMeta: every path of g to a possibly-nil error return passes a call of
// the catalog writer (directly or through a callee for which the same holds).
func (c *Ctx) mustWriteMeta(g *ssa.Function, busy map[*ssa.Function]bool) bool {
	if g == nil || len(g.Blocks) == 0 || busy[g] {
		return false
	}
	r := c.Roles()
	if r.isMetaWriter(g) {
		// the writer itself puts the record into the store on every path that can succeed (no "unchanged:
		// nothing to write" shortcut: the write is what makes two writers of a collection conflict)
		setBlocks := map[*ssa.BasicBlock]bool{}
		for _, b := range g.Blocks {
			for _, in := range b.Instrs {
				if ci, ok := in.(ssa.CallInstruction); ok && ci.Common().IsInvoke() && ci.Common().Method != nil && ci.Common().Method.Name() == "Set" {
					setBlocks[b] = true
				}
			}
		}
		if len(setBlocks) == 0 {
			return true // the store is written by a callee: not looked into
		}
		return c.successWithoutCut(g, []edge2{{nil, g.Blocks[0]}}, setBlocks, nil) == ""
	}
	busy[g] = true
	defer delete(busy, g)
	cut := map[*ssa.BasicBlock]bool{}
	for _, b := range g.Blocks {
		for _, in := range b.Instrs {
			call, ok := in.(*ssa.Call)
			if !ok {
				continue
			}
			if h := staticCallee(call); h != nil && c.IsLib(c.declared(h)) && c.mustWriteMeta(c.declared(h), busy) {
				cut[b] = true
			}
		}
	}
	return c.successWithoutCut(g, []edge2{{nil, g.Blocks[0]}}, cut, nil) == ""
}

type unitAt struct {
	b *ssa.BasicBlock
	p token.Pos
}

func (u unitAt) Block() *ssa.BasicBlock { return u.b }
func (u unitAt) Pos() token.Pos         { return u.p }

// TXW1: every operation that changes documents or index entries also writes the
// collection's catalog record before it commits. On badger, transactions are
// optimistic and only keys that were READ are validated at commit: two bulk
// updates that go through an index read disjoint index ranges and write
// disjoint keys, so neither conflicts with the other (x==5 -> 7 and x==7 -> 5
// both succeed and leave a state no sequential order produces). Every operation
// reads the catalog record first; if every writer also writes it, any two
// concurrent writers on a collection conflict and one of them is rejected.
func ruleTXW1(c *Ctx) []Ob {
	o := newObs(c, "TXW1")
	n := 0
	// the units of work: a function that opens a write transaction itself, or a closure taking the
	// transaction that is handed to a transaction helper (db.update(func(tx store.Tx) error {...}))
	type unit struct {
		fn    *ssa.Function
		start *ssa.BasicBlock
		pos   token.Pos
	}
	var units []unit
	helper := map[*ssa.Function]bool{}
	for _, op := range c.openers() {
		if c.pkgRel(op.Fn) != "" {
			continue
		}
		takesFunc := false
		for _, p := range op.Fn.Params {
			if sig, ok := p.Type().Underlying().(*types.Signature); ok && sig.Params().Len() >= 1 && c.libNamedIs(sig.Params().At(0).Type(), "store", "Tx") {
				takesFunc = true
			}
		}
		if takesFunc {
			helper[op.Fn] = true
			continue
		}
		if op.Kind != "w" || op.Transfer {
			continue
		}
		units = append(units, unit{op.Fn, op.Call.Block(), op.Call.Pos()})
	}
	for _, fn := range c.LibFuncs {
		if c.pkgRel(fn) != "" {
			continue
		}
		allCalls(fn, func(ci ssa.CallInstruction) {
			g := staticCallee(ci)
			if g == nil || !helper[c.declared(g)] {
				return
			}
			for _, a := range ci.Common().Args {
				if cf := closureFn(a); cf != nil && len(cf.Blocks) > 0 && len(cf.Params) >= 1 && c.libNamedIs(cf.Params[0].Type(), "store", "Tx") {
					units = append(units, unit{cf, cf.Blocks[0], ci.Pos()})
				}
			}
		})
	}
	for _, u := range units {
		fn := u.fn
		if c.eff(fn)&(EffDocWrite|EffIdxAdd|EffIdxRemove|EffIdxDrop) == 0 {
			continue
		}
		op := struct {
			Call interface {
				Block() *ssa.BasicBlock
				Pos() token.Pos
			}
		}{unitAt{u.start, u.pos}}
		n++
		key := c.fname(fn) + "/catalog record written by every writer"
		cut := map[*ssa.BasicBlock]bool{}
		for _, b := range fn.Blocks {
			for _, in := range b.Instrs {
				call, ok := in.(*ssa.Call)
				if !ok {
					continue
				}
				if h := staticCallee(call); h != nil && c.IsLib(c.declared(h)) && c.mustWriteMeta(c.declared(h), map[*ssa.Function]bool{}) {
					cut[b] = true
				}
			}
		}
		// deleting the catalog record is a write of it too
		for _, s := range c.Roles().model.sinks {
			if s.Fn == fn && s.Op == "Delete" && c.Roles().CatalogSkel != "" && sinkHasSkel(s, c.Roles().CatalogSkel) {
				cut[s.Call.Block()] = true
			}
		}
		// from every change of a document or index entry that can happen without the catalog write before it
		reach := map[*ssa.BasicBlock]bool{}
		{
			stack := []*ssa.BasicBlock{op.Call.Block()}
			for len(stack) > 0 {
				x := stack[len(stack)-1]
				stack = stack[:len(stack)-1]
				if reach[x] || (cut[x] && x != op.Call.Block()) {
					continue
				}
				reach[x] = true
				stack = append(stack, x.Succs...)
			}
		}
		bad := ""
		for _, wb := range fn.Blocks {
			if !reach[wb] || cut[wb] {
				continue
			}
			writes := false
			for _, in := range wb.Instrs {
				if call, ok := in.(*ssa.Call); ok && !c.isCommit(call) && c.callEff(call)&(EffDocWrite|EffIdxAdd|EffIdxRemove|EffIdxDrop|EffTxDelete) != 0 {
					writes = true
				}
			}
			if !writes {
				continue
			}
			var from []edge2
			for _, s := range wb.Succs {
				from = append(from, edge2{wb, s})
			}
			if b := c.successWithoutCut(fn, from, cut, nil); b != "" {
				bad = b
			}
			// the block itself may end in the success return
			if ret, ok := wb.Instrs[len(wb.Instrs)-1].(*ssa.Return); ok {
				if ei := errResultIndex(fn.Signature); ei >= 0 {
					if ev, has := returnedValue(ret, ei); has && !c.provablyNonNil(fn, ev, wb) {
						bad = "the success return at " + relPath(c, ret.Pos())
					}
				}
			}
		}
		if bad != "" {
			o.add(VIOLATED, key, relPath(c, op.Call.Pos()), "%s is reachable without the collection's catalog record having been written: on badger a concurrent writer of the same collection that touches other documents and index entries is not in conflict with this transaction, and both commit (write skew through an index)", bad)
		} else {
			o.add(OK, key, relPath(c, op.Call.Pos()), "every successful path writes the catalog record, which every operation reads first: concurrent writers of a collection conflict on badger")
		}
	}
	if n == 0 {
		o.add(UNDECIDED, "writers", "-", "no write operation found")
	}
	return o.list
}
