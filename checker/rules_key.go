package main

import (
	"fmt"
	"go/constant"
	"go/token"
	"go/types"
	"sort"
	"strings"

	"golang.org/x/tools/go/ssa"
)

type keyFamily struct {
	Skel  string
	Ops   map[string][]*keySink
	First *keySink
}

type keyModel struct {
	sinks    []*keySink
	families map[string]*keyFamily
	order    []string
}

func (c *Ctx) keyModel() *keyModel {
	if c.km != nil {
		return c.km
	}
	m := &keyModel{sinks: c.keySinks(), families: map[string]*keyFamily{}}
	c.km = m
	for _, s := range m.sinks {
		if s.isBound() {
			continue
		}
		for _, t := range s.Tmpls {
			if t.isNil() {
				continue
			}
			if t.onlyOpaque() {
				continue
			}
			sk := t.skeleton()
			f := m.families[sk]
			if f == nil {
				f = &keyFamily{Skel: sk, Ops: map[string][]*keySink{}, First: s}
				m.families[sk] = f
				m.order = append(m.order, sk)
			}
			f.Ops[s.Op] = append(f.Ops[s.Op], s)
		}
	}
	sort.Strings(m.order)
	return m
}

// stripSentinel removes a trailing run of 0xFF bytes: `append(prefix, 255)` is
// the upper sentinel of a reverse seek, judged by the prefix it extends.
func stripSentinel(t Tmpl) Tmpl {
	if len(t) == 0 {
		return t
	}
	last := t[len(t)-1]
	if last.K != pLit {
		return t
	}
	trimmed := strings.TrimRight(last.S, "\xff")
	if trimmed == last.S {
		return t
	}
	out := append(Tmpl{}, t[:len(t)-1]...)
	if trimmed != "" {
		out = append(out, Part{K: pLit, S: trimmed})
	}
	return out
}

func sinkKey(c *Ctx, s *keySink) string { return c.fname(s.Fn) + "/" + s.Op }

// ---------------------------------------------------------------- KEY1

func ruleKEY1(c *Ctx) []Ob {
	o := newObs(c, "KEY1")
	m := c.keyModel()
	for _, s := range m.sinks {
		if !s.isBound() {
			continue
		}
		pos := relPath(c, s.Call.Pos())
		if len(s.Tmpls) == 0 {
			o.add(UNDECIDED, sinkKey(c, s), pos, "scan bound could not be evaluated")
			continue
		}
		for _, t := range s.Tmpls {
			if t.isNil() {
				continue
			}
			t = stripSentinel(t.norm())
			if len(t) == 0 {
				continue
			}
			key := sinkKey(c, s) + " " + t.skeleton()
			last := t[len(t)-1]
			switch last.K {
			case pVar, pParam:
				if t.onlyOpaque() {
					o.add(UNDECIDED, key, pos, "scan bound %s has no literal structure the analysis can see", t)
				} else {
					o.add(VIOLATED, key, pos, "scan bound %s ends in the variable part <%s> without a terminating delimiter: it is also a prefix of every sibling whose name merely starts with that text (x / xy), so this scan reads or deletes the sibling's keys", t, last.S)
				}
			default:
				o.add(OK, key, pos, "bound %s ends in a literal / self-delimiting part", t)
			}
		}
	}
	return o.list
}

// ---------------------------------------------------------------- KEY2

func ruleKEY2(c *Ctx) []Ob {
	o := newObs(c, "KEY2")
	m := c.keyModel()
	// point templates: every variable is followed by a ';' delimiter (or is last)
	for _, s := range m.sinks {
		if s.isBound() {
			continue
		}
		pos := relPath(c, s.Call.Pos())
		for _, t := range s.Tmpls {
			t = t.norm()
			if t.isNil() {
				continue
			}
			if t.onlyOpaque() {
				if c.derivesFromItemKey(s.Arg) {
					o.add(INFO, sinkKey(c, s)+" cursor-key", pos, "key is the key of the item the cursor is on; bounded by the scan's prefix test (KEY1)")
				} else {
					o.add(UNDECIDED, sinkKey(c, s)+" "+t.skeleton(), pos, "key %s has no literal structure the analysis can see", t)
				}
				continue
			}
			bad := ""
			for i := 0; i+1 < len(t); i++ {
				if (t[i].K == pVar || t[i].K == pParam) && t[i+1].K == pLit && !strings.HasPrefix(t[i+1].S, ";") {
					bad = t[i].S
				}
			}
			key := sinkKey(c, s) + " " + t.skeleton()
			if bad != "" {
				o.add(VIOLATED, key, pos, "in key %s the variable <%s> is followed by literal text that does not start with the ';' separator: its extent is ambiguous", t, bad)
			} else {
				o.add(OK, key, pos, "every variable part of %s is terminated by ';' or ends the key", t)
			}
		}
	}
	// families pairwise distinct as complete keys
	for i, a := range m.order {
		for _, b := range m.order[i+1:] {
			key := "families " + a + " | " + b
			pos := relPath(c, m.families[a].First.Call.Pos())
			if keysMayCollide(a, b) {
				o.add(VIOLATED, key, pos, "a key of layout %s can equal a key of layout %s", a, b)
			} else {
				o.add(OK, key, pos, "layouts diverge at a literal position")
			}
		}
	}
	// each scan bound covers exactly one family
	for _, s := range m.sinks {
		if !s.isBound() {
			continue
		}
		pos := relPath(c, s.Call.Pos())
		for _, t := range s.Tmpls {
			if t.isNil() || t.onlyOpaque() {
				continue
			}
			sk := stripSentinel(t.norm()).skeleton()
			var cov []string
			for _, f := range m.order {
				if boundCovers(sk, f) {
					cov = append(cov, f)
				}
			}
			key := sinkKey(c, s) + " bound " + sk
			switch len(cov) {
			case 1:
				o.add(OK, key, pos, "bound covers exactly the key layout %s", cov[0])
			case 0:
				o.add(VIOLATED, key, pos, "bound %s matches no key layout that is ever written or read", sk)
			default:
				o.add(VIOLATED, key, pos, "bound %s also matches keys of other layouts: %s", sk, strings.Join(cov, ", "))
			}
		}
	}
	return o.list
}

// ---------------------------------------------------------------- KEY3

func ruleKEY3(c *Ctx) []Ob {
	o := newObs(c, "KEY3")
	m := c.keyModel()
	var bounds []string
	for _, s := range m.sinks {
		if s.isBound() {
			for _, t := range s.Tmpls {
				if !t.isNil() && !t.onlyOpaque() {
					bounds = append(bounds, t.skeleton())
				}
			}
		}
	}
	for _, sk := range m.order {
		f := m.families[sk]
		pos := relPath(c, f.First.Call.Pos())
		nS, nG, nD := len(f.Ops["Set"]), len(f.Ops["Get"]), len(f.Ops["Delete"])
		scanned := false
		for _, b := range bounds {
			if boundCovers(b, sk) {
				scanned = true
			}
		}
		if nG > 0 {
			key := "layout " + sk + "/read-is-written"
			if nS == 0 {
				s := f.Ops["Get"][0]
				o.add(VIOLATED, key, relPath(c, s.Call.Pos()), "keys of layout %s are looked up (%s) but no write uses this layout: reader and writer disagree, the record is never found", sk, c.fname(s.Fn))
			} else {
				o.add(OK, key, pos, "%d point reads and %d writes share the layout", nG, nS)
			}
		}
		if nD > 0 {
			key := "layout " + sk + "/delete-is-written"
			if nS == 0 {
				s := f.Ops["Delete"][0]
				o.add(VIOLATED, key, relPath(c, s.Call.Pos()), "keys of layout %s are deleted (%s) but never written under this layout: the real entry stays behind as residue", sk, c.fname(s.Fn))
			} else {
				o.add(OK, key, pos, "%d deletes and %d writes share the layout", nD, nS)
			}
		}
		if nS > 0 {
			key := "layout " + sk + "/written-is-read"
			if nG == 0 && !scanned {
				s := f.Ops["Set"][0]
				o.add(VIOLATED, key, relPath(c, s.Call.Pos()), "keys of layout %s are written (%s) but neither looked up nor covered by any scan bound", sk, c.fname(s.Fn))
			} else {
				o.add(OK, key, pos, "written keys are read by %d point lookups / scan=%v", nG, scanned)
			}
			// every written layout that is ever removed needs a deleter, documents and index entries in particular
			if nD == 0 && !scanned {
				o.add(INFO, "layout "+sk+"/no-delete", pos, "no point delete for this layout")
			}
		}
	}
	return o.list
}

// ---------------------------------------------------------------- KEY4

func ruleKEY4(c *Ctx) []Ob {
	o := newObs(c, "KEY4")
	m := c.keyModel()
	for _, s := range m.sinks {
		if s.Op != "Set" && s.Op != "Delete" {
			continue
		}
		for _, t := range s.Tmpls {
			ri, ei := -1, -1
			for i, p := range t {
				if p.K == pRank && ri < 0 {
					ri = i
				}
				if p.K == pEnc && ei < 0 {
					ei = i
				}
			}
			if ri < 0 && ei < 0 {
				continue
			}
			key := sinkKey(c, s) + " " + t.skeleton()
			pos := relPath(c, s.Call.Pos())
			switch {
			case ri < 0:
				o.add(VIOLATED, key, pos, "index key %s carries an encoded value but no type rank: values of different types interleave in key order", t)
			case ei >= 0 && ri > ei:
				o.add(VIOLATED, key, pos, "in index key %s the type rank follows the encoded value: key order no longer groups by type first", t)
			case ei >= 0 && !sameOrigin(t[ri].V, t[ei].V):
				o.add(VIOLATED, key, pos, "in index key %s the type rank and the encoded value are computed from different values", t)
			default:
				// the rank must be rendered as decimal text between delimiters
				okDelims := ri > 0 && t[ri-1].K == pLit && ri+1 < len(t) && t[ri+1].K == pLit && strings.HasPrefix(t[ri+1].S, ";")
				if !okDelims {
					o.add(VIOLATED, key, pos, "in index key %s the type rank is not enclosed by literal delimiters", t)
				} else {
					o.add(OK, key, pos, "type rank precedes the encoded value, both computed from the same value")
				}
			}
		}
	}
	return o.list
}

func sameOrigin(a, b ssa.Value) bool {
	if a == nil || b == nil {
		return false
	}
	if a == b {
		return true
	}
	oa, ob := origins(a), origins(b)
	for _, x := range oa {
		for _, y := range ob {
			if x == y {
				return true
			}
			// two loads of the same field of the same object
			bx, fx, nx := fieldLoad(x)
			by, fy, ny := fieldLoad(y)
			if nx != nil && nx == ny && fx == fy && (bx == by || (bx != nil && by != nil && stripFieldBase(bx) == stripFieldBase(by))) {
				return true
			}
		}
	}
	return false
}

// ---------------------------------------------------------------- KEY5

// specialise returns a phi-edge filter for fn under the assumption param == val.
func specialise(fn *ssa.Function, param *ssa.Parameter, val bool) func(phi *ssa.Phi, i int) bool {
	cut := map[edge]bool{}
	for _, b := range fn.Blocks {
		if len(b.Instrs) == 0 {
			continue
		}
		iff, ok := b.Instrs[len(b.Instrs)-1].(*ssa.If)
		if !ok {
			continue
		}
		if iff.Cond == ssa.Value(param) {
			cut[edge{b, !val}] = true
		}
	}
	live := map[*ssa.BasicBlock]bool{}
	var stack []*ssa.BasicBlock
	if len(fn.Blocks) > 0 {
		live[fn.Blocks[0]] = true
		stack = append(stack, fn.Blocks[0])
	}
	for len(stack) > 0 {
		b := stack[len(stack)-1]
		stack = stack[:len(stack)-1]
		for i, s := range b.Succs {
			if len(b.Succs) == 2 && cut[edge{b, i == 0}] {
				continue
			}
			if !live[s] {
				live[s] = true
				stack = append(stack, s)
			}
		}
	}
	return func(phi *ssa.Phi, i int) bool {
		if phi.Parent() != fn {
			return true
		}
		pred := phi.Block().Preds[i]
		if !live[pred] {
			return false
		}
		if len(pred.Succs) == 2 {
			// which branch leads to the phi's block?
			for j, s := range pred.Succs {
				if s == phi.Block() && cut[edge{pred, j == 0}] && pred.Succs[1-j] != phi.Block() {
					return false
				}
			}
		}
		return true
	}
}

func ruleKEY5(c *Ctx) []Ob {
	o := newObs(c, "KEY5")
	for _, fn := range c.LibFuncs {
		if strings.HasPrefix(c.pkgRel(fn), "store/") || fn.Parent() != nil {
			continue
		}
		// the reverse flag: a bool parameter whose negation is the direction passed to Tx.Cursor
		var rev *ssa.Parameter
		allCalls(fn, func(call ssa.CallInstruction) {
			if !c.isInvokeOf(call, "store", "Tx", "Cursor") {
				return
			}
			if u, ok := call.Common().Args[0].(*ssa.UnOp); ok && u.Op == token.NOT {
				if p, ok := u.X.(*ssa.Parameter); ok {
					rev = p
				}
			}
		})
		if rev == nil {
			continue
		}
		k := &keyEvaluator{c: c, phiLive: specialise(fn, rev, true)}
		allCalls(fn, func(call ssa.CallInstruction) {
			if !c.isInvokeOf(call, "store", "Cursor", "Seek") {
				return
			}
			ts := k.expand(k.eval(call.Common().Args[0], nil, 0, map[ssa.Value]bool{}), 0)
			key := c.fname(fn) + "/reverse Seek"
			pos := relPath(c, call.Pos())
			if len(ts) == 0 {
				o.add(UNDECIDED, key, pos, "seek target not evaluable under %s = true", rev.Name())
				return
			}
			bad := ""
			for _, t := range ts {
				t = t.norm()
				if t.isNil() || len(t) == 0 {
					continue
				}
				last := t[len(t)-1]
				if last.K == pLit && strings.HasSuffix(last.S, "\xff") {
					continue
				}
				bad = t.String()
			}
			if bad != "" {
				o.add(VIOLATED, key, pos, "with %s = true the cursor is positioned at %s, a strict prefix of the stored keys (which continue with the document id): a reverse seek lands on the last key <= target, i.e. before every entry carrying the bound value, so an inclusive upper bound (and an equality range) loses its entries in descending scans", rev.Name(), bad)
			} else {
				o.add(OK, key, pos, "every reverse seek target carries the 0xFF upper sentinel")
			}
		})
	}
	return o.list
}

// ---------------------------------------------------------------- KEY7

// kpos is a position inside a scanned key, evaluated against one key layout.
type kpos func(L Tmpl) (off int, fromEnd bool, why string)

func absPos(n int) kpos      { return func(Tmpl) (int, bool, string) { return n, false, "" } }
func endPos(n int) kpos      { return func(Tmpl) (int, bool, string) { return n, true, "" } }
func badPos(why string) kpos { return func(Tmpl) (int, bool, string) { return 0, false, why } }

func shiftPos(p kpos, d int) kpos {
	return func(L Tmpl) (int, bool, string) {
		o, fe, why := p(L)
		if why != "" {
			return 0, false, why
		}
		if fe {
			return o - d, true, ""
		}
		return o + d, false, ""
	}
}

// literalHead: the literal text a key of layout L starts with.
func literalHead(L Tmpl) string {
	s := ""
	for _, p := range L {
		if p.K != pLit {
			break
		}
		s += p.S
	}
	return s
}

type kspan struct{ lo, hi kpos }

// KEY7: a name or id that is recovered from a scanned key (store.Item.Key
// converted to a string) is exactly one variable part of a key layout that is
// written: it is cut at positions that follow from the layout's literal text
// (a stripped literal prefix, a constant offset, the first occurrence of a
// byte inside the literal head, a fixed-length id at the end), never at a
// position found by searching inside the variable part - a name may contain
// any byte that a search looks for.
func ruleKEY7(c *Ctx) []Ob {
	o := newObs(c, "KEY7")
	k := c.keys()
	m := c.keyModel()
	// written layouts
	var layouts []Tmpl
	seenL := map[string]bool{}
	for _, s := range m.sinks {
		if s.Op != "Set" {
			continue
		}
		for _, t := range s.Tmpls {
			t = t.norm()
			if t.isNil() || t.onlyOpaque() || seenL[t.skeleton()] {
				continue
			}
			seenL[t.skeleton()] = true
			layouts = append(layouts, t)
		}
	}
	litOf := func(v ssa.Value) (string, bool) {
		ts := k.evalAt(v)
		if len(ts) != 1 {
			return "", false
		}
		s := ""
		for _, p := range ts[0].norm() {
			if p.K != pLit {
				return "", false
			}
			s += p.S
		}
		return s, true
	}
	type terminal struct {
		fn   *ssa.Function
		at   ssa.Instruction
		span kspan
	}
	var terms []terminal
	type visitKey struct {
		v ssa.Value
	}
	visited := map[visitKey]bool{}
	var track func(v ssa.Value, sp kspan, depth int) // forward propagation
	// evalRel evaluates a slice bound x relative to the tracked value v with span sp.
	var evalRel func(x ssa.Value, v ssa.Value, sp kspan) kpos
	sameVal := func(a, b ssa.Value) bool {
		if a == b {
			return true
		}
		for _, oa := range origins(a) {
			for _, ob := range origins(b) {
				if oa == ob {
					return true
				}
				// two reads of the same field of the same item
				ba, fa, na := fieldLoad(oa)
				bb, fb, nb := fieldLoad(ob)
				if na != nil && na == nb && fa == fb && ba == bb {
					return true
				}
			}
		}
		return false
	}
	evalRel = func(x ssa.Value, v ssa.Value, sp kspan) kpos {
		if n, ok := constInt(x); ok {
			return func(L Tmpl) (int, bool, string) {
				o, fe, why := sp.lo(L)
				if why != "" {
					return 0, false, why
				}
				if fe {
					return o - int(n), true, ""
				}
				return o + int(n), false, ""
			}
		}
		switch e := x.(type) {
		case *ssa.BinOp:
			if e.Op == token.ADD || e.Op == token.SUB {
				sign := 1
				if e.Op == token.SUB {
					sign = -1
				}
				if n, ok := constInt(e.Y); ok {
					return shiftPos(evalRel(e.X, v, sp), sign*int(n))
				}
				if n, ok := constInt(e.X); ok && e.Op == token.ADD {
					return shiftPos(evalRel(e.Y, v, sp), int(n))
				}
				// len(v) - len(P) and the like
				if cl, ok := e.Y.(*ssa.Call); ok {
					if b, ok := cl.Common().Value.(*ssa.Builtin); ok && b.Name() == "len" {
						if s, ok := litOf(cl.Common().Args[0]); ok {
							return shiftPos(evalRel(e.X, v, sp), sign*len(s))
						}
					}
				}
			}
		case *ssa.Convert:
			return evalRel(e.X, v, sp)
		case *ssa.Call:
			cc := e.Common()
			if b, ok := cc.Value.(*ssa.Builtin); ok && b.Name() == "len" {
				if sameVal(cc.Args[0], v) {
					return sp.hi // len(v): the end of v
				}
				if s, ok := litOf(cc.Args[0]); ok {
					return evalRel(ssa.NewConst(constant.MakeInt64(int64(len(s))), types.Typ[types.Int]), v, sp)
				}
				return badPos("a length that does not follow from the key layout")
			}
			full := calleeFullName(e)
			switch full {
			case "bytes.IndexByte", "bytes.Index", "strings.Index", "strings.IndexByte", "bytes.IndexRune", "strings.IndexRune":
				if len(cc.Args) == 2 && sameVal(cc.Args[0], v) {
					sep := ""
					if n, ok := constInt(cc.Args[1]); ok {
						sep = string(rune(n))
					} else if s, ok := litOf(cc.Args[1]); ok {
						sep = s
					}
					if sep == "" {
						return badPos("a search for a separator that is not a constant")
					}
					return func(L Tmpl) (int, bool, string) {
						lo, fe, why := sp.lo(L)
						if why != "" {
							return 0, false, why
						}
						head := literalHead(L)
						if fe || lo > len(head) {
							return 0, false, "a search (" + full + ") that starts inside the variable part of the key"
						}
						i := strings.Index(head[lo:], sep)
						if i < 0 {
							return 0, false, fmt.Sprintf("the first %q is searched in the variable part of the key, which may contain it", sep)
						}
						return lo + i, false, ""
					}
				}
			case "bytes.LastIndexByte", "bytes.LastIndex", "strings.LastIndex", "strings.LastIndexByte", "bytes.LastIndexAny", "strings.LastIndexAny", "bytes.IndexAny", "strings.IndexAny":
				return badPos("the position found by " + full + " depends on the content of the variable part (a name containing the separator is cut short)")
			}
			return badPos("a position computed by " + full)
		}
		return badPos("a position that does not follow from the key layout")
	}
	track = func(v ssa.Value, sp kspan, depth int) {
		if depth > 8 || visited[visitKey{v}] {
			return
		}
		visited[visitKey{v}] = true
		for _, r := range realReferrers(v) {
			switch x := r.(type) {
			case *ssa.Slice:
				if x.X != v {
					continue
				}
				nsp := sp
				if x.Low != nil {
					nsp.lo = evalRel(x.Low, v, sp)
				}
				if x.High != nil {
					nsp.hi = evalRel(x.High, v, sp)
				}
				track(x, nsp, depth+1)
			case *ssa.Convert:
				track(x, sp, depth+1)
			case *ssa.ChangeType:
				track(x, sp, depth+1)
			case *ssa.Phi:
				track(x, sp, depth+1)
			case *ssa.Store:
				// local variable cell
				if al, ok := x.Addr.(*ssa.Alloc); ok && x.Val == v {
					for _, rr := range realReferrers(al) {
						if l, ok := rr.(*ssa.UnOp); ok && l.Op == token.MUL {
							track(l, sp, depth+1)
						}
					}
					continue
				}
				if isStringType(v.Type()) {
					terms = append(terms, terminal{x.Parent(), x, sp})
				}
			case *ssa.BinOp:
				// comparisons: no data leaves
			case *ssa.Return:
				fn := x.Parent()
				idx := -1
				for i, rv := range x.Results {
					if rv == v {
						idx = i
					}
				}
				sites := c.staticCallers(fn)
				if idx < 0 || len(sites) == 0 || fn.Parent() != nil {
					if isStringType(v.Type()) {
						terms = append(terms, terminal{fn, x, sp})
					}
					continue
				}
				for _, s := range sites {
					cv, ok := s.(*ssa.Call)
					if !ok {
						continue
					}
					if fn.Signature.Results().Len() == 1 {
						track(cv, sp, depth+1)
					} else {
						for _, e := range extractsOf(cv, idx) {
							track(e, sp, depth+1)
						}
					}
				}
			case *ssa.Call:
				cc := x.Common()
				full := calleeFullName(x)
				switch full {
				case "bytes.TrimPrefix", "strings.TrimPrefix":
					if cc.Args[0] == v {
						P, ok := litOf(cc.Args[1])
						nsp := sp
						if !ok {
							nsp.lo = badPos("a stripped prefix that is not literal text")
						} else {
							lo := sp.lo
							nsp.lo = func(L Tmpl) (int, bool, string) {
								o, fe, why := lo(L)
								if why != "" {
									return 0, false, why
								}
								head := literalHead(L)
								if fe || o > len(head) || !strings.HasPrefix(head[o:], P) {
									return 0, false, fmt.Sprintf("the stripped prefix %q is not the literal text of this layout", P)
								}
								return o + len(P), false, ""
							}
						}
						track(x, nsp, depth+1)
					}
					continue
				case "bytes.HasPrefix", "bytes.Compare", "bytes.Equal", "strings.HasPrefix", "bytes.HasSuffix", "strings.HasSuffix":
					continue
				}
				if b, ok := cc.Value.(*ssa.Builtin); ok {
					if b.Name() == "append" && len(cc.Args) == 2 && cc.Args[1] == v && isStringType(v.Type()) {
						terms = append(terms, terminal{x.Parent(), x, sp})
					}
					if b.Name() == "append" && len(cc.Args) == 2 && cc.Args[0] == v {
						continue // the scanned key used as a prefix of another key
					}
					continue
				}
				if g := staticCallee(x); g != nil && c.IsLib(g) && len(g.Blocks) > 0 && !cc.IsInvoke() {
					for i, a := range cc.Args {
						if a == v && i < len(g.Params) {
							track(g.Params[i], sp, depth+1)
						}
					}
					continue
				}
				if isStringType(v.Type()) {
					terms = append(terms, terminal{x.Parent(), x, sp})
				}
			case *ssa.MakeInterface:
				onlyPanic := true
				for _, rr := range realReferrers(x) {
					if _, ok := rr.(*ssa.Panic); !ok {
						onlyPanic = false
					}
				}
				if isStringType(v.Type()) && !onlyPanic {
					terms = append(terms, terminal{x.Parent(), x, sp})
				}
			}
		}
	}
	nsrc := 0
	for _, fn := range c.LibFuncs {
		if strings.HasPrefix(c.pkgRel(fn), "store") {
			continue
		}
		for _, b := range fn.Blocks {
			for _, in := range b.Instrs {
				v, ok := in.(ssa.Value)
				if !ok {
					continue
				}
				_, f, n := fieldLoad(v)
				if f != "Key" || n == nil || !c.libNamedIs(n, "store", "Item") {
					continue
				}
				nsrc++
				track(v, kspan{absPos(0), endPos(0)}, 0)
			}
		}
	}
	if nsrc == 0 {
		o.add(UNDECIDED, "sources", "-", "no read of store.Item.Key found outside the adapters")
		return o.list
	}
	cnt := map[string]int{}
	for _, t := range terms {
		base := c.fname(t.fn) + "/decoded key part"
		cnt[base]++
		key := base
		if cnt[base] > 1 {
			key = fmt.Sprintf("%s #%d", base, cnt[base])
		}
		pos := relPath(c, t.at.Pos())
		okL, why := "", ""
		for _, L := range layouts {
			lo, lfe, w1 := t.span.lo(L)
			hi, hfe, w2 := t.span.hi(L)
			if w1 != "" || w2 != "" {
				if why == "" {
					why = w1 + w2
				}
				continue
			}
			// spans of the variable parts of L
			off, known := 0, true
			for i, p := range L {
				last := i == len(L)-1
				if p.K == pLit {
					off += len(p.S)
					continue
				}
				if known && !lfe && lo == off && last && hfe && hi == 0 {
					okL = L.String() + ": the part " + Tmpl{p}.String() + " up to the end of the key"
				}
				if last && lfe && lo > 0 && hfe && hi == 0 && i > 0 && L[i-1].K == pEnc {
					okL = fmt.Sprintf("%s: the fixed-length (%d bytes) id that ends the key, after the self-delimiting encoded value", L.String(), lo)
				}
				known = false
			}
			if okL != "" {
				break
			}
		}
		if okL != "" {
			o.add(OK, key, pos, "exactly one variable part of the written layout %s", okL)
			continue
		}
		if why == "" {
			why = "the cut does not coincide with a variable part of any written key layout"
		}
		o.add(VIOLATED, key, pos, "the text recovered from the scanned key is delimited by %s", why)
	}
	if len(terms) == 0 {
		o.add(INFO, "decoders", "-", "no name or id is recovered from a scanned key")
	}
	return o.list
}

func isStringType(t types.Type) bool {
	b, ok := t.Underlying().(*types.Basic)
	return ok && b.Kind() == types.String
}

// ---------------------------------------------------------------- KEY8

// KEY8: in every key of the index layout that is written, sought or used as a
// scan bound, what follows the value marker is the output of the library's
// order-preserving encoder (and, in stored keys, the document id) - never raw
// bytes of the value. A hand-written "fast path" that copies a string into the
// key skips the encoder's escaping (0x00 / 0xFF), so keys stop sorting like the
// values compare.
func ruleKEY8(c *Ctx) []Ob {
	o := newObs(c, "KEY8")
	m := c.keyModel()
	r := c.Roles()
	if r.IndexSkel == "" {
		o.add(UNDECIDED, "index layout", "-", "the key layout of index entries was not identified")
		return o.list
	}
	// the literal that introduces the value: the last literal part of the stored layout
	marker := ""
	for _, s := range m.sinks {
		if s.Op != "Set" {
			continue
		}
		for _, t := range s.Tmpls {
			t = t.norm()
			if t.skeleton() != r.IndexSkel {
				continue
			}
			for _, p := range t {
				if p.K == pLit {
					marker = p.S
				}
			}
		}
	}
	if marker == "" {
		o.add(UNDECIDED, "index layout", "-", "no literal value marker in the index layout %s", r.IndexSkel)
		return o.list
	}
	n := 0
	for _, s := range m.sinks {
		if s.Op == "Get" || s.Op == "TrimPrefix" {
			continue
		}
		for _, t := range s.Tmpls {
			t = stripSentinel(t.norm())
			// position of the marker
			at := -1
			for i, p := range t {
				if p.K == pLit && strings.HasSuffix(p.S, marker) {
					at = i
				}
			}
			if at < 0 {
				continue
			}
			n++
			key := sinkKey(c, s) + " value part of " + t.skeleton()
			pos := relPath(c, s.Call.Pos())
			bad := ""
			rest := t[at+1:]
			for i, p := range rest {
				last := i == len(rest)-1
				switch {
				case p.K == pEnc:
				case p.K == pVar && last && i > 0 && (s.Op == "Set" || s.Op == "Delete"):
					// the document id that ends a stored key
				case p.K == pVar && last && i == 0 && (s.Op == "Set" || s.Op == "Delete"):
					bad = "the value marker is followed by <" + p.S + "> without an encoded value"
				default:
					bad = Tmpl{p}.String()
				}
			}
			if bad != "" {
				o.add(VIOLATED, key, pos, "after %q the key %s contains %s, which is not the output of the order-preserving encoder: raw value bytes in a key are neither escaped nor self-delimiting, and keys stop sorting in comparison order", marker, t, bad)
			} else {
				o.add(OK, key, pos, "after %q only encoder output (and the document id of stored keys)", marker)
			}
		}
	}
	if n == 0 {
		o.add(UNDECIDED, "index keys", "-", "no key of the index layout carries the value marker %q", marker)
	}
	return o.list
}

// appendItemsArg: when call is orderedcode.Append, or a library function that forwards its
// variadic parameter as the items of orderedcode.Append (func (e *encoder) append(items ...any)),
// the argument holding the items; nil otherwise.
func (c *Ctx) appendItemsArg(call ssa.CallInstruction) ssa.Value {
	g := staticCallee(call)
	if g == nil {
		return nil
	}
	args := call.Common().Args
	if g.Pkg != nil && g.Pkg.Pkg.Path() == "github.com/google/orderedcode" && g.Name() == "Append" {
		if len(args) > 1 {
			return args[1]
		}
		return nil
	}
	g = c.declared(g)
	if !c.IsLib(g) || !g.Signature.Variadic() || len(g.Params) == 0 || len(args) != len(g.Params) {
		return nil
	}
	last := g.Params[len(g.Params)-1]
	forwards := false
	allCalls(g, func(inner ssa.CallInstruction) {
		h := staticCallee(inner)
		if h == nil || h.Pkg == nil || h.Pkg.Pkg.Path() != "github.com/google/orderedcode" || h.Name() != "Append" || len(inner.Common().Args) < 2 {
			return
		}
		for _, og := range origins(inner.Common().Args[1]) {
			if og == ssa.Value(last) {
				forwards = true
			}
		}
	})
	if !forwards {
		return nil
	}
	return args[len(args)-1]
}

// ---------------------------------------------------------------- KEY9

// KEY9: within one encoder function every orderedcode.Append whose result can
// be returned passes the same number of items. A container is encoded as
// (type id, payload-as-string): the string item carries the terminator that
// keeps encodings prefix-free, also when the payload is empty. A fast path for
// the empty container that appends the type id alone produces a key that is a
// bare prefix of every non-empty one.
func ruleKEY9(c *Ctx) []Ob {
	o := newObs(c, "KEY9")
	n := 0
	for _, fn := range c.LibFuncs {
		if fn.Parent() != nil {
			continue
		}
		type site struct {
			call  *ssa.Call
			items int
		}
		var sites []site
		for _, b := range fn.Blocks {
			for _, in := range b.Instrs {
				call, ok := in.(*ssa.Call)
				if !ok {
					continue
				}
				itemsArg := c.appendItemsArg(call)
				if itemsArg == nil {
					continue
				}
				items, ok := c.keys().sprintfArgs(itemsArg)
				if !ok {
					continue
				}
				// does the result reach a return of fn?
				reaches := false
				for _, ret := range returnsOf(fn) {
					if rv, ok := returnedValue(ret, 0); ok {
						if isErrorType(rv.Type()) && c.provablyNonNil(fn, rv, ret.Block()) {
							continue // the failure path of a call that reports only an error: no encoding is returned
						}
						for _, og := range origins(rv) {
							if og == ssa.Value(call) {
								reaches = true
							}
							if ex, ok := og.(*ssa.Extract); ok && ex.Tuple == ssa.Value(call) {
								reaches = true
							}
						}
					}
				}
				if reaches {
					sites = append(sites, site{call, len(items)})
				}
			}
		}
		if len(sites) == 0 {
			continue
		}
		n++
		key := c.fname(fn) + "/orderedcode.Append item count"
		bad := ""
		for _, s := range sites[1:] {
			if s.items != sites[0].items {
				bad = fmt.Sprintf("%d item(s) at %s, %d at %s", sites[0].items, relPath(c, sites[0].call.Pos()), s.items, relPath(c, s.call.Pos()))
			}
		}
		if bad != "" {
			o.add(VIOLATED, key, relPath(c, fn.Pos()), "the encodings this function can return are built from different numbers of items (%s): one of the shapes lacks the terminated payload item, so its encoding is a bare prefix of the other's and keys stop being prefix-free / order-preserving", bad)
		} else {
			o.add(OK, key, relPath(c, fn.Pos()), "%d returning Append call(s), %d item(s) each", len(sites), sites[0].items)
		}
	}
	if n == 0 {
		o.add(UNDECIDED, "encoders", "-", "no orderedcode.Append call whose result is returned")
	}
	return o.list
}

// ---------------------------------------------------------------- KEY10

// KEY10: what a prefix scan does with the entry under the cursor - deleting its
// key, handing it (or a part of its key) to the caller's callback - happens
// only after THAT entry's key passed the prefix test. A loop that acts first
// and tests the next entry afterwards acts once on whatever the initial seek
// landed on: with an empty range, the first key of the neighbouring range.
func ruleKEY10(c *Ctx) []Ob {
	o := newObs(c, "KEY10")
	isItemKey := func(v ssa.Value) bool {
		for _, og := range c.paramSources(v, 0) {
			for _, x := range origins(og) {
				_, f, n := fieldLoad(x)
				if f == "Key" && n != nil && c.libNamedIs(n, "store", "Item") {
					return true
				}
				// the whole item passed on
				if n, ok := x.Type().(*types.Named); ok && c.libNamedIs(n, "store", "Item") {
					if _, isCall := x.(*ssa.Extract); isCall {
						return true
					}
				}
				// parts of the key produced by a splitter helper
				if ex, ok := x.(*ssa.Extract); ok {
					if cl, ok := ex.Tuple.(*ssa.Call); ok {
						for _, a := range cl.Common().Args {
							for _, ao := range origins(a) {
								if _, f2, n2 := fieldLoad(ao); f2 == "Key" && n2 != nil && c.libNamedIs(n2, "store", "Item") {
									return true
								}
							}
						}
					}
				}
			}
		}
		return false
	}
	// is v (a bool) the outcome of a prefix test of a cursor key on all its sources?
	var isPrefixTest func(v ssa.Value, depth int) bool
	isPrefixTest = func(v ssa.Value, depth int) bool {
		if depth > 4 {
			return false
		}
		ogs := origins(v)
		if len(ogs) == 0 {
			return false
		}
		for _, og := range ogs {
			if b, ok := constBool(og); ok && !b {
				continue
			}
			switch x := og.(type) {
			case *ssa.Call:
				full := calleeFullName(x)
				if (full == "bytes.HasPrefix" || full == "strings.HasPrefix") && isItemKey(x.Common().Args[0]) {
					continue
				}
				if g := staticCallee(x); g != nil && c.IsLib(c.declared(g)) && c.declared(g).Signature.Results().Len() == 1 {
					all := true
					for _, ret := range returnsOf(c.declared(g)) {
						if rv, ok := returnedValue(ret, 0); !ok || !isPrefixTest(rv, depth+1) {
							all = false
						}
					}
					if all {
						continue
					}
				}
				return false
			case *ssa.Extract:
				cl, ok := x.Tuple.(*ssa.Call)
				if !ok {
					return false
				}
				g := staticCallee(cl)
				if g == nil || !c.IsLib(c.declared(g)) {
					return false
				}
				all := true
				for _, ret := range returnsOf(c.declared(g)) {
					if rv, ok := returnedValue(ret, x.Index); !ok || !isPrefixTest(rv, depth+1) {
						all = false
					}
				}
				if !all {
					return false
				}
			default:
				return false
			}
		}
		return true
	}
	n := 0
	for _, fn := range c.LibFuncs {
		if strings.HasPrefix(c.pkgRel(fn), "store") {
			continue
		}
		hasCursor := false
		allCalls(fn, func(ci ssa.CallInstruction) {
			if c.isInvokeOf(ci, "store", "Cursor", "Item") {
				hasCursor = true
			}
		})
		if !hasCursor {
			continue
		}
		guards := guardEdges(fn, func(cond ssa.Value, branch bool) bool {
			neg := false
			for {
				if u, ok := cond.(*ssa.UnOp); ok && u.Op == token.NOT {
					cond, neg = u.X, !neg
					continue
				}
				break
			}
			return isPrefixTest(cond, 0) && branch != neg
		})
		k := 0
		allCalls(fn, func(ci ssa.CallInstruction) {
			call, ok := ci.(*ssa.Call)
			if !ok {
				return
			}
			what := ""
			switch {
			case c.isInvokeOf(call, "store", "Tx", "Delete") && isItemKey(call.Common().Args[0]):
				what = "deletes the key under the cursor"
			case !call.Common().IsInvoke() && staticCallee(call) == nil:
				// a call through a function value: the scan's consumer
				if _, isB := call.Common().Value.(*ssa.Builtin); isB {
					return
				}
				for _, a := range call.Common().Args {
					if isItemKey(a) {
						what = "hands the entry under the cursor to the consumer"
					}
				}
			}
			if what == "" {
				return
			}
			n++
			k++
			key := fmt.Sprintf("%s/%s", c.fname(fn), what)
			if k > 1 {
				key = fmt.Sprintf("%s #%d", key, k)
			}
			if guardedBy(fn, call.Block(), guards) {
				o.add(OK, key, relPath(c, call.Pos()), "reached only after a prefix test of a cursor key succeeded")
			} else {
				o.add(VIOLATED, key, relPath(c, call.Pos()), "the scan %s on a path on which no prefix test of the cursor's key has succeeded: the entry the initial seek lands on is acted upon even if it lies outside the scanned range (with an empty range: the first key of another index, collection or of the catalog)", what)
			}
		})
	}
	if n == 0 {
		o.add(UNDECIDED, "scans", "-", "no prefix scan acting on cursor keys found")
	}
	return o.list
}

// ---------------------------------------------------------------- KEY11

// KEY11: the key of a time orders like the time for every time from 1970 on.
// (time.Time).UnixNano is defined only for instants between 1678 and 2262 (an
// int64 count of nanoseconds); converted to uint64 its wrap-around happens to
// keep the order up to 2554-07-21, and from there on the keys of later times
// sort before the keys of earlier ones. A key derived from UnixNano is
// therefore reported. (Seconds and nanoseconds encoded as two items would
// cover the whole range, but change the layout of existing indexes.)
func ruleKEY11(c *Ctx) []Ob {
	o := newObs(c, "KEY11")
	n := 0
	for _, fn := range c.LibFuncs {
		if c.pkgRel(fn) != "internal" && c.pkgRel(fn) != "index" {
			continue
		}
		allCalls(fn, func(ci ssa.CallInstruction) {
			if calleeFullName(ci) != "(time.Time).UnixNano" {
				return
			}
			call, ok := ci.(*ssa.Call)
			if !ok {
				return
			}
			// does the value reach the function's result (the value handed to the encoder)?
			reaches := false
			seen := map[ssa.Value]bool{}
			var fwd func(v ssa.Value)
			fwd = func(v ssa.Value) {
				if seen[v] {
					return
				}
				seen[v] = true
				for _, r := range realReferrers(v) {
					switch x := r.(type) {
					case *ssa.Return:
						reaches = true
					case *ssa.Convert:
						fwd(x)
					case *ssa.MakeInterface:
						fwd(x)
					case *ssa.Phi:
						fwd(x)
					case *ssa.BinOp:
						fwd(x)
					case *ssa.Slice:
						fwd(x)
					case *ssa.Store:
						// an item of a variadic call: stored into the argument array, which is sliced and passed on
						if x.Val == v {
							if ia, ok := x.Addr.(*ssa.IndexAddr); ok {
								fwd(ia.X)
							}
						}
					case *ssa.Call:
						if g := staticCallee(x); g != nil && g.Pkg != nil && g.Pkg.Pkg.Path() == "github.com/google/orderedcode" {
							reaches = true
						}
					}
				}
			}
			fwd(call)
			if !reaches {
				return
			}
			n++
			// keyed by an ordinal among the sites (functions in name order), not by the function's name: the same
			// computation moved into a helper is the same construct
			ckey := "index keys/time key from UnixNano"
			if n > 1 {
				ckey += fmt.Sprintf(" #%d", n)
			}
			o.add(VIOLATED, ckey, relPath(c, call.Pos()), "the key of a time is uint64(t.UnixNano()): UnixNano overflows int64 after 2262 and the uint64 wraps after 2554-07-21, so the key of 2600-01-01 sorts before the key of 2020-01-01 while Compare orders them correctly - an index range scan and the filter disagree for such times (Count(f > 2020) is 1 without the index, 0 with it)")
		})
	}
	if n == 0 {
		o.add(OK, "time keys", "-", "no index key is derived from (time.Time).UnixNano")
	}
	return o.list
}

// ---------------------------------------------------------------- KEY12

// KEY12: NaN has one place in the order and one key. Numbers are keyed by the
// order-preserving encoding of their float64 bits, under which a NaN sorts
// after +Inf (positive NaN) or before -Inf (sign bit set), and every payload
// is a key of its own; the comparison cannot use <, > or == on a NaN. So:
// (a) the float comparator, evaluated with every ordering test of a NaN false
// and math.IsNaN injected, answers "greater" for a NaN against a number,
// "smaller" for a number against a NaN and "equal" for two NaNs - the place
// of the positive quiet NaN's key; (b) the value handed to the key encoder for
// a number is replaced by math.NaN() wherever math.IsNaN found it to be one.
func ruleKEY12(c *Ctx) []Ob {
	o := newObs(c, "KEY12")
	// (a) the comparator: a function of two float64 returning int that calls math.IsNaN
	var cmpF *ssa.Function
	for _, fn := range c.LibFuncs {
		if c.pkgRel(fn) == "internal" && c.isFloatComparator(fn, 0) {
			cmpF = fn
		}
	}
	if cmpF == nil {
		o.add(UNDECIDED, "float comparator", "-", "no function (float64, float64) int found in package internal")
	} else {
		pos := relPath(c, cmpF.Pos())
		for _, cs := range []struct {
			n1, n2 bool
			want   int
			name   string
		}{{true, false, 1, "NaN vs number"}, {false, true, -1, "number vs NaN"}, {true, true, 0, "NaN vs NaN"}} {
			cs := cs
			te := c.newTagEval()
			te.binopHook = func(bo *ssa.BinOp) (aval, bool) {
				if b, ok := bo.X.Type().Underlying().(*types.Basic); ok && b.Kind() == types.Float64 {
					switch bo.Op {
					case token.LSS, token.GTR, token.EQL, token.LEQ, token.GEQ:
						return boolConst(false), true
					case token.NEQ:
						return boolConst(true), true
					}
				}
				return aval{}, false
			}
			// the two operands carry marks, so that they are recognised inside helpers as well
			const markA, markB = 91, 92
			f64 := types.Typ[types.Float64]
			te.callHookEnv = func(call *ssa.Call, val func(ssa.Value) aval) ([]aval, bool) {
				if calleeFullName(call) != "math.IsNaN" {
					return nil, false
				}
				if av := val(call.Call.Args[0]); av.K == aConcrete {
					switch av.Idx {
					case markA:
						return []aval{boolConst(cs.n1)}, true
					case markB:
						return []aval{boolConst(cs.n2)}, true
					}
				}
				for _, og := range origins(call.Call.Args[0]) {
					switch og {
					case ssa.Value(cmpF.Params[0]):
						return []aval{boolConst(cs.n1)}, true
					case ssa.Value(cmpF.Params[1]):
						return []aval{boolConst(cs.n2)}, true
					}
				}
				return nil, false
			}
			outs := te.Eval(cmpF, []aval{{K: aConcrete, Tag: f64, Idx: markA}, {K: aConcrete, Tag: f64, Idx: markB}}, 0)
			key := c.fname(cmpF) + "/" + cs.name
			if len(outs) != 1 || outs[0].Panic {
				o.add(UNDECIDED, key, pos, "the outcome is not decided by the ordering tests being false and math.IsNaN (%d outcomes)", len(outs))
				continue
			}
			r, ok := constIntOf(outs[0].Vals[0])
			sign := 0
			if r > 0 {
				sign = 1
			} else if r < 0 {
				sign = -1
			}
			switch {
			case !ok:
				o.add(UNDECIDED, key, pos, "the result is not a constant")
			case sign != cs.want:
				o.add(VIOLATED, key, pos, "the comparator answers %d, but the key of a NaN (the encoding of the positive quiet NaN's bits) sorts after the key of every other number: an index on the field places the NaN document at the other end of the numbers, so range scans and index-ordered sorts disagree with the filter (x < 2 loses the NaN document once x is indexed)", r)
			default:
				o.add(OK, key, pos, "answers %d, the place of the NaN key", r)
			}
		}
	}
	// (b) the key encoder's number path canonicalises NaN
	n := 0
	encReach := c.staticReach(c.lookupFunc("internal", "OrderedCode"))
	for _, fn := range c.LibFuncs {
		if c.pkgRel(fn) != "internal" || fn.Parent() != nil {
			continue
		}
		// functions whose result is handed to orderedcode.Append by a caller and that convert numbers
		toF := false
		allCalls(fn, func(ci ssa.CallInstruction) {
			if g := staticCallee(ci); g != nil && c.declared(g) == c.lookupFunc("util", "ToFloat64") {
				toF = true
			}
		})
		if !toF || !encReach[fn] {
			continue
		}
		n++
		key := c.fname(fn) + "/NaN has one key"
		canonicalises := func(f *ssa.Function) bool {
			nanEdges := guardEdges(f, func(cond ssa.Value, branch bool) bool {
				call, ok := cond.(*ssa.Call)
				return ok && calleeFullName(call) == "math.IsNaN" && branch
			})
			for _, ret := range returnsOf(f) {
				if !guardedBy(f, ret.Block(), nanEdges) {
					continue
				}
				if rv, ok := returnedValue(ret, 0); ok {
					for _, og := range origins(rv) {
						if mi, ok := og.(*ssa.MakeInterface); ok {
							og = mi.X
						}
						if call, ok := og.(*ssa.Call); ok && calleeFullName(call) == "math.NaN" {
							return true
						}
					}
				}
			}
			return false
		}
		okCanon := canonicalises(fn)
		if !okCanon {
			// or the converted number is handed to a helper that does it
			allCalls(fn, func(ci ssa.CallInstruction) {
				g := staticCallee(ci)
				if g == nil || !c.IsLib(c.declared(g)) || c.declared(g) == c.lookupFunc("util", "ToFloat64") {
					return
				}
				for _, a := range ci.Common().Args {
					for _, og := range origins(a) {
						if cl, ok := og.(*ssa.Call); ok && staticCallee(cl) != nil && c.declared(staticCallee(cl)) == c.lookupFunc("util", "ToFloat64") && canonicalises(c.declared(g)) {
							okCanon = true
						}
					}
				}
			})
		}
		if okCanon {
			o.add(OK, key, relPath(c, fn.Pos()), "a number found to be NaN is keyed as math.NaN()")
		} else {
			o.add(VIOLATED, key, relPath(c, fn.Pos()), "numbers are keyed by their float64 bits without NaNs being replaced by one representative: the comparison treats all NaNs as equal, but NaNs with different sign or payload get different keys (one of them before -Inf), so equal values have unequal keys and Eq(NaN) through an index finds only the bit pattern of the operand")
		}
	}
	if n == 0 {
		o.add(UNDECIDED, "number keys", "-", "the function converting numbers for the key encoder was not found")
	}
	return o.list
}

// isFloatComparator: fn is a function (float64, float64) int that compares its two parameters WITH EACH
// OTHER: an ordering or equality test has one of them on each side, or both are handed (in either order) to
// such a function. A helper of the same signature that does arithmetic on its parameters and compares the
// result with a constant (the sign of a fractional part) is not a comparator of numbers.
func (c *Ctx) isFloatComparator(fn *ssa.Function, depth int) bool {
	if fn == nil || depth > 3 || fn.Parent() != nil || len(fn.Params) != 2 || fn.Signature.Results().Len() != 1 || len(fn.Blocks) == 0 {
		return false
	}
	isF := func(t types.Type) bool {
		b, ok := t.Underlying().(*types.Basic)
		return ok && b.Kind() == types.Float64
	}
	if !isF(fn.Params[0].Type()) || !isF(fn.Params[1].Type()) || !isIntType(fn.Signature.Results().At(0).Type()) {
		return false
	}
	is := func(v ssa.Value, p *ssa.Parameter) bool {
		for _, og := range origins(v) {
			if og == ssa.Value(p) {
				return true
			}
		}
		return false
	}
	p0, p1 := fn.Params[0], fn.Params[1]
	found := false
	for _, b := range fn.Blocks {
		for _, in := range b.Instrs {
			switch x := in.(type) {
			case *ssa.BinOp:
				switch x.Op {
				case token.LSS, token.GTR, token.LEQ, token.GEQ, token.EQL, token.NEQ:
					if (is(x.X, p0) && is(x.Y, p1)) || (is(x.X, p1) && is(x.Y, p0)) {
						found = true
					}
				}
			case *ssa.Call:
				if g := staticCallee(x); g != nil && c.IsLib(c.declared(g)) && c.declared(g) != fn && len(x.Call.Args) == 2 {
					a := x.Call.Args
					if ((is(a[0], p0) && is(a[1], p1)) || (is(a[0], p1) && is(a[1], p0))) && c.isFloatComparator(c.declared(g), depth+1) {
						found = true
					}
				}
			}
		}
	}
	return found
}
