package main

import (
	"go/token"
	"sort"
	"strings"

	"golang.org/x/tools/go/ssa"
)

type keyFamily struct {
	Skel  string
	Ops   map[string][]*keySink
	First *keySink
}

type keyModel struct {
	sinks    []*keySink
	families map[string]*keyFamily
	order    []string
}

func (c *Ctx) keyModel() *keyModel {
	if c.km != nil {
		return c.km
	}
	m := &keyModel{sinks: c.keySinks(), families: map[string]*keyFamily{}}
	c.km = m
	for _, s := range m.sinks {
		if s.isBound() {
			continue
		}
		for _, t := range s.Tmpls {
			if t.isNil() {
				continue
			}
			if t.onlyOpaque() {
				continue
			}
			sk := t.skeleton()
			f := m.families[sk]
			if f == nil {
				f = &keyFamily{Skel: sk, Ops: map[string][]*keySink{}, First: s}
				m.families[sk] = f
				m.order = append(m.order, sk)
			}
			f.Ops[s.Op] = append(f.Ops[s.Op], s)
		}
	}
	sort.Strings(m.order)
	return m
}

// stripSentinel removes a trailing run of 0xFF bytes: `append(prefix, 255)` is
// the upper sentinel of a reverse seek, judged by the prefix it extends.
func stripSentinel(t Tmpl) Tmpl {
	if len(t) == 0 {
		return t
	}
	last := t[len(t)-1]
	if last.K != pLit {
		return t
	}
	trimmed := strings.TrimRight(last.S, "\xff")
	if trimmed == last.S {
		return t
	}
	out := append(Tmpl{}, t[:len(t)-1]...)
	if trimmed != "" {
		out = append(out, Part{K: pLit, S: trimmed})
	}
	return out
}

func sinkKey(c *Ctx, s *keySink) string { return c.fname(s.Fn) + "/" + s.Op }

// ---------------------------------------------------------------- KEY1

func ruleKEY1(c *Ctx) []Ob {
	o := newObs(c, "KEY1")
	m := c.keyModel()
	for _, s := range m.sinks {
		if !s.isBound() {
			continue
		}
		pos := relPath(c, s.Call.Pos())
		if len(s.Tmpls) == 0 {
			o.add(UNDECIDED, sinkKey(c, s), pos, "scan bound could not be evaluated")
			continue
		}
		for _, t := range s.Tmpls {
			if t.isNil() {
				continue
			}
			t = stripSentinel(t.norm())
			if len(t) == 0 {
				continue
			}
			key := sinkKey(c, s) + " " + t.skeleton()
			last := t[len(t)-1]
			switch last.K {
			case pVar, pParam:
				if t.onlyOpaque() {
					o.add(UNDECIDED, key, pos, "scan bound %s has no literal structure the analysis can see", t)
				} else {
					o.add(VIOLATED, key, pos, "scan bound %s ends in the variable part <%s> without a terminating delimiter: it is also a prefix of every sibling whose name merely starts with that text (x / xy), so this scan reads or deletes the sibling's keys", t, last.S)
				}
			default:
				o.add(OK, key, pos, "bound %s ends in a literal / self-delimiting part", t)
			}
		}
	}
	return o.list
}

// ---------------------------------------------------------------- KEY2

func ruleKEY2(c *Ctx) []Ob {
	o := newObs(c, "KEY2")
	m := c.keyModel()
	// point templates: every variable is followed by a ';' delimiter (or is last)
	for _, s := range m.sinks {
		if s.isBound() {
			continue
		}
		pos := relPath(c, s.Call.Pos())
		for _, t := range s.Tmpls {
			t = t.norm()
			if t.isNil() {
				continue
			}
			if t.onlyOpaque() {
				if c.derivesFromItemKey(s.Arg) {
					o.add(INFO, sinkKey(c, s)+" cursor-key", pos, "key is the key of the item the cursor is on; bounded by the scan's prefix test (KEY1)")
				} else {
					o.add(UNDECIDED, sinkKey(c, s)+" "+t.skeleton(), pos, "key %s has no literal structure the analysis can see", t)
				}
				continue
			}
			bad := ""
			for i := 0; i+1 < len(t); i++ {
				if (t[i].K == pVar || t[i].K == pParam) && t[i+1].K == pLit && !strings.HasPrefix(t[i+1].S, ";") {
					bad = t[i].S
				}
			}
			key := sinkKey(c, s) + " " + t.skeleton()
			if bad != "" {
				o.add(VIOLATED, key, pos, "in key %s the variable <%s> is followed by literal text that does not start with the ';' separator: its extent is ambiguous", t, bad)
			} else {
				o.add(OK, key, pos, "every variable part of %s is terminated by ';' or ends the key", t)
			}
		}
	}
	// families pairwise distinct as complete keys
	for i, a := range m.order {
		for _, b := range m.order[i+1:] {
			key := "families " + a + " | " + b
			pos := relPath(c, m.families[a].First.Call.Pos())
			if keysMayCollide(a, b) {
				o.add(VIOLATED, key, pos, "a key of layout %s can equal a key of layout %s", a, b)
			} else {
				o.add(OK, key, pos, "layouts diverge at a literal position")
			}
		}
	}
	// each scan bound covers exactly one family
	for _, s := range m.sinks {
		if !s.isBound() {
			continue
		}
		pos := relPath(c, s.Call.Pos())
		for _, t := range s.Tmpls {
			if t.isNil() || t.onlyOpaque() {
				continue
			}
			sk := stripSentinel(t.norm()).skeleton()
			var cov []string
			for _, f := range m.order {
				if boundCovers(sk, f) {
					cov = append(cov, f)
				}
			}
			key := sinkKey(c, s) + " bound " + sk
			switch len(cov) {
			case 1:
				o.add(OK, key, pos, "bound covers exactly the key layout %s", cov[0])
			case 0:
				o.add(VIOLATED, key, pos, "bound %s matches no key layout that is ever written or read", sk)
			default:
				o.add(VIOLATED, key, pos, "bound %s also matches keys of other layouts: %s", sk, strings.Join(cov, ", "))
			}
		}
	}
	return o.list
}

// ---------------------------------------------------------------- KEY3

func ruleKEY3(c *Ctx) []Ob {
	o := newObs(c, "KEY3")
	m := c.keyModel()
	var bounds []string
	for _, s := range m.sinks {
		if s.isBound() {
			for _, t := range s.Tmpls {
				if !t.isNil() && !t.onlyOpaque() {
					bounds = append(bounds, t.skeleton())
				}
			}
		}
	}
	for _, sk := range m.order {
		f := m.families[sk]
		pos := relPath(c, f.First.Call.Pos())
		nS, nG, nD := len(f.Ops["Set"]), len(f.Ops["Get"]), len(f.Ops["Delete"])
		scanned := false
		for _, b := range bounds {
			if boundCovers(b, sk) {
				scanned = true
			}
		}
		if nG > 0 {
			key := "layout " + sk + "/read-is-written"
			if nS == 0 {
				s := f.Ops["Get"][0]
				o.add(VIOLATED, key, relPath(c, s.Call.Pos()), "keys of layout %s are looked up (%s) but no write uses this layout: reader and writer disagree, the record is never found", sk, c.fname(s.Fn))
			} else {
				o.add(OK, key, pos, "%d point reads and %d writes share the layout", nG, nS)
			}
		}
		if nD > 0 {
			key := "layout " + sk + "/delete-is-written"
			if nS == 0 {
				s := f.Ops["Delete"][0]
				o.add(VIOLATED, key, relPath(c, s.Call.Pos()), "keys of layout %s are deleted (%s) but never written under this layout: the real entry stays behind as residue", sk, c.fname(s.Fn))
			} else {
				o.add(OK, key, pos, "%d deletes and %d writes share the layout", nD, nS)
			}
		}
		if nS > 0 {
			key := "layout " + sk + "/written-is-read"
			if nG == 0 && !scanned {
				s := f.Ops["Set"][0]
				o.add(VIOLATED, key, relPath(c, s.Call.Pos()), "keys of layout %s are written (%s) but neither looked up nor covered by any scan bound", sk, c.fname(s.Fn))
			} else {
				o.add(OK, key, pos, "written keys are read by %d point lookups / scan=%v", nG, scanned)
			}
			// every written layout that is ever removed needs a deleter, documents and index entries in particular
			if nD == 0 && !scanned {
				o.add(INFO, "layout "+sk+"/no-delete", pos, "no point delete for this layout")
			}
		}
	}
	return o.list
}

// ---------------------------------------------------------------- KEY4

func ruleKEY4(c *Ctx) []Ob {
	o := newObs(c, "KEY4")
	m := c.keyModel()
	for _, s := range m.sinks {
		if s.Op != "Set" && s.Op != "Delete" {
			continue
		}
		for _, t := range s.Tmpls {
			ri, ei := -1, -1
			for i, p := range t {
				if p.K == pRank && ri < 0 {
					ri = i
				}
				if p.K == pEnc && ei < 0 {
					ei = i
				}
			}
			if ri < 0 && ei < 0 {
				continue
			}
			key := sinkKey(c, s) + " " + t.skeleton()
			pos := relPath(c, s.Call.Pos())
			switch {
			case ri < 0:
				o.add(VIOLATED, key, pos, "index key %s carries an encoded value but no type rank: values of different types interleave in key order", t)
			case ei >= 0 && ri > ei:
				o.add(VIOLATED, key, pos, "in index key %s the type rank follows the encoded value: key order no longer groups by type first", t)
			case ei >= 0 && !sameOrigin(t[ri].V, t[ei].V):
				o.add(VIOLATED, key, pos, "in index key %s the type rank and the encoded value are computed from different values", t)
			default:
				// the rank must be rendered as decimal text between delimiters
				okDelims := ri > 0 && t[ri-1].K == pLit && ri+1 < len(t) && t[ri+1].K == pLit && strings.HasPrefix(t[ri+1].S, ";")
				if !okDelims {
					o.add(VIOLATED, key, pos, "in index key %s the type rank is not enclosed by literal delimiters", t)
				} else {
					o.add(OK, key, pos, "type rank precedes the encoded value, both computed from the same value")
				}
			}
		}
	}
	return o.list
}

func sameOrigin(a, b ssa.Value) bool {
	if a == nil || b == nil {
		return false
	}
	if a == b {
		return true
	}
	oa, ob := origins(a), origins(b)
	for _, x := range oa {
		for _, y := range ob {
			if x == y {
				return true
			}
		}
	}
	return false
}

// ---------------------------------------------------------------- KEY5

// specialise returns a phi-edge filter for fn under the assumption param == val.
func specialise(fn *ssa.Function, param *ssa.Parameter, val bool) func(phi *ssa.Phi, i int) bool {
	cut := map[edge]bool{}
	for _, b := range fn.Blocks {
		if len(b.Instrs) == 0 {
			continue
		}
		iff, ok := b.Instrs[len(b.Instrs)-1].(*ssa.If)
		if !ok {
			continue
		}
		if iff.Cond == ssa.Value(param) {
			cut[edge{b, !val}] = true
		}
	}
	live := map[*ssa.BasicBlock]bool{}
	var stack []*ssa.BasicBlock
	if len(fn.Blocks) > 0 {
		live[fn.Blocks[0]] = true
		stack = append(stack, fn.Blocks[0])
	}
	for len(stack) > 0 {
		b := stack[len(stack)-1]
		stack = stack[:len(stack)-1]
		for i, s := range b.Succs {
			if len(b.Succs) == 2 && cut[edge{b, i == 0}] {
				continue
			}
			if !live[s] {
				live[s] = true
				stack = append(stack, s)
			}
		}
	}
	return func(phi *ssa.Phi, i int) bool {
		if phi.Parent() != fn {
			return true
		}
		pred := phi.Block().Preds[i]
		if !live[pred] {
			return false
		}
		if len(pred.Succs) == 2 {
			// which branch leads to the phi's block?
			for j, s := range pred.Succs {
				if s == phi.Block() && cut[edge{pred, j == 0}] && pred.Succs[1-j] != phi.Block() {
					return false
				}
			}
		}
		return true
	}
}

func ruleKEY5(c *Ctx) []Ob {
	o := newObs(c, "KEY5")
	for _, fn := range c.LibFuncs {
		if strings.HasPrefix(c.pkgRel(fn), "store/") || fn.Parent() != nil {
			continue
		}
		// the reverse flag: a bool parameter whose negation is the direction passed to Tx.Cursor
		var rev *ssa.Parameter
		allCalls(fn, func(call ssa.CallInstruction) {
			if !c.isInvokeOf(call, "store", "Tx", "Cursor") {
				return
			}
			if u, ok := call.Common().Args[0].(*ssa.UnOp); ok && u.Op == token.NOT {
				if p, ok := u.X.(*ssa.Parameter); ok {
					rev = p
				}
			}
		})
		if rev == nil {
			continue
		}
		k := &keyEvaluator{c: c, phiLive: specialise(fn, rev, true)}
		allCalls(fn, func(call ssa.CallInstruction) {
			if !c.isInvokeOf(call, "store", "Cursor", "Seek") {
				return
			}
			ts := k.expand(k.eval(call.Common().Args[0], nil, 0, map[ssa.Value]bool{}), 0)
			key := c.fname(fn) + "/reverse Seek"
			pos := relPath(c, call.Pos())
			if len(ts) == 0 {
				o.add(UNDECIDED, key, pos, "seek target not evaluable under %s = true", rev.Name())
				return
			}
			bad := ""
			for _, t := range ts {
				t = t.norm()
				if t.isNil() || len(t) == 0 {
					continue
				}
				last := t[len(t)-1]
				if last.K == pLit && strings.HasSuffix(last.S, "\xff") {
					continue
				}
				bad = t.String()
			}
			if bad != "" {
				o.add(VIOLATED, key, pos, "with %s = true the cursor is positioned at %s, a strict prefix of the stored keys (which continue with the document id): a reverse seek lands on the last key <= target, i.e. before every entry carrying the bound value, so an inclusive upper bound (and an equality range) loses its entries in descending scans", rev.Name(), bad)
			} else {
				o.add(OK, key, pos, "every reverse seek target carries the 0xFF upper sentinel")
			}
		})
	}
	return o.list
}
