package main

import (
	"go/constant"
	"go/token"
	"go/types"
	"strings"

	"golang.org/x/tools/go/ssa"
)

// ---------------------------------------------------------------- calls

// staticCallee returns the statically known callee of a call, if any.
func staticCallee(call ssa.CallInstruction) *ssa.Function {
	return call.Common().StaticCallee()
}

// invokeName returns "(pkgpath.Iface).Method" for interface method calls, "" otherwise.
func invokeName(call ssa.CallInstruction) string {
	cc := call.Common()
	if !cc.IsInvoke() || cc.Method == nil {
		return ""
	}
	return cc.Method.FullName()
}

// calleeFullName: full name of the static callee or invoked method, "" for dynamic calls.
func calleeFullName(call ssa.CallInstruction) string {
	if n := invokeName(call); n != "" {
		return n
	}
	if f := staticCallee(call); f != nil {
		if f.Object() != nil {
			if fo, ok := f.Object().(*types.Func); ok {
				return fo.FullName()
			}
		}
		return f.String()
	}
	if b, ok := call.Common().Value.(*ssa.Builtin); ok {
		return "builtin." + b.Name()
	}
	return ""
}

// isInvokeOf: interface call of method on the lib interface rel.iface
func (c *Ctx) isInvokeOf(call ssa.CallInstruction, rel, iface, method string) bool {
	cc := call.Common()
	if !cc.IsInvoke() || cc.Method == nil || cc.Method.Name() != method {
		return false
	}
	return c.methodBelongsTo(cc.Method, rel, iface)
}

// methodBelongsTo: m is declared (possibly via embedding) in lib interface rel.iface,
// or in an interface that embeds it / is embedded by it.
func (c *Ctx) methodBelongsTo(m *types.Func, rel, iface string) bool {
	it := c.libType(rel, iface)
	if it == nil {
		return false
	}
	ui, ok := it.Underlying().(*types.Interface)
	if !ok {
		return false
	}
	for i := 0; i < ui.NumMethods(); i++ {
		if ui.Method(i) == m {
			return true
		}
	}
	return false
}

// callArgs returns the actual arguments excluding the receiver for invoke
// calls, and including the receiver (as args[0]) for static method calls, as go/ssa does.
func callArgs(call ssa.CallInstruction) []ssa.Value { return call.Common().Args }

// allCalls iterates over all call instructions (Call, Defer, Go) of fn.
func allCalls(fn *ssa.Function, f func(call ssa.CallInstruction)) {
	for _, b := range fn.Blocks {
		for _, in := range b.Instrs {
			if ci, ok := in.(ssa.CallInstruction); ok {
				f(ci)
			}
		}
	}
}

func errorType() types.Type { return types.Universe.Lookup("error").Type() }

func isErrorType(t types.Type) bool { return t != nil && types.Identical(t, errorType()) }

// errResultIndex returns the index of the (last) error result of sig, or -1.
func errResultIndex(sig *types.Signature) int {
	r := sig.Results()
	for i := r.Len() - 1; i >= 0; i-- {
		if isErrorType(r.At(i).Type()) {
			return i
		}
	}
	return -1
}

// extractOf returns the Extract instructions of a tuple-valued call for index i.
func extractsOf(v ssa.Value, i int) []*ssa.Extract {
	var out []*ssa.Extract
	if v.Referrers() == nil {
		return nil
	}
	for _, r := range *v.Referrers() {
		if e, ok := r.(*ssa.Extract); ok && e.Index == i {
			out = append(out, e)
		}
	}
	return out
}

// resultValue returns the SSA value(s) holding result i of call: the call itself
// for single-result calls, or its Extracts.
func resultValues(call *ssa.Call, i int) []ssa.Value {
	sig := call.Common().Signature()
	if sig.Results().Len() == 1 {
		if i == 0 {
			return []ssa.Value{call}
		}
		return nil
	}
	var out []ssa.Value
	for _, e := range extractsOf(call, i) {
		out = append(out, e)
	}
	return out
}

func realReferrers(v ssa.Value) []ssa.Instruction {
	var out []ssa.Instruction
	if v.Referrers() == nil {
		return nil
	}
	for _, r := range *v.Referrers() {
		if _, ok := r.(*ssa.DebugRef); ok {
			continue
		}
		out = append(out, r)
	}
	return out
}

// ---------------------------------------------------------------- constants

func isNilConst(v ssa.Value) bool {
	k, ok := v.(*ssa.Const)
	return ok && k.Value == nil
}

func constInt(v ssa.Value) (int64, bool) {
	k, ok := v.(*ssa.Const)
	if !ok || k.Value == nil || k.Value.Kind() != constant.Int {
		return 0, false
	}
	i, exact := constant.Int64Val(k.Value)
	return i, exact
}

func constBool(v ssa.Value) (bool, bool) {
	k, ok := v.(*ssa.Const)
	if !ok || k.Value == nil || k.Value.Kind() != constant.Bool {
		return false, false
	}
	return constant.BoolVal(k.Value), true
}

func constString(v ssa.Value) (string, bool) {
	k, ok := v.(*ssa.Const)
	if !ok || k.Value == nil || k.Value.Kind() != constant.String {
		return "", false
	}
	return constant.StringVal(k.Value), true
}

// ---------------------------------------------------------------- value shape

// stripIface peels conversions that keep identity: ChangeInterface, MakeInterface,
// ChangeType, and same-representation Convert between string and []byte.
func stripConv(v ssa.Value) ssa.Value {
	for {
		switch x := v.(type) {
		case *ssa.ChangeInterface:
			v = x.X
		case *ssa.MakeInterface:
			v = x.X
		case *ssa.ChangeType:
			v = x.X
		case *ssa.Convert:
			if isStringOrBytes(x.Type()) && isStringOrBytes(x.X.Type()) {
				v = x.X
			} else {
				return v
			}
		default:
			return v
		}
	}
}

func isStringOrBytes(t types.Type) bool {
	switch u := t.Underlying().(type) {
	case *types.Basic:
		return u.Info()&types.IsString != 0
	case *types.Slice:
		b, ok := u.Elem().Underlying().(*types.Basic)
		return ok && b.Kind() == types.Uint8
	}
	return false
}

// fieldOfAddr: if v is &x.f returns (x, field name, struct type)
func fieldOfAddr(v ssa.Value) (ssa.Value, string, *types.Named) {
	fa, ok := v.(*ssa.FieldAddr)
	if !ok {
		return nil, "", nil
	}
	pt, ok := fa.X.Type().Underlying().(*types.Pointer)
	if !ok {
		return nil, "", nil
	}
	st, ok := pt.Elem().Underlying().(*types.Struct)
	if !ok {
		return nil, "", nil
	}
	n, _ := pt.Elem().(*types.Named)
	return fa.X, st.Field(fa.Field).Name(), n
}

// fieldLoad: if v is a load *(&x.f) (or a Field of a struct value) returns (x, field, struct named type).
func fieldLoad(v ssa.Value) (ssa.Value, string, *types.Named) {
	switch u := v.(type) {
	case *ssa.UnOp:
		if u.Op == token.MUL {
			return fieldOfAddr(u.X)
		}
	case *ssa.Field:
		st, ok := u.X.Type().Underlying().(*types.Struct)
		if !ok {
			return nil, "", nil
		}
		n, _ := u.X.Type().(*types.Named)
		return u.X, st.Field(u.Field).Name(), n
	}
	return nil, "", nil
}

func namedName(n *types.Named) string {
	if n == nil {
		return ""
	}
	return n.Obj().Name()
}

func namedPkgPath(n *types.Named) string {
	if n == nil || n.Obj().Pkg() == nil {
		return ""
	}
	return n.Obj().Pkg().Path()
}

// ---------------------------------------------------------------- returns

// returnedValue recovers the value returned for result i at ret. Functions
// containing a defer spill their results into locals: *res = e; rundefers;
// t = *res; return t. In that case the last store to the local in the
// returning block is what is returned. ok=false for the synthetic recover block.
func returnedValue(ret *ssa.Return, i int) (ssa.Value, bool) {
	if i >= len(ret.Results) {
		return nil, false
	}
	v := ret.Results[i]
	u, ok := v.(*ssa.UnOp)
	if !ok || u.Op != token.MUL {
		return v, true
	}
	al, ok := u.X.(*ssa.Alloc)
	if !ok {
		return v, true
	}
	if al.Heap && (heapResultOK == nil || !heapResultOK(al)) {
		return v, true
	}
	// find the last store to al in this block before the load
	b := ret.Block()
	var last ssa.Value
	for _, in := range b.Instrs {
		if in == ssa.Instruction(u) {
			break
		}
		if st, ok := in.(*ssa.Store); ok && st.Addr == ssa.Value(al) {
			if ld, isLd := st.Val.(*ssa.UnOp); isLd && ld.Op == token.MUL && ld.X == ssa.Value(al) {
				continue // `return err` with err the named result: *res = *res
			}
			last = st.Val
		}
	}
	if last == nil {
		// recover block or a shape we do not know
		if b.Comment == "recover" {
			return nil, false
		}
		// search unique dominating store chain: walk idoms
		for d := b.Idom(); d != nil; d = d.Idom() {
			for j := len(d.Instrs) - 1; j >= 0; j-- {
				if st, ok := d.Instrs[j].(*ssa.Store); ok && st.Addr == ssa.Value(al) {
					if ld, isLd := st.Val.(*ssa.UnOp); isLd && ld.Op == token.MUL && ld.X == ssa.Value(al) {
						continue
					}
					return st.Val, true
				}
			}
		}
		return v, true
	}
	return last, true
}

// heapResultOK tells whether a result cell whose address is taken may be read
// like a spilled result: set by the checker to "its address only goes to a
// deferred transaction finisher", which overwrites the cell only when it holds nil.
var heapResultOK func(al *ssa.Alloc) bool

// returnsOf lists the Return instructions of fn, without the recover block.
func returnsOf(fn *ssa.Function) []*ssa.Return {
	var out []*ssa.Return
	for _, b := range fn.Blocks {
		if b.Comment == "recover" || len(b.Instrs) == 0 {
			continue
		}
		if r, ok := b.Instrs[len(b.Instrs)-1].(*ssa.Return); ok {
			out = append(out, r)
		}
	}
	return out
}

// ---------------------------------------------------------------- guards

// edge identifies the CFG edge from the If terminating block From, on branch Branch.
type edge struct {
	From   *ssa.BasicBlock
	Branch bool // true: Succs[0]
}

func (e edge) to() *ssa.BasicBlock {
	if e.Branch {
		return e.From.Succs[0]
	}
	return e.From.Succs[1]
}

// ifEdges enumerates the conditional edges of fn with their condition.
func ifEdges(fn *ssa.Function, f func(cond ssa.Value, e edge)) {
	for _, b := range fn.Blocks {
		if len(b.Instrs) == 0 {
			continue
		}
		if i, ok := b.Instrs[len(b.Instrs)-1].(*ssa.If); ok {
			f(i.Cond, edge{b, true})
			f(i.Cond, edge{b, false})
		}
	}
}

// guardedBy reports whether every path from the entry of fn to block target
// crosses one of the given conditional edges, i.e. target becomes unreachable
// once those edges are removed. A block that is unreachable to begin with is
// (vacuously) guarded.
func guardedBy(fn *ssa.Function, target *ssa.BasicBlock, edges []edge) bool {
	if len(fn.Blocks) == 0 {
		return false
	}
	if len(edges) == 0 {
		return false
	}
	cut := map[edge]bool{}
	for _, e := range edges {
		cut[e] = true
	}
	seen := map[*ssa.BasicBlock]bool{}
	var stack []*ssa.BasicBlock
	stack = append(stack, fn.Blocks[0])
	seen[fn.Blocks[0]] = true
	for len(stack) > 0 {
		b := stack[len(stack)-1]
		stack = stack[:len(stack)-1]
		if b == target {
			return false
		}
		isIf := false
		if len(b.Instrs) > 0 {
			_, isIf = b.Instrs[len(b.Instrs)-1].(*ssa.If)
		}
		for i, s := range b.Succs {
			if isIf && cut[edge{b, i == 0}] {
				continue
			}
			if !seen[s] {
				seen[s] = true
				stack = append(stack, s)
			}
		}
	}
	return true
}

// guardEdges collects the conditional edges of fn on which pred(cond, branch) holds.
func guardEdges(fn *ssa.Function, pred func(cond ssa.Value, branch bool) bool) []edge {
	var out []edge
	ifEdges(fn, func(cond ssa.Value, e edge) {
		if pred(cond, e.Branch) {
			out = append(out, e)
		}
	})
	return out
}

// nilTest decodes `x == nil` / `x != nil`: returns x and whether the TRUE
// branch means "x is nil".
func nilTest(cond ssa.Value) (x ssa.Value, trueMeansNil bool, ok bool) {
	b, isBin := cond.(*ssa.BinOp)
	if !isBin || (b.Op != token.EQL && b.Op != token.NEQ) {
		return nil, false, false
	}
	switch {
	case isNilConst(b.Y):
		x = b.X
	case isNilConst(b.X):
		x = b.Y
	default:
		return nil, false, false
	}
	return x, b.Op == token.EQL, true
}

// nonNilEdges: edges of fn on which value v is known to be non-nil.
// same(v, x) decides value identity.
func nonNilEdges(fn *ssa.Function, same func(x ssa.Value) bool) []edge {
	return guardEdges(fn, func(cond ssa.Value, branch bool) bool {
		x, tnil, ok := nilTest(cond)
		if !ok || !same(x) {
			return false
		}
		return branch != tnil
	})
}

// nilEdges: edges on which v is known to be nil.
func nilEdges(fn *ssa.Function, same func(x ssa.Value) bool) []edge {
	return guardEdges(fn, func(cond ssa.Value, branch bool) bool {
		x, tnil, ok := nilTest(cond)
		if !ok || !same(x) {
			return false
		}
		return branch == tnil
	})
}

// sameValue matches v itself, or a load of a local variable cell (a named
// result, a captured variable) that certainly still holds v: v was stored into
// the cell, the store dominates the load, and no other store to the cell lies
// between them. (With named results and a deferred call, `x, err = f()` goes
// through the cell of err, and `if err != nil` tests a load of it.)
func sameValue(v ssa.Value) func(ssa.Value) bool {
	return func(x ssa.Value) bool {
		if x == v {
			return true
		}
		ld, ok := x.(*ssa.UnOp)
		if !ok || ld.Op != token.MUL {
			return false
		}
		al, ok := ld.X.(*ssa.Alloc)
		if !ok {
			return false
		}
		var stores []*ssa.Store
		var mine *ssa.Store
		for _, r := range realReferrers(al) {
			if st, ok := r.(*ssa.Store); ok && st.Addr == ssa.Value(al) {
				stores = append(stores, st)
				if st.Val == v {
					mine = st
				}
			}
		}
		if mine == nil || !instrDominates(mine, ld) {
			return false
		}
		for _, st := range stores {
			if st != mine && reachesAfter(mine, st) && reachesAfter(st, ld) {
				return false
			}
		}
		return true
	}
}

// errorsIsCall decodes cond = errors.Is(e, target): returns e, the target value.
func errorsIsCall(cond ssa.Value) (e ssa.Value, target ssa.Value, ok bool) {
	call, isCall := cond.(*ssa.Call)
	if !isCall {
		return nil, nil, false
	}
	f := staticCallee(call)
	if f == nil || f.Pkg == nil || f.Pkg.Pkg.Path() != "errors" || f.Name() != "Is" {
		return nil, nil, false
	}
	a := call.Common().Args
	if len(a) != 2 {
		return nil, nil, false
	}
	return a[0], a[1], true
}

// globalLoad: if v loads a package-level variable returns it.
func globalLoad(v ssa.Value) *ssa.Global {
	u, ok := v.(*ssa.UnOp)
	if !ok || u.Op != token.MUL {
		return nil
	}
	g, _ := u.X.(*ssa.Global)
	return g
}

func globalFullName(g *ssa.Global) string {
	if g == nil || g.Pkg == nil {
		return ""
	}
	return g.Pkg.Pkg.Path() + "." + g.Name()
}

// ---------------------------------------------------------------- dominance / order

// instrIndex returns the index of in within its block.
func instrIndex(in ssa.Instruction) int {
	for i, x := range in.Block().Instrs {
		if x == in {
			return i
		}
	}
	return -1
}

// instrDominates: a executes before b on every path reaching b.
func instrDominates(a, b ssa.Instruction) bool {
	if a.Block() == b.Block() {
		return instrIndex(a) < instrIndex(b)
	}
	return a.Block().Dominates(b.Block())
}

// reachableFrom returns blocks reachable from b (including b only if on a cycle or start=true).
func reachableFrom(start *ssa.BasicBlock, includeStart bool) map[*ssa.BasicBlock]bool {
	seen := map[*ssa.BasicBlock]bool{}
	var stack []*ssa.BasicBlock
	if includeStart {
		seen[start] = true
	}
	stack = append(stack, start)
	for len(stack) > 0 {
		b := stack[len(stack)-1]
		stack = stack[:len(stack)-1]
		for _, s := range b.Succs {
			if !seen[s] {
				seen[s] = true
				stack = append(stack, s)
			}
		}
	}
	return seen
}

// reachesAfter reports whether instruction b can execute after instruction a.
func reachesAfter(a, b ssa.Instruction) bool {
	if a.Block() == b.Block() && instrIndex(a) < instrIndex(b) {
		return true
	}
	return reachableFrom(a.Block(), false)[b.Block()]
}

// loopInfo: natural loops of a function.
type loopInfo struct {
	depth map[*ssa.BasicBlock]int
	// for each loop header, its body
	loops map[*ssa.BasicBlock]map[*ssa.BasicBlock]bool
}

func (c *Ctx) loops(fn *ssa.Function) *loopInfo {
	if li, ok := c.domCache[fn]; ok {
		return li
	}
	li := &loopInfo{depth: map[*ssa.BasicBlock]int{}, loops: map[*ssa.BasicBlock]map[*ssa.BasicBlock]bool{}}
	for _, b := range fn.Blocks {
		for _, s := range b.Succs {
			if s.Dominates(b) { // back edge b -> s
				body := li.loops[s]
				if body == nil {
					body = map[*ssa.BasicBlock]bool{s: true}
					li.loops[s] = body
				}
				// walk predecessors from b until header
				var stack []*ssa.BasicBlock
				if !body[b] {
					body[b] = true
					stack = append(stack, b)
				}
				for len(stack) > 0 {
					x := stack[len(stack)-1]
					stack = stack[:len(stack)-1]
					for _, p := range x.Preds {
						if !body[p] {
							body[p] = true
							stack = append(stack, p)
						}
					}
				}
			}
		}
	}
	for _, body := range li.loops {
		for b := range body {
			li.depth[b]++
		}
	}
	c.domCache[fn] = li
	return li
}

// inLoop reports whether block b is inside any natural loop (or irreducible cycle).
func (c *Ctx) inLoop(b *ssa.BasicBlock) bool {
	if c.loops(b.Parent()).depth[b] > 0 {
		return true
	}
	// irreducible safety net: b reaches itself
	return reachableFrom(b, false)[b]
}

// innermostLoop returns the header of the smallest loop containing b, or nil.
func (c *Ctx) innermostLoop(b *ssa.BasicBlock) (*ssa.BasicBlock, map[*ssa.BasicBlock]bool) {
	li := c.loops(b.Parent())
	var best *ssa.BasicBlock
	var bestBody map[*ssa.BasicBlock]bool
	for h, body := range li.loops {
		if body[b] && (best == nil || len(body) < len(bestBody)) {
			best, bestBody = h, body
		}
	}
	return best, bestBody
}

// ---------------------------------------------------------------- origins

// origins follows v backwards through phis, interface conversions, closures'
// free variables and (heap) local variables to the values it may come from.
// Parameters, calls, allocations of composite values, constants, field loads
// and everything else are returned as they are.
func origins(v ssa.Value) []ssa.Value {
	seen := map[ssa.Value]bool{}
	var out []ssa.Value
	var walk func(v ssa.Value)
	walk = func(v ssa.Value) {
		if v == nil || seen[v] {
			return
		}
		seen[v] = true
		switch x := v.(type) {
		case *ssa.Phi:
			for _, e := range x.Edges {
				walk(e)
			}
		case *ssa.ChangeInterface:
			walk(x.X)
		case *ssa.MakeInterface:
			walk(x.X)
		case *ssa.ChangeType:
			walk(x.X)
		case *ssa.Convert:
			if isStringOrBytes(x.Type()) && isStringOrBytes(x.X.Type()) {
				walk(x.X)
			} else {
				out = append(out, v)
			}
		case *ssa.FreeVar:
			b := freeVarBinding(x)
			if b == nil {
				out = append(out, v)
			} else {
				walk(b)
			}
		case *ssa.UnOp:
			if x.Op == token.MUL {
				if al, ok := x.X.(*ssa.Alloc); ok {
					sts := storesTo(al)
					if len(sts) == 0 {
						out = append(out, v)
					}
					for _, s := range sts {
						walk(s)
					}
					return
				}
				if fv, ok := x.X.(*ssa.FreeVar); ok {
					b := freeVarBinding(fv)
					if al, ok := b.(*ssa.Alloc); ok {
						sts := storesTo(al)
						// a variable assigned only by the function that declares it: what the function
						// literal can find in it is what reaches the point where the literal is made, or
						// is assigned after that point
						if rs, ok := cellStoresReaching(al, fv.Parent()); ok {
							sts = rs
						}
						if len(sts) == 0 {
							out = append(out, v)
						}
						for _, s := range sts {
							walk(s)
						}
						return
					}
				}
			}
			out = append(out, v)
		default:
			out = append(out, v)
		}
	}
	walk(v)
	return out
}

// freeVarBinding returns the value bound to fv at the (unique) MakeClosure of its function.
func freeVarBinding(fv *ssa.FreeVar) ssa.Value {
	fn := fv.Parent()
	parent := fn.Parent()
	if parent == nil {
		return nil
	}
	idx := -1
	for i, f := range fn.FreeVars {
		if f == fv {
			idx = i
		}
	}
	if idx < 0 {
		return nil
	}
	for _, b := range parent.Blocks {
		for _, in := range b.Instrs {
			if mc, ok := in.(*ssa.MakeClosure); ok && mc.Fn == ssa.Value(fn) {
				if idx < len(mc.Bindings) {
					return mc.Bindings[idx]
				}
			}
		}
	}
	return nil
}

// storesTo lists the values stored directly into the cell al, in any function
// (closures write captured variables through their free variables).
func storesTo(al *ssa.Alloc) []ssa.Value {
	var out []ssa.Value
	var visitAddr func(addr ssa.Value)
	seen := map[ssa.Value]bool{}
	visitAddr = func(addr ssa.Value) {
		if seen[addr] {
			return
		}
		seen[addr] = true
		if addr.Referrers() == nil {
			return
		}
		for _, r := range *addr.Referrers() {
			switch x := r.(type) {
			case *ssa.Store:
				if x.Addr == addr {
					out = append(out, x.Val)
				}
			case *ssa.MakeClosure:
				fn := x.Fn.(*ssa.Function)
				for i, b := range x.Bindings {
					if b == addr && i < len(fn.FreeVars) {
						visitAddr(fn.FreeVars[i])
					}
				}
			}
		}
	}
	visitAddr(al)
	return out
}

// makeClosuresOf returns the MakeClosure instructions creating fn in its parent.
func makeClosuresOf(fn *ssa.Function) []*ssa.MakeClosure {
	var out []*ssa.MakeClosure
	p := fn.Parent()
	if p == nil {
		return nil
	}
	for _, b := range p.Blocks {
		for _, in := range b.Instrs {
			if mc, ok := in.(*ssa.MakeClosure); ok && mc.Fn == ssa.Value(fn) {
				out = append(out, mc)
			}
		}
	}
	return out
}

// closureFn: if v is (a conversion of) a closure or function literal returns it.
func closureFn(v ssa.Value) *ssa.Function {
	switch x := v.(type) {
	case *ssa.MakeClosure:
		return x.Fn.(*ssa.Function)
	case *ssa.Function:
		return x
	case *ssa.ChangeType:
		return closureFn(x.X)
	}
	return nil
}

func typeString(t types.Type) string {
	return types.TypeString(t, func(p *types.Package) string {
		parts := strings.Split(p.Path(), "/")
		return parts[len(parts)-1]
	})
}

// cellStoresReaching: the values the captured variable al may hold when the function literal lit
// (made once, in the function that declares al) runs: the stores that reach the MakeClosure
// instruction and those that can follow it. ok is false when al is also assigned elsewhere (by a
// function literal), or through a derived address, or the literal is made at several places.
func cellStoresReaching(al *ssa.Alloc, lit *ssa.Function) ([]ssa.Value, bool) {
	parent := al.Parent()
	if parent == nil || lit.Parent() != parent || al.Referrers() == nil {
		return nil, false
	}
	var mc *ssa.MakeClosure
	for _, b := range parent.Blocks {
		for _, in := range b.Instrs {
			if m, ok := in.(*ssa.MakeClosure); ok && m.Fn == ssa.Value(lit) {
				if mc != nil {
					return nil, false
				}
				mc = m
			}
		}
	}
	if mc == nil {
		return nil, false
	}
	stores := map[ssa.Instruction]*ssa.Store{}
	for _, r := range *al.Referrers() {
		switch x := r.(type) {
		case *ssa.Store:
			if x.Addr != ssa.Value(al) {
				return nil, false // the address itself is stored somewhere
			}
			stores[x] = x
		case *ssa.UnOp, *ssa.DebugRef:
		case *ssa.MakeClosure:
			// captured: a literal that assigns it makes the order of assignments unknown
			if f, ok := x.Fn.(*ssa.Function); ok {
				for i, bnd := range x.Bindings {
					if bnd != ssa.Value(al) || i >= len(f.FreeVars) || f.FreeVars[i].Referrers() == nil {
						continue
					}
					for _, fr := range *f.FreeVars[i].Referrers() {
						if st, ok := fr.(*ssa.Store); ok && st.Addr == ssa.Value(f.FreeVars[i]) {
							return nil, false
						}
						if _, isLoad := fr.(*ssa.UnOp); !isLoad {
							if _, isDbg := fr.(*ssa.DebugRef); !isDbg {
								return nil, false
							}
						}
					}
				}
			}
		default:
			return nil, false
		}
	}
	var out []ssa.Value
	seenV := map[ssa.Value]bool{}
	add := func(v ssa.Value) {
		if !seenV[v] {
			seenV[v] = true
			out = append(out, v)
		}
	}
	// backwards from the literal: the nearest store on each path
	seenB := map[*ssa.BasicBlock]bool{}
	var back func(b *ssa.BasicBlock, from int)
	back = func(b *ssa.BasicBlock, from int) {
		for i := from; i >= 0; i-- {
			if st, ok := stores[b.Instrs[i]]; ok {
				add(st.Val)
				return
			}
		}
		for _, p := range b.Preds {
			if !seenB[p] {
				seenB[p] = true
				back(p, len(p.Instrs)-1)
			}
		}
	}
	idx := 0
	for i, in := range mc.Block().Instrs {
		if in == ssa.Instruction(mc) {
			idx = i
		}
	}
	back(mc.Block(), idx-1)
	// forwards: every store that can come after the literal was made
	seenF := map[*ssa.BasicBlock]bool{}
	var fwd func(b *ssa.BasicBlock, from int)
	fwd = func(b *ssa.BasicBlock, from int) {
		for i := from; i < len(b.Instrs); i++ {
			if st, ok := stores[b.Instrs[i]]; ok {
				add(st.Val)
			}
		}
		for _, s := range b.Succs {
			if !seenF[s] {
				seenF[s] = true
				fwd(s, 0)
			}
		}
	}
	fwd(mc.Block(), idx+1)
	if len(out) == 0 {
		return nil, false
	}
	return out, true
}
