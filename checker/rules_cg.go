package main

import (
	"sort"

	"golang.org/x/tools/go/callgraph"
	"golang.org/x/tools/go/callgraph/cha"
	"golang.org/x/tools/go/callgraph/vta"
	"golang.org/x/tools/go/ssa"
	"golang.org/x/tools/go/ssa/ssautil"
)

// CG1 (thorough tier only): the effect summaries resolve dynamic calls by
// closure binding and library implementations of library interfaces. A
// whole-program VTA call graph is built and every library call site is
// cross-checked: a library function that VTA says may be called there must be
// one the summaries account for.
func ruleCG1(c *Ctx) []Ob {
	o := newObs(c, "CG1")
	if !c.Whole {
		o.add(INFO, "skipped", "-", "whole-program call graph is built in the thorough tier only")
		return o.list
	}
	all := ssautil.AllFunctions(c.Prog)
	cg := vta.CallGraph(all, cha.CallGraph(c.Prog))
	nSites, nEdges := 0, 0
	for _, fn := range c.LibFuncs {
		node := cg.Nodes[fn]
		if node == nil {
			continue
		}
		bySite := map[ssa.CallInstruction][]*callgraph.Edge{}
		for _, e := range node.Out {
			if e.Site != nil {
				bySite[e.Site] = append(bySite[e.Site], e)
			}
		}
		var sites []ssa.CallInstruction
		for s := range bySite {
			sites = append(sites, s)
		}
		sort.Slice(sites, func(i, j int) bool { return sites[i].Pos() < sites[j].Pos() })
		for _, site := range sites {
			if staticCallee(site) != nil {
				continue
			}
			nSites++
			accounted := map[*ssa.Function]bool{}
			cc := site.Common()
			if cc.IsInvoke() {
				for _, f := range c.libImpls(cc.Method) {
					accounted[f] = true
				}
			}
			for _, f := range c.localClosureTargets(site) {
				accounted[f] = true
			}
			for _, e := range bySite[site] {
				callee := c.declared(e.Callee.Func)
				if !c.IsLib(callee) {
					continue
				}
				nEdges++
				key := c.fname(fn) + "/dynamic call -> " + c.fname(callee)
				switch {
				case accounted[callee]:
					o.add(OK, key, relPath(c, site.Pos()), "resolved by the summaries (library implementation / local closure)")
				case callee.Parent() != nil:
					// a closure created elsewhere: its effects are attributed to the function that creates it
					o.add(OK, key, relPath(c, site.Pos()), "closure; its effects are attributed to its creator %s, which passes it down", c.fname(callee.Parent()))
				case cc.IsInvoke() && c.methodIsStoreIface(cc.Method):
					o.add(OK, key, relPath(c, site.Pos()), "store interface call: a terminal event of the summaries")
				default:
					o.add(UNDECIDED, key, relPath(c, site.Pos()), "VTA finds a named library function as a possible target of this dynamic call that the effect summaries do not account for (function value stored or passed in a way closure binding does not follow)")
				}
			}
		}
	}
	o.add(OK, "graph", "-", "VTA call graph: %d nodes; %d dynamic library call sites with %d library targets cross-checked", len(cg.Nodes), nSites, nEdges)
	return o.list
}
