package main

import (
	"fmt"
	"go/token"
	"go/types"
	"sort"
	"strings"

	"golang.org/x/tools/go/ssa"
)

// ---------------------------------------------------------------- IMM1

var immutableQueryTypes = []string{"Query", "UnaryCriteria", "BinaryCriteria", "NotCriteria"}

func (c *Ctx) isImmutableQueryType(n *types.Named) bool {
	if n == nil {
		return false
	}
	for _, t := range immutableQueryTypes {
		if c.libNamedIs(n, "query", t) {
			return true
		}
	}
	return false
}

// returnsFresh: every return of fn is an allocation made in fn.
func (c *Ctx) returnsFresh(fn *ssa.Function) bool {
	if fn == nil || len(fn.Blocks) == 0 {
		return false
	}
	n := 0
	for _, ret := range returnsOf(fn) {
		rv, ok := returnedValue(ret, 0)
		if !ok {
			continue
		}
		for _, og := range origins(rv) {
			if _, isAlloc := og.(*ssa.Alloc); !isAlloc {
				return false
			}
			n++
		}
	}
	return n > 0
}

func (c *Ctx) freshBase(fn *ssa.Function, base ssa.Value) (bool, string) {
	for _, og := range origins(base) {
		switch x := og.(type) {
		case *ssa.Alloc:
			if x.Parent() != fn {
				return false, "an object allocated elsewhere"
			}
		case *ssa.Call:
			g := staticCallee(x)
			if g == nil || !c.returnsFresh(c.declared(g)) {
				return false, "the result of " + c.calleeName(x)
			}
		case *ssa.Parameter:
			if c.literalParamFresh(x) {
				continue
			}
			return false, "the caller's object (parameter " + x.Name() + ")"
		default:
			return false, "a shared object"
		}
	}
	return true, ""
}

// literalParamFresh: p is a parameter of a function literal that is only ever handed, where it is
// made, to library functions which do nothing with it but call it, and each of these calls gives
// it an object made in the calling function (q.with(func(copy *Query) { copy.skip = n })).
func (c *Ctx) literalParamFresh(p *ssa.Parameter) bool {
	lit := p.Parent()
	parent := lit.Parent()
	if parent == nil {
		return false
	}
	pi := paramIndex(lit, p)
	if pi < 0 {
		return false
	}
	sites := 0
	for _, b := range parent.Blocks {
		for _, in := range b.Instrs {
			mc, ok := in.(*ssa.MakeClosure)
			if !ok || mc.Fn != ssa.Value(lit) {
				continue
			}
			for _, r := range realReferrers(mc) {
				call, ok := r.(*ssa.Call)
				if !ok {
					return false
				}
				h := staticCallee(call)
				if h == nil || !c.IsLib(c.declared(h)) || call.Call.Value == ssa.Value(mc) {
					return false
				}
				h = c.declared(h)
				for j, a := range call.Call.Args {
					if a != ssa.Value(mc) {
						continue
					}
					if j >= len(h.Params) {
						return false
					}
					hp := h.Params[j]
					// every use of the parameter inside h is a call of it, with a fresh object
					for _, hr := range realReferrers(hp) {
						hc, ok := hr.(*ssa.Call)
						if !ok || hc.Call.Value != ssa.Value(hp) || pi >= len(hc.Call.Args) {
							return false
						}
						if ok, _ := c.freshBase(h, hc.Call.Args[pi]); !ok {
							return false
						}
						sites++
					}
				}
			}
		}
	}
	return sites > 0
}

func ruleIMM1(c *Ctx) []Ob {
	o := newObs(c, "IMM1")
	for _, fn := range c.LibFuncs {
		for _, b := range fn.Blocks {
			for _, in := range b.Instrs {
				st, ok := in.(*ssa.Store)
				if !ok {
					continue
				}
				base, f, n := fieldOfAddr(st.Addr)
				if base == nil {
					// element store through a slice loaded from a query field (q.sortOpts[i] = ...)
					addr := st.Addr
					if fa, ok := addr.(*ssa.FieldAddr); ok {
						addr = fa.X
					}
					if ia, ok := addr.(*ssa.IndexAddr); ok {
						for _, og := range origins(ia.X) {
							if _, lf, ln := fieldLoad(og); lf != "" && c.isImmutableQueryType(ln) {
								o.add(VIOLATED, c.fname(fn)+"/store into "+namedName(ln)+"."+lf+"[i]", relPath(c, st.Pos()), "an element of a slice held by a query object is overwritten in place: every query sharing the slice changes")
							}
						}
					}
					continue
				}
				if !c.isImmutableQueryType(n) {
					continue
				}
				key := c.fname(fn) + "/store " + namedName(n) + "." + f
				if ok, why := c.freshBase(fn, base); ok {
					o.add(OK, key, relPath(c, st.Pos()), "the object written is a literal or copy created in this function")
				} else {
					o.add(VIOLATED, key, relPath(c, st.Pos()), "a field of %s is written: queries and criteria are shared immutable values (copy-on-write builders), so the caller's query object is altered", why)
				}
			}
		}
	}
	// information: accessors handing out internal slices
	if f := c.lookupMethod("query", "Query", "SortOptions"); f != nil {
		o.add(INFO, "query.Query.SortOptions/aliasing", relPath(c, f.Pos()), "returns the query's own option slice: a caller that writes into it alters the query (outside the library's control)")
	}
	return o.list
}

// ---------------------------------------------------------------- IMM2

var goStatementTable = map[string]string{
	"store/badger.badgerStore.startGC": "badger value-log GC loop: touches only the store object, a quit channel and a WaitGroup",
}

func ruleIMM2(c *Ctx) []Ob {
	o := newObs(c, "IMM2")
	dbT := c.libType("", "DB")
	isDB := func(n *types.Named) bool { return n != nil && dbT != nil && types.Identical(n, dbT) }
	// fields of DB accessed through sync/atomic
	atomicFields := map[string]bool{}
	for _, fn := range c.LibFuncs {
		allCalls(fn, func(call ssa.CallInstruction) {
			if !strings.HasPrefix(calleeFullName(call), "sync/atomic.") {
				return
			}
			for _, a := range call.Common().Args {
				if _, f, n := fieldOfAddr(a); f != "" && isDB(n) {
					atomicFields[f] = true
				}
			}
		})
	}
	nDB := 0
	for _, fn := range c.LibFuncs {
		for _, b := range fn.Blocks {
			for _, in := range b.Instrs {
				switch x := in.(type) {
				case *ssa.Store:
					// (a) stores to DB fields
					if base, f, n := fieldOfAddr(x.Addr); base != nil && isDB(n) {
						nDB++
						key := c.fname(fn) + "/store DB." + f
						if ok, _ := c.freshBase(fn, base); ok && !atomicFields[f] {
							o.add(OK, key, relPath(c, x.Pos()), "written only while the handle is being constructed")
						} else if atomicFields[f] {
							o.add(VIOLATED, key, relPath(c, x.Pos()), "DB.%s is accessed with sync/atomic elsewhere but written plainly here: data race", f)
						} else {
							o.add(VIOLATED, key, relPath(c, x.Pos()), "a field of the shared DB handle is written without synchronisation: concurrent operations race on it")
						}
					}
					// (b) stores to package-level variables outside init
					if g := rootGlobal(x.Addr); g != nil && c.LibPkgs[g.Pkg.Pkg.Path()] != nil {
						if !(fn.Name() == "init" || strings.HasPrefix(fn.Name(), "init#")) && !strings.HasPrefix(g.Name(), "init$") {
							o.add(VIOLATED, c.fname(fn)+"/store global "+g.Name(), relPath(c, x.Pos()), "package-level variable %s is written at run time: shared mutable state without synchronisation", g.Name())
						}
					}
				case *ssa.Call:
					// package-level sync.Map / sync.Pool used as a cache
					full := calleeFullName(x)
					if strings.HasPrefix(full, "(*sync.Map).") || strings.HasPrefix(full, "(*sync.Pool).") {
						if g, ok := x.Common().Args[0].(*ssa.Global); ok && g.Pkg != nil && c.LibPkgs[g.Pkg.Pkg.Path()] != nil {
							m := full[strings.LastIndex(full, ".")+1:]
							switch m {
							case "Store", "LoadOrStore", "Swap", "CompareAndSwap", "Put", "Delete", "LoadAndDelete":
								if (m == "Store" || m == "LoadOrStore") && len(x.Common().Args) == 3 && pureMemo(x.Common().Args[1], x.Common().Args[2]) {
									o.add(OK, c.fname(fn)+"/global "+g.Name()+" memoises through sync."+m, relPath(c, x.Pos()), "the entry is computed from the key alone (the key is the function's own argument): a memo of a pure function, never stale")
									continue
								}
								if !(fn.Name() == "init" || strings.HasPrefix(fn.Name(), "init#")) {
									o.add(VIOLATED, c.fname(fn)+"/global "+g.Name()+" mutated through sync."+m, relPath(c, x.Pos()), "package-level %s is filled at run time (a process-wide cache): results now depend on what earlier calls put there - conversion is no longer a function of its input alone", g.Name())
								}
							}
						}
					}
				case *ssa.MapUpdate:
					if g := globalLoad(x.Map); g != nil && c.LibPkgs[g.Pkg.Pkg.Path()] != nil {
						if !(fn.Name() == "init" || strings.HasPrefix(fn.Name(), "init#")) {
							o.add(VIOLATED, c.fname(fn)+"/update global map "+g.Name(), relPath(c, x.Pos()), "package-level map %s is updated at run time (a cache?): concurrent map writes", g.Name())
						}
					}
				case *ssa.UnOp:
					if x.Op == token.MUL {
						if _, f, n := fieldOfAddr(x.X); f != "" && isDB(n) && atomicFields[f] {
							o.add(VIOLATED, c.fname(fn)+"/plain load DB."+f, relPath(c, x.Pos()), "DB.%s is written with sync/atomic but read plainly here: data race", f)
						}
					}
				case *ssa.Go:
					name := c.fname(rootFunc(fn))
					key := name + "/go statement"
					if why, ok := goStatementTable[name]; ok {
						o.add(OK, key, relPath(c, x.Pos()), "known goroutine: %s", why)
					} else {
						o.add(UNDECIDED, key, relPath(c, x.Pos()), "a new goroutine is started in the library: what it shares with the operations has not been reviewed")
					}
				}
			}
		}
	}
	for f := range atomicFields {
		o.add(OK, "DB."+f+"/atomic", "-", "accessed only through sync/atomic")
	}
	// globals inventory: mutable package-level variables of library packages
	for path, sp := range c.LibPkgs {
		for _, mem := range sp.Members {
			g, ok := mem.(*ssa.Global)
			if !ok || strings.HasPrefix(g.Name(), "init$") {
				continue
			}
			rel := strings.TrimPrefix(strings.TrimPrefix(path, c.ModPath), "/")
			name := g.Name()
			if rel != "" {
				name = rel + "." + name
			}
			o.add(OK, "global "+name+"/never written after init", relPath(c, g.Pos()), "no store or map update outside package initialisation")
		}
	}
	if nDB == 0 {
		o.add(UNDECIDED, "DB/construction", "-", "no construction of the DB handle found")
	}
	return o.list
}

// rootGlobal: the package-level variable an address is rooted at, if any.
func rootGlobal(addr ssa.Value) *ssa.Global {
	for i := 0; i < 6; i++ {
		switch x := addr.(type) {
		case *ssa.Global:
			return x
		case *ssa.FieldAddr:
			addr = x.X
		case *ssa.IndexAddr:
			addr = x.X
		default:
			return nil
		}
	}
	return nil
}

// ---------------------------------------------------------------- GUARD1

type guardSummary struct {
	c    *Ctx
	memo map[*ssa.Function]int // 1 guard-first, 2 not, 3 no store access at all
	busy map[*ssa.Function]bool
}

// classify one call: "guard" | "access" | "none"
func (g *guardSummary) classify(call ssa.CallInstruction) string {
	c := g.c
	if _, isDefer := call.(*ssa.Defer); isDefer {
		return "none"
	}
	if f := staticCallee(call); f != nil {
		f = c.declared(f)
		if c.IsLib(f) {
			if c.Roles().isMetaReader(f) {
				return "guard"
			}
			switch g.first(f) {
			case 1:
				return "guard"
			case 2:
				return "access"
			}
			// no access in callee; closures passed are executed by it
		}
	}
	e := c.calleeEff(call)
	if e&EffStoreAccess != 0 {
		return "access"
	}
	for _, a := range call.Common().Args {
		if cf := closureFn(a); cf != nil && c.IsLib(cf) && c.eff(cf)&EffStoreAccess != 0 {
			return "access"
		}
	}
	return "none"
}

// walk explores paths from (block, index); returns the position of an access
// reached before any guard, or "".
func (g *guardSummary) walk(fn *ssa.Function, b *ssa.BasicBlock, idx int) (string, bool) {
	sawAny := false
	seen := map[*ssa.BasicBlock]bool{}
	type item struct {
		b   *ssa.BasicBlock
		idx int
	}
	stack := []item{{b, idx}}
	for len(stack) > 0 {
		it := stack[len(stack)-1]
		stack = stack[:len(stack)-1]
		stopped := false
		for i := it.idx; i < len(it.b.Instrs); i++ {
			call, ok := it.b.Instrs[i].(ssa.CallInstruction)
			if !ok {
				continue
			}
			switch g.classify(call) {
			case "guard":
				sawAny = true
				stopped = true
			case "access":
				return relPath(g.c, call.Pos()), true
			}
			if stopped {
				break
			}
		}
		if stopped {
			continue
		}
		for _, s := range it.b.Succs {
			if !seen[s] {
				seen[s] = true
				stack = append(stack, item{s, 0})
			}
		}
	}
	return "", sawAny
}

func (g *guardSummary) first(fn *ssa.Function) int {
	if v, ok := g.memo[fn]; ok {
		return v
	}
	if g.busy[fn] || len(fn.Blocks) == 0 {
		return 3
	}
	g.busy[fn] = true
	defer delete(g.busy, fn)
	bad, any := g.walk(fn, fn.Blocks[0], 0)
	r := 3
	if bad != "" {
		r = 2
	} else if any {
		r = 1
	}
	g.memo[fn] = r
	return r
}

func ruleGUARD1(c *Ctx) []Ob {
	o := newObs(c, "GUARD1")
	gs := &guardSummary{c: c, memo: map[*ssa.Function]int{}, busy: map[*ssa.Function]bool{}}
	if len(c.Roles().MetaReaders) == 0 {
		o.add(UNDECIDED, "roles", "-", "catalog reader not found")
		return o.list
	}
	namesCollection := func(fn *ssa.Function) bool {
		fn = rootFunc(fn)
		for _, p := range fn.Params {
			if b, ok := p.Type().Underlying().(*types.Basic); ok && b.Kind() == types.String {
				return true
			}
			if pt, ok := p.Type().(*types.Pointer); ok && c.libNamedIs(pt.Elem(), "query", "Query") {
				return true
			}
		}
		return false
	}
	// transaction bodies handed to a tx-scope helper (db.update(func(tx) error {...}))
	for _, tb := range c.txBodies() {
		if c.pkgRel(tb.Fn) != "" || len(tb.Fn.Blocks) == 0 {
			continue
		}
		key := c.fname(tb.Fn) + "/existence guard first"
		pos := relPath(c, tb.Site.Pos())
		if !namesCollection(tb.Fn) {
			o.add(INFO, key, pos, "operation names no collection")
			continue
		}
		bad, any := gs.walk(tb.Fn, tb.Fn.Blocks[0], 0)
		switch {
		case bad != "":
			o.add(VIOLATED, key, pos, "inside the transaction body the store is accessed at %s before the collection's catalog entry has been looked up", bad)
		case !any:
			o.add(VIOLATED, key, pos, "no catalog lookup guards this transaction body")
		default:
			o.add(OK, key, pos, "the first store access of the transaction body on every path is the catalog lookup of the collection")
		}
	}
	helpers := c.txScopeHelpers()
	for _, op := range c.openers() {
		if op.Transfer || c.pkgRel(op.Fn) != "" {
			continue
		}
		if _, isHelper := helpers[op.Fn]; isHelper {
			continue // judged through the bodies passed to it
		}
		takes := false
		for _, p := range op.Fn.Params[1:] {
			if b, ok := p.Type().Underlying().(*types.Basic); ok && b.Kind() == types.String {
				takes = true
			}
			if pt, ok := p.Type().(*types.Pointer); ok && c.libNamedIs(pt.Elem(), "query", "Query") {
				takes = true
			}
		}
		key := c.fname(op.Fn) + "/existence guard first"
		pos := relPath(c, op.Call.Pos())
		if !takes {
			o.add(INFO, key, pos, "operation names no collection")
			continue
		}
		bad, any := gs.walk(op.Fn, op.Call.Block(), instrIndex(op.Call)+1)
		switch {
		case bad != "":
			o.add(VIOLATED, key, pos, "the store is accessed at %s before the collection's catalog entry has been looked up: an operation on a missing collection has side effects or reports the wrong error", bad)
		case !any:
			o.add(VIOLATED, key, pos, "no catalog lookup guards this operation")
		default:
			o.add(OK, key, pos, "after Begin, the first store access on every path is the catalog lookup of the collection")
		}
	}
	return o.list
}

// ---------------------------------------------------------------- STATE1

// STATE1: the database handle keeps no mutable state that a transaction can
// change. A field of the handle type (the receiver type of the functions that
// open transactions) is not assigned, updated as a map/slice, or mutated
// through sync.Map / sync/atomic inside the scope of a transaction (a function
// that received a store.Tx, or after the Begin of the function that opened
// one): a rollback - and another handle, and another process - do not see the
// change undone, so what the cache says and what the store says diverge.
func ruleSTATE1(c *Ctx) []Ob {
	o := newObs(c, "STATE1")
	handles := map[*types.Named]bool{}
	begins := map[*ssa.Function][]*ssa.Call{}
	for _, op := range c.openers() {
		if c.pkgRel(op.Fn) != "" {
			continue
		}
		begins[rootFunc(op.Fn)] = append(begins[rootFunc(op.Fn)], op.Call)
		if n := recvNamed(op.Fn); n != nil {
			handles[n] = true
		}
	}
	if len(handles) == 0 {
		o.add(UNDECIDED, "handle", "-", "no receiver type of a transaction opener found")
		return o.list
	}
	inTxScope := func(fn *ssa.Function, at ssa.Instruction) (bool, string) {
		for f := fn; f != nil; f = f.Parent() {
			for _, p := range f.Params {
				if c.libNamedIs(p.Type(), "store", "Tx") {
					return true, "the function works on a transaction it was given"
				}
			}
		}
		for _, b := range begins[rootFunc(fn)] {
			if fn != rootFunc(fn) || reachesAfter(b, at) {
				return true, "the transaction opened at " + relPath(c, b.Pos()) + " is in progress"
			}
		}
		return false, ""
	}
	handleField := func(addr ssa.Value) (string, bool) {
		for _, og := range origins(addr) {
			if _, f, n := fieldOfAddr(og); n != nil && handles[n] {
				return namedName(n) + "." + f, true
			}
		}
		if _, f, n := fieldOfAddr(addr); n != nil && handles[n] {
			return namedName(n) + "." + f, true
		}
		return "", false
	}
	mutators := map[string]bool{
		"(*sync.Map).Store": true, "(*sync.Map).Delete": true, "(*sync.Map).LoadOrStore": true, "(*sync.Map).LoadAndDelete": true,
		"(*sync.Map).Swap": true, "(*sync.Map).CompareAndSwap": true, "(*sync.Map).CompareAndDelete": true, "(*sync.Map).Clear": true,
	}
	nsites := 0
	for _, fn := range c.LibFuncs {
		if c.pkgRel(fn) != "" {
			continue
		}
		k := 0
		report := func(at ssa.Instruction, field, how string) {
			nsites++
			k++
			key := fmt.Sprintf("%s/%s %s", c.fname(fn), how, field)
			if k > 1 {
				key = fmt.Sprintf("%s #%d", key, k)
			}
			if in, why := inTxScope(fn, at); in {
				o.add(VIOLATED, key, relPath(c, at.Pos()), "%s is changed while %s: the change is not undone when the transaction rolls back (and is invisible to other handles), so later operations are answered from state the store does not have", field, why)
			} else {
				o.add(OK, key, relPath(c, at.Pos()), "%s changes outside any transaction", field)
			}
		}
		for _, b := range fn.Blocks {
			for _, in := range b.Instrs {
				switch x := in.(type) {
				case *ssa.Store:
					if f, ok := handleField(x.Addr); ok {
						// the constructor's literal is not a mutation of a live handle
						if _, isAlloc := stripFieldBase(x.Addr).(*ssa.Alloc); isAlloc {
							continue
						}
						report(x, f, "assigns")
					}
				case *ssa.MapUpdate:
					for _, og := range origins(x.Map) {
						if l, ok := og.(*ssa.UnOp); ok && l.Op == token.MUL {
							if f, ok := handleField(l.X); ok {
								report(x, f, "updates map")
							}
						}
					}
				case ssa.CallInstruction:
					full := calleeFullName(x)
					args := x.Common().Args
					if mutators[full] && len(args) > 0 {
						if f, ok := handleField(args[0]); ok {
							report(x, f, "mutates")
						}
					}
					if strings.HasPrefix(full, "sync/atomic.") && !strings.HasPrefix(full, "sync/atomic.Load") && len(args) > 0 {
						if f, ok := handleField(args[0]); ok {
							report(x, f, "atomically updates")
						}
					}
					if strings.HasPrefix(full, "(*sync/atomic.") && (strings.Contains(full, ").Store") || strings.Contains(full, ").Add") || strings.Contains(full, ").Swap") || strings.Contains(full, ").CompareAndSwap")) && len(args) > 0 {
						if f, ok := handleField(args[0]); ok {
							report(x, f, "atomically updates")
						}
					}
				}
			}
		}
	}
	var hs []string
	for h := range handles {
		hs = append(hs, h.Obj().Name())
	}
	sort.Strings(hs)
	o.add(OK, "handle types", "-", "handle type(s) %s: %d sites change their fields, none inside a transaction", strings.Join(hs, ", "), nsites)
	return o.list
}

// stripFieldBase: the base pointer of a (possibly nested) field address.
func stripFieldBase(addr ssa.Value) ssa.Value {
	for {
		fa, ok := addr.(*ssa.FieldAddr)
		if !ok {
			return addr
		}
		addr = fa.X
	}
}

// pureMemo: the value stored in a cache is computed from the key alone, and the
// key is (a conversion of) a parameter: every leaf of the value's backward slice
// inside the function is that parameter or a constant, and every call on the way
// is to the standard library (no library state, no store access).
func pureMemo(key, val ssa.Value) bool {
	var kp *ssa.Parameter
	for _, og := range origins(stripIfaceOnly(key)) {
		p, ok := stripConv(og).(*ssa.Parameter)
		if !ok || (kp != nil && kp != p) {
			return false
		}
		kp = p
	}
	if kp == nil {
		return false
	}
	seen := map[ssa.Value]bool{}
	var ok func(v ssa.Value, depth int) bool
	ok = func(v ssa.Value, depth int) bool {
		if v == nil || seen[v] {
			return true
		}
		seen[v] = true
		if depth > 12 {
			return false
		}
		switch x := v.(type) {
		case *ssa.Const:
			return true
		case *ssa.Parameter:
			return x == kp
		case *ssa.MakeInterface:
			return ok(x.X, depth+1)
		case *ssa.ChangeType:
			return ok(x.X, depth+1)
		case *ssa.Convert:
			return ok(x.X, depth+1)
		case *ssa.Phi:
			for _, e := range x.Edges {
				if !ok(e, depth+1) {
					return false
				}
			}
			return true
		case *ssa.Extract:
			return ok(x.Tuple, depth+1)
		case *ssa.Call:
			g := x.Common().StaticCallee()
			if g == nil || g.Pkg == nil || strings.Contains(g.Pkg.Pkg.Path(), ".") {
				return false // only standard-library functions are taken to be pure here
			}
			for _, a := range x.Common().Args {
				if !ok(a, depth+1) {
					return false
				}
			}
			return true
		case *ssa.Alloc:
			// a fresh struct whose fields are all computed from the key
			for _, r := range realReferrers(x) {
				switch y := r.(type) {
				case *ssa.FieldAddr:
					for _, rr := range realReferrers(y) {
						if st, isSt := rr.(*ssa.Store); isSt && st.Addr == ssa.Value(y) {
							if !ok(st.Val, depth+1) {
								return false
							}
						}
					}
				case *ssa.Store:
					if y.Addr == ssa.Value(x) && !ok(y.Val, depth+1) {
						return false
					}
				}
			}
			return true
		case *ssa.UnOp:
			if al, isAl := x.X.(*ssa.Alloc); isAl {
				return ok(al, depth+1)
			}
			return false
		}
		return false
	}
	return ok(val, 0)
}

// ---------------------------------------------------------------- IMM3

// IMM3: internal.Normalize is a function of its argument: neither it nor the
// helpers it calls write into the value they were given (an element of the
// caller's slice, an entry of the caller's map, a field through a pointer, a
// reflect.Value.Set*). The normal form is built in fresh containers. Criteria
// operands and update maps are passed through Normalize on every operation, so
// an in-place "optimisation" rewrites the caller's query or map - shared
// between goroutines - on every call.
func ruleIMM3(c *Ctx) []Ob {
	o := newObs(c, "IMM3")
	norm := c.lookupFunc("internal", "Normalize")
	if norm == nil {
		o.add(UNDECIDED, "Normalize", "-", "internal.Normalize not found")
		return o.list
	}
	var fns []*ssa.Function
	for f := range c.staticReach(norm) {
		if c.pkgRel(f) == "internal" || c.pkgRel(f) == "util" {
			fns = append(fns, f)
		}
	}
	sort.Slice(fns, func(i, j int) bool { return c.fname(fns[i]) < c.fname(fns[j]) })
	// fromInput: v is (part of) what the function was given: reached from a parameter through
	// type assertions, conversions, slicing, (reflect.Value).Interface and element/entry loads
	var fromInput func(v ssa.Value, depth int, seen map[ssa.Value]bool) bool
	fromInput = func(v ssa.Value, depth int, seen map[ssa.Value]bool) bool {
		if v == nil || seen[v] || depth > 10 {
			return false
		}
		seen[v] = true
		for _, og := range origins(v) {
			switch x := og.(type) {
			case *ssa.Parameter:
				// the entry point's parameter is the caller's value; a helper's parameter is input only
				// if some call site hands it (part of) its own input - an accumulator made by the
				// caller (m := make(map...); fill(m, ...)) is not
				g := x.Parent()
				sites := c.staticCallers(g)
				if g == norm || g.Parent() != nil || len(sites) == 0 || g.Object() == nil || g.Object().Exported() {
					return true
				}
				idx := -1
				for i, p := range g.Params {
					if p == x {
						idx = i
					}
				}
				for _, cs := range sites {
					args := cs.Common().Args
					if idx < 0 || idx >= len(args) || !c.IsLib(cs.Parent()) {
						return true
					}
					if fromInput(args[idx], depth+1, seen) {
						return true
					}
				}
			case *ssa.TypeAssert:
				if fromInput(x.X, depth+1, seen) {
					return true
				}
			case *ssa.Extract:
				if fromInput(x.Tuple, depth+1, seen) {
					return true
				}
			case *ssa.Slice:
				if fromInput(x.X, depth+1, seen) {
					return true
				}
			case *ssa.Call:
				full := calleeFullName(x)
				if strings.HasPrefix(full, "(reflect.Value).") && !strings.HasPrefix(full, "(reflect.Value).Len") {
					// Interface(), Index(i), Elem(), MapIndex(k), Field(i): views of the receiver
					if len(x.Common().Args) > 0 && fromInput(x.Common().Args[0], depth+1, seen) {
						return true
					}
				} else if g := staticCallee(x); g != nil && (c.IsLib(c.declared(g)) || full == "reflect.ValueOf" || full == "reflect.Indirect") {
					// a helper handing back a reflect.Value made from its argument: still a view of it
					hasRV := false
					res := g.Signature.Results()
					for i := 0; i < res.Len(); i++ {
						if namedIs(res.At(i).Type(), "reflect", "Value") {
							hasRV = true
						}
					}
					if hasRV {
						for _, a := range x.Common().Args {
							if fromInput(a, depth+1, seen) {
								return true
							}
						}
					}
				}
			case *ssa.UnOp:
				if x.Op == token.MUL {
					if ia, ok := x.X.(*ssa.IndexAddr); ok && fromInput(ia.X, depth+1, seen) {
						return true
					}
				}
			case *ssa.Lookup:
				if fromInput(x.X, depth+1, seen) {
					return true
				}
			}
		}
		return false
	}
	n := 0
	for _, fn := range fns {
		k := 0
		rep := func(at ssa.Instruction, what string) {
			k++
			o.add(VIOLATED, fmt.Sprintf("%s/writes its input #%d", c.fname(fn), k), relPath(c, at.Pos()), "%s: Normalize rewrites the value it was given instead of building the normal form in a fresh container - the caller's criteria operand / update map is modified by every operation that uses it", what)
		}
		for _, b := range fn.Blocks {
			for _, in := range b.Instrs {
				switch x := in.(type) {
				case *ssa.Store:
					if ia, ok := x.Addr.(*ssa.IndexAddr); ok && fromInput(ia.X, 0, map[ssa.Value]bool{}) {
						rep(x, "an element of the input slice is assigned")
					}
				case *ssa.MapUpdate:
					if fromInput(x.Map, 0, map[ssa.Value]bool{}) {
						rep(x, "an entry of the input map is assigned")
					}
				case ssa.CallInstruction:
					full := calleeFullName(x)
					if strings.HasPrefix(full, "(reflect.Value).Set") && len(x.Common().Args) > 0 && fromInput(x.Common().Args[0], 0, map[ssa.Value]bool{}) {
						rep(x, "the input is modified through reflection ("+full+")")
					}
				}
			}
		}
		n++
		if k == 0 {
			o.add(OK, c.fname(fn)+"/does not write its input", relPath(c, fn.Pos()), "no store into a slice, map or reflect.Value derived from a parameter")
		}
	}
	if n == 0 {
		o.add(UNDECIDED, "Normalize", "-", "nothing reachable from Normalize")
	}
	return o.list
}

// ---------------------------------------------------------------- ALIAS2

// ALIAS2: a predicate supplied by the caller (query.MatchFunc) is applied to a
// copy of the document under test, never to the object the operation goes on to
// use. The bulk operations take the key, the id and the values of the index
// entries to remove from that object after the filter ran: a predicate that
// normalises a field in place (lower-casing a name, rewriting _id) would make
// Update store the document under another document's key, or Delete leave the
// index entries of the original value behind.
func ruleALIAS2(c *Ctx) []Ob {
	o := newObs(c, "ALIAS2")
	copyM := c.lookupMethod("document", "Document", "Copy")
	n := 0
	for _, fn := range c.LibFuncs {
		if c.pkgRel(fn) != "query" {
			continue
		}
		k := 0
		allCalls(fn, func(ci ssa.CallInstruction) {
			cc := ci.Common()
			if cc.IsInvoke() || cc.StaticCallee() != nil {
				return
			}
			if _, isBuiltin := cc.Value.(*ssa.Builtin); isBuiltin {
				return
			}
			// a function value made by the library itself (a closure, or what a library function
			// returns) is library code, examined where it is written
			libMade := len(c.deepOrigins(cc.Value)) > 0
			for _, og := range c.deepOrigins(cc.Value) {
				switch og.(type) {
				case *ssa.MakeClosure, *ssa.Function:
				case *ssa.Const:
					// the nil function a selector hands back for "none": nobody's code
					if !og.(*ssa.Const).IsNil() {
						libMade = false
					}
				default:
					libMade = false
				}
			}
			if libMade {
				return
			}
			for _, a := range cc.Args {
				if !c.libNamedIs(a.Type(), "document", "Document") {
					continue
				}
				n++
				k++
				key := fmt.Sprintf("%s/caller's predicate receives a copy", c.fname(fn))
				if k > 1 {
					key += fmt.Sprintf(" #%d", k)
				}
				fresh := len(origins(a)) > 0
				for _, og := range origins(a) {
					call, ok := og.(*ssa.Call)
					if !ok || copyM == nil || staticCallee(call) == nil || c.declared(staticCallee(call)) != copyM {
						fresh = false
					}
				}
				if fresh {
					o.add(OK, key, relPath(c, ci.Pos()), "the function value taken from the criteria is called with Document.Copy() of the document under test")
				} else {
					o.add(VIOLATED, key, relPath(c, ci.Pos()), "a function supplied by the caller is handed the very document object that the plan passes on: Update/Delete take the record key, the id and the index values to remove from that object afterwards, so a predicate that modifies its argument (doc.Set(\"_id\", other); return true) makes Update overwrite another document, and Delete leaves the original value's index entries behind")
				}
			}
		})
	}
	if n == 0 {
		o.add(INFO, "predicates", "-", "package query calls no caller-supplied function with a document")
	}
	return o.list
}

// ---------------------------------------------------------------- ALIAS3

// ALIAS3: a copy of a document shares nothing with the original. The copy helper
// (util.CopyMap and what it calls) puts a value of the original into the copy as it is
// only where the value was found to be neither an object nor an array: both container
// kinds are copied recursively. A copy that clones objects but shares arrays lets a
// MatchFunc predicate (which works on Document.Copy()) sort or rewrite an array of the
// document the operation goes on to return, update, or take index values from.
func ruleALIAS3(c *Ctx) []Ob {
	o := newObs(c, "ALIAS3")
	cp := c.lookupFunc("util", "CopyMap")
	if cp == nil {
		o.add(UNDECIDED, "model", "-", "util.CopyMap not found")
		return softenUndecided(o.list)
	}
	empty := types.NewInterfaceType(nil, nil)
	kinds := []struct {
		name string
		t    types.Type
	}{{"object", types.NewMap(types.Typ[types.String], empty)}, {"array", types.NewSlice(empty)}}
	n := 0
	var fns []*ssa.Function
	inSet := map[*ssa.Function]bool{}
	for f := range c.staticReach(cp) {
		if c.pkgRel(f) == "util" && !inSet[f] {
			inSet[f] = true
			fns = append(fns, f)
		}
	}
	// the copies the document API hands out: Copy (what a MatchFunc predicate is given), AsMap, ToMap - they
	// are built by the helper, or by code of their own that is held to the same rule
	for _, name := range []string{"Copy", "AsMap", "ToMap"} {
		if m := c.lookupMethod("document", "Document", name); m != nil {
			for f := range c.staticReach(m) {
				if c.pkgRel(f) == "document" && !inSet[f] && (f == m || f.Parent() != nil) {
					inSet[f] = true
					fns = append(fns, f)
				}
			}
		}
	}
	sort.Slice(fns, func(i, j int) bool { return c.fname(fns[i]) < c.fname(fns[j]) })
	// values that are raw pieces of the input: elements of a ranged map / slice, or an interface
	// parameter of a helper (the value to copy)
	for _, fn := range fns {
		var isRawD func(v ssa.Value, d int) bool
		isRawD = func(v ssa.Value, d int) bool {
			if d > 4 {
				return false
			}
			for _, og := range origins(v) {
				switch x := og.(type) {
				case *ssa.Extract:
					if _, isNext := x.Tuple.(*ssa.Next); isNext && x.Index == 2 {
						return true
					}
					// the value of the original seen through a type assertion / switch is still that value
					if ta, isTA := x.Tuple.(*ssa.TypeAssert); isTA && x.Index == 0 && isRawD(ta.X, d+1) {
						return true
					}
				case *ssa.TypeAssert:
					if !x.CommaOk && isRawD(x.X, d+1) {
						return true
					}
				case *ssa.UnOp:
					if ia, ok := x.X.(*ssa.IndexAddr); ok && x.Op == token.MUL {
						if _, isP := ia.X.(*ssa.Parameter); isP {
							return true
						}
						for _, o2 := range origins(ia.X) {
							if _, isP := o2.(*ssa.Parameter); isP {
								return true
							}
							if ex, ok := o2.(*ssa.Extract); ok {
								if _, isTA := ex.Tuple.(*ssa.TypeAssert); isTA {
									return true
								}
							}
						}
					}
				case *ssa.Parameter:
					if _, isI := x.Type().Underlying().(*types.Interface); isI {
						return true
					}
				}
			}
			return false
		}
		isRaw := func(v ssa.Value) bool { return isRawD(v, 0) }
		notKind := map[string][]edge{}
		for _, kd := range kinds {
			kd := kd
			notKind[kd.name] = guardEdges(fn, func(cond ssa.Value, branch bool) bool {
				ex, ok := cond.(*ssa.Extract)
				if !ok || ex.Index != 1 {
					return false
				}
				ta, ok := ex.Tuple.(*ssa.TypeAssert)
				return ok && ta.CommaOk && types.Identical(ta.AssertedType, kd.t) && !branch
			})
		}
		isKind := map[string][]edge{}
		for _, kd := range kinds {
			kd := kd
			isKind[kd.name] = guardEdges(fn, func(cond ssa.Value, branch bool) bool {
				ex, ok := cond.(*ssa.Extract)
				if !ok || ex.Index != 1 {
					return false
				}
				ta, ok := ex.Tuple.(*ssa.TypeAssert)
				return ok && ta.CommaOk && types.Identical(ta.AssertedType, kd.t) && branch
			})
		}
		k := 0
		report := func(at ssa.Instruction, b *ssa.BasicBlock, val ssa.Value) {
			n++
			k++
			key := fmt.Sprintf("%s/value handed to the copy as it is #%d", c.fname(fn), k)
			missing := ""
			for _, kd := range kinds {
				if !guardedBy(fn, b, notKind[kd.name]) {
					missing = kd.name
				}
			}
			// a nil container (seen through a type assertion) is shared harmlessly
			if missing != "" && val != nil {
				v := val
				if mi, ok := v.(*ssa.MakeInterface); ok {
					v = mi.X
				}
				if guardedBy(fn, b, nilEdges(fn, sameValue(v))) {
					o.add(OK, key, relPath(c, at.Pos()), "only where the container is nil")
					return
				}
			}
			if missing == "" {
				o.add(OK, key, relPath(c, at.Pos()), "only where the value is neither an object nor an array")
			} else {
				o.add(VIOLATED, key, relPath(c, at.Pos()), "a value of the original goes into the copy without having been found not to be an %s: the copy shares its %ss with the original (an empty object too: Set(\"a.b\", v) writes into it), so a MatchFunc predicate working on Document.Copy() that sorts or rewrites an %s changes the document the operation returns, stores (Update) or takes the index values to remove from (Delete leaves the entry of the stored value behind)", missing, missing, missing)
			}
		}
		// copy(dst, src): every element of the original goes into the copy in one go; each container kind
		// must then be replaced by a copy of its own (a store into dst of a value that is not the
		// original's, on the branch where the element was found to be of that kind)
		reportCopy := func(call *ssa.Call, b *ssa.BasicBlock) {
			n++
			k++
			key := fmt.Sprintf("%s/value handed to the copy as it is #%d", c.fname(fn), k)
			dst := call.Call.Args[0]
			// the assertion that found the source to be an array says nothing about its elements
			outer := map[ssa.Value]bool{}
			for _, og := range origins(call.Call.Args[1]) {
				if ex, ok := og.(*ssa.Extract); ok {
					if ta, ok := ex.Tuple.(*ssa.TypeAssert); ok {
						outer[ta.X] = true
					}
				}
				if ta, ok := og.(*ssa.TypeAssert); ok {
					outer[ta.X] = true
				}
			}
			elemEdges := func(all []edge) []edge {
				var out []edge
				for _, e := range all {
					iff := e.From.Instrs[len(e.From.Instrs)-1].(*ssa.If)
					if ex, ok := iff.Cond.(*ssa.Extract); ok {
						if ta, ok := ex.Tuple.(*ssa.TypeAssert); ok && outer[ta.X] {
							continue
						}
					}
					out = append(out, e)
				}
				return out
			}
			missing := ""
			for _, kd := range kinds {
				replaced := false
				kindE := elemEdges(isKind[kd.name])
				for _, b2 := range fn.Blocks {
					for _, in2 := range b2.Instrs {
						st, ok := in2.(*ssa.Store)
						if !ok {
							continue
						}
						ia, ok := st.Addr.(*ssa.IndexAddr)
						if !ok || !(ia.X == dst || sameOrigin(ia.X, dst)) || isRaw(st.Val) {
							continue
						}
						if guardedBy(fn, b2, kindE) {
							replaced = true
						}
						for _, e := range kindE {
							if e.to() == b2 {
								replaced = true
							}
						}
					}
				}
				if !replaced {
					missing = kd.name
				}
			}
			if missing == "" {
				o.add(OK, key, relPath(c, call.Pos()), "the elements copied in one go are replaced by copies of their own where they are objects or arrays")
			} else {
				o.add(VIOLATED, key, relPath(c, call.Pos()), "copy() puts every element of the original into the copy, and no later store replaces those that are %ss by a copy of their own: the copy shares its nested %ss with the original, so a MatchFunc predicate working on Document.Copy() that sorts or rewrites one changes the document the operation returns, stores (Update) or takes the index values to remove from", missing, missing)
			}
		}
		for _, b := range fn.Blocks {
			for _, in := range b.Instrs {
				switch x := in.(type) {
				case *ssa.MapUpdate:
					if isRaw(x.Value) {
						report(x, b, x.Value)
					}
				case *ssa.Store:
					if _, isIA := x.Addr.(*ssa.IndexAddr); isIA && isRaw(x.Val) {
						report(x, b, x.Val)
					}
					// the copy is given the very map of the original
					if _, isFA := x.Addr.(*ssa.FieldAddr); isFA && c.pkgRel(fn) == "document" {
						for _, og := range origins(x.Val) {
							if _, f, nn := fieldLoad(og); f != "" && nn != nil && nn.Obj().Name() == "Document" {
								if _, isMap := og.Type().Underlying().(*types.Map); isMap {
									n++
									k++
									o.add(VIOLATED, fmt.Sprintf("%s/value handed to the copy as it is #%d", c.fname(fn), k), relPath(c, x.Pos()), "the new document is given the map of fields of the original itself: the copy and the original are one object as far as Set goes")
								}
							}
						}
					}
				case *ssa.Return:
					if c.pkgRel(fn) == "document" {
						for _, r := range x.Results {
							if _, isMap := r.Type().Underlying().(*types.Map); !isMap {
								continue
							}
							for _, og := range origins(r) {
								if _, f, nn := fieldLoad(og); f != "" && nn != nil && nn.Obj().Name() == "Document" {
									n++
									k++
									o.add(VIOLATED, fmt.Sprintf("%s/value handed to the copy as it is #%d", c.fname(fn), k), relPath(c, x.Pos()), "the map of fields of the document itself is handed out: the caller's writes reach the document (ExportCollection, the update of DB.Update and MatchFunc predicates work on what these functions return)")
								}
							}
						}
					}
					if fn != cp {
						for _, r := range x.Results {
							if _, isI := r.Type().Underlying().(*types.Interface); isI && isRaw(r) {
								report(x, b, r)
							}
						}
					}
				case *ssa.Call:
					if bi, isB := x.Call.Value.(*ssa.Builtin); isB && bi.Name() == "copy" && len(x.Call.Args) == 2 {
						if st, isS := x.Call.Args[1].Type().Underlying().(*types.Slice); isS {
							if _, isI := st.Elem().Underlying().(*types.Interface); isI && isRaw(x.Call.Args[1]) {
								reportCopy(x, b)
							}
						}
					}
				}
			}
		}
	}
	if n == 0 {
		o.add(UNDECIDED, "copy helper", relPath(c, cp.Pos()), "no place where util.CopyMap hands a value of the original to the copy was recognised")
		return softenUndecided(o.list)
	}
	return o.list
}
